#!/bin/bash
# Build the overlay venv used by every check: /venv's packages + z3-solver from the offline wheelhouse.
set -e
cd "$(dirname "$0")"
V=.venv
if [ ! -x $V/bin/python ] || ! $V/bin/python -c "import z3, fpy2" 2>/dev/null; then
  rm -rf $V
  /venv/bin/python -m venv $V
  SP=$($V/bin/python -c "import sysconfig; print(sysconfig.get_paths()['purelib'])")
  printf "/venv/lib/python3.12/site-packages\n/repo\n" > "$SP/_verif_base.pth"
  PIP_NO_INDEX=1 $V/bin/pip install -q --no-index --find-links /opt/veriftools/wheels z3-solver >/dev/null
  $V/bin/python -c "import z3, fpy2; print('overlay ok: z3', z3.get_version_string())"
fi
