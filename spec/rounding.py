"""
Correct-rounding oracle, written from the property statements and the user documentation
(docs + class docstrings), independent of the structure of RealFloat._round_at.

All magnitudes are *scaled integers*: X = |x| * 2**K, with K chosen by the harness so that every value in
scope is an integer.  Positions are given unscaled (n = position of the first unrepresentable digit), as in
the public API.  Works on z3 terms and on Python ints (see dsl).
"""
from .dsl import If, And, Or, Not, Eq, bitlen, Max, isz, shl, shr

RNE, RNA, RTP, RTN, RTZ, RAZ, RTO, RTE = 'RNE', 'RNA', 'RTP', 'RTN', 'RTZ', 'RAZ', 'RTO', 'RTE'
MODES = [RNE, RNA, RTP, RTN, RTZ, RAZ, RTO, RTE]


def quantum(X, p, n, K):
    """scaled exponent q of the spacing of representable values around magnitude X:
    p = max significant digits (or None), n = lowest position excluded (or None)."""
    if p is None:
        q = n + 1 + K
    else:
        eX = bitlen(X) - 1
        q = eX - p + 1
        if n is not None:
            q = Max(q, n + 1 + K)
    return q


def is_member(M, p, n, K):
    """is the scaled magnitude M a value with at most p digits and no digit at or below n?"""
    q = quantum(M, p, n, K)
    # q may be <= 0 when M has fewer than p digits: then every bit is kept
    qq = If(q < 0, 0, q)
    return Or(Eq(M, 0), Eq(M & (shl(1, qq) - 1), 0))


def round_detail(X, neg, p, n, rm, K):
    """all the quantities of one correct rounding of magnitude X (sign `neg`, python bool)"""
    q = quantum(X, p, n, K)
    # K is chosen so that q >= 0 in scope (harness obligation); clamp for totality
    q = If(q < 0, 0, q)
    one = shl(1, q)
    mask = one - 1
    rem = X & mask
    lo = X - rem
    hi = lo + one
    exact = Eq(rem, 0)
    half = shr(one, 1)            # 0 when q == 0 (then rem == 0 anyway)
    lo_even = Eq(shr(lo, q) & 1, 0)
    above = rem > half
    tie = And(Eq(rem, half), Not(exact))
    if rm == RNE:
        up = Or(above, And(tie, Not(lo_even)))
    elif rm == RNA:
        up = Or(above, tie)
    elif rm == RTP:
        up = (not neg)
    elif rm == RTN:
        up = bool(neg)
    elif rm == RTZ:
        up = False
    elif rm == RAZ:
        up = True
    elif rm == RTO:
        up = lo_even
    elif rm == RTE:
        up = Not(lo_even)
    else:
        raise ValueError(rm)
    R = If(exact, X, If(up, hi, lo))
    carry = And(Not(exact), up, Not(Eq(bitlen(hi), bitlen(X))))
    return dict(q=q, lo=lo, hi=hi, rem=rem, half=half, exact=exact, tie=tie, up=up, R=R, inexact=Not(exact),
                carry=carry, lo_even=lo_even)


def round_spec(X, neg, p, n, rm, K):
    """(rounded scaled magnitude, inexact) for magnitude X of sign `neg` (python bool)."""
    d = round_detail(X, neg, p, n, rm, K)
    return d['R'], d['inexact']


def neighbours(X, p, n, K):
    """(lo, hi) scaled magnitudes: the representable values bracketing X (lo == hi == X when representable)"""
    lo, _ = round_spec(X, False, p, n, RTZ, K)
    hi, _ = round_spec(X, False, p, n, RAZ, K)
    return lo, hi


def overflow_to_inf(rm, neg):
    """IEEE 754 §7.4: does an overflow produce infinity (True), the largest finite value (False), or is it
    left open by the documentation (None: round-to-odd / round-to-even are not IEEE modes)?"""
    if rm in (RNE, RNA, RAZ):
        return True
    if rm == RTZ:
        return False
    if rm == RTP:
        return not neg
    if rm == RTN:
        return bool(neg)
    return None
