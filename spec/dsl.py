"""
Dual-use expression helpers: the same oracle text yields a z3 formula when given z3 terms and a plain
Python value when given ints/bools (used by the concrete replay judge).
"""
import z3

WO = 96     # width of oracle terms (denotations); wider than any engine width used


def isz(x):
    return isinstance(x, z3.ExprRef)


def If(c, a, b):
    if isz(c):
        if not isz(a) and not isz(b):
            if isinstance(a, bool):
                a, b = z3.BoolVal(a), z3.BoolVal(b)
            else:
                a, b = z3.BitVecVal(a, WO), z3.BitVecVal(b, WO)
        elif isinstance(a, bool):
            a = z3.BoolVal(a)
        elif isinstance(b, bool):
            b = z3.BoolVal(b)
        return z3.If(c, a, b)
    return a if c else b


def And(*xs):
    if any(isz(x) for x in xs):
        return z3.And(*[x if isz(x) else z3.BoolVal(bool(x)) for x in xs])
    return all(xs)


def Or(*xs):
    if any(isz(x) for x in xs):
        return z3.Or(*[x if isz(x) else z3.BoolVal(bool(x)) for x in xs])
    return any(xs)


def Not(x):
    return z3.Not(x) if isz(x) else (not x)


def Implies(a, b):
    return Or(Not(a), b)


def Eq(a, b):
    """equality usable for bools and ints in both modes"""
    if isz(a) or isz(b):
        if isinstance(a, bool):
            a = z3.BoolVal(a)
        if isinstance(b, bool):
            b = z3.BoolVal(b)
        return a == b
    return a == b


def Iff(a, b):
    return Eq(a, b)


def bitlen(a):
    """bit length of a non-negative value"""
    if isz(a):
        W = a.size()
        r = z3.BitVecVal(0, W)
        one1 = z3.BitVecVal(1, 1)
        for i in range(W - 1):
            r = z3.If(z3.Extract(i, i, a) == one1, z3.BitVecVal(i + 1, W), r)
        return r
    return int(a).bit_length()


def Max(a, b):
    return If(a > b, a, b)


def Min(a, b):
    return If(a < b, a, b)


def lift(x, W=None):
    """engine value (SymInt / int / z3 BV) -> oracle-width signed term (or python int)"""
    from pysym.core import SymInt
    W = W or WO
    if type(x) is SymInt:
        x = x.t
    if isz(x):
        n = x.size()
        if n == W:
            return x
        assert n < W
        return z3.SignExt(W - n, x)
    if isinstance(x, bool):
        return int(x)
    return int(x)


def const(v, W=None):
    return z3.BitVecVal(v, W or WO)


def shl(a, k):
    """a << k for possibly-symbolic operands (k >= 0 assumed by the caller)"""
    if isz(k) and not isz(a):
        a = z3.BitVecVal(a, k.size())
    return a << k


def shr(a, k):
    if isz(k) and not isz(a):
        a = z3.BitVecVal(a, k.size())
    return a >> k
