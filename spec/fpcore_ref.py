"""
Reference evaluator for FPCore (FPBench standard 2.0: http://fpbench.org/spec/fpcore-2.0.html), written from the standard's
text.  It walks the parsed S-expression of a core (titanfp's `fpcast` node classes are used as a plain data format only; no
evaluator, visitor or context code of titanfp or of fpy2 is shared) with an environment and a *rounding context* that is
a dictionary of properties:

  number literal      rounded once under the current context (exact under :precision real)
  (op e ...)          operands evaluated, the exact result rounded once under the current context
  (cast e)            the value of e rounded under the current context
  (! :k v ... e)      e evaluated under the current properties updated with the annotation's, and under no other
  (let / let*), (if), (while / while*), (for / for*), (tensor / tensor*), (array), (ref), (size), (dim)
                      as in section "Control flow and tensors" of the standard: `let`, `while`, `for` bind/update in parallel,
                      the starred forms sequentially; loop inits are evaluated in the enclosing scope; index variables are
                      exact integers; `ref`/`size` need in-range integer indices
  comparisons         exact, n-ary chains, NaN unordered;  and / or / not;  isnan isinf isfinite signbit
  (f e ...)           a named core: its body under the caller's current properties updated with the callee's own
  core entry          arguments are bound as given (the comparison is with FPy, which never rounds arguments)
  default context     :precision binary64 :round nearestEven

The primitive rounded operations  C(exact(a op b))  are handed in (`prim`), as are predicates on numbers (`num`) - the same
operations, or their validated summaries, that the FPy interpreter ends up calling; what this evaluator decides is which
operation runs on which values under which properties.  Anything outside the list raises Unsupported; a stuck evaluation
(index out of range, non-integer size ...) raises Stuck.
"""
from fractions import Fraction


class Unsupported(Exception):
    pass


class Stuck(Exception):
    pass


_ROUND = {'nearestEven': 'RNE', 'nearestAway': 'RNA', 'toPositive': 'RTP', 'toNegative': 'RTN', 'toZero': 'RTZ', 'awayZero': 'RAZ'}
_IEEE = {'binary16': (5, 16), 'binary32': (8, 32), 'binary64': (11, 64), 'binary80': (15, 79), 'binary128': (15, 128)}
_OPS = {'+': ('add', 2), '-': ('sub', 2), '*': ('mul', 2), 'fma': ('fma', 3), 'fabs': ('abs', 1), 'cast': ('round', 1)}
LOOP_LIMIT = 64


def _datum(v):
    """annotation value -> python data (symbols / strings -> str, numerals -> int, lists -> list)"""
    if isinstance(v, str):
        return v
    if isinstance(v, (tuple, list)):
        return [_datum(x) for x in v]
    name = type(v).__name__
    if name == 'Data':
        return _datum(v.value)
    if name in ('Var', 'String', 'Constant'):
        return v.value
    if name in ('Integer', 'Decnum'):
        try:
            return int(str(v.value))
        except ValueError:
            return str(v.value)
    raise Unsupported('annotation value %r' % (v,))


class FPCoreRef:
    def __init__(self, cores, prim, num, make_context):
        """cores: {ident: parsed core}; prim: add/sub/mul/fma/neg/abs/round -> f(*args, ctx=C); num: helpers on numbers;
        make_context(kind, params, round mode name) -> the context object `prim` understands"""
        self.cores = dict(cores)
        self.prim = prim
        self.num = num
        self.make_context = make_context
        self._ctx_cache = {}

    # ---- rounding contexts -------------------------------------------------------------------------------------------
    def context(self, props):
        prec = props.get('precision', 'binary64')
        rnd = props.get('round', 'nearestEven')
        key = (repr(prec), rnd)
        if key in self._ctx_cache:
            return self._ctx_cache[key]
        if rnd not in _ROUND:
            raise Unsupported('rounding mode %r' % (rnd,))
        if prec == 'real':
            c = self.make_context('real', (), None)
        elif prec == 'integer':
            c = self.make_context('integer', (), _ROUND[rnd])
        elif isinstance(prec, str) and prec in _IEEE:
            c = self.make_context('ieee', _IEEE[prec], _ROUND[rnd])
        elif isinstance(prec, list) and len(prec) == 3 and prec[0] == 'float':
            c = self.make_context('ieee', (int(prec[1]), int(prec[2])), _ROUND[rnd])
        elif isinstance(prec, list) and len(prec) == 3 and prec[0] == 'fixed':
            # (fixed scale nbits): two's-complement integers of nbits bits scaled by 2^scale
            if int(prec[2]) < 1:
                raise Stuck('precision (fixed %s %s): a format of %s bits' % (prec[1], prec[2], prec[2]))
            c = self.make_context('fixed', (int(prec[1]), int(prec[2])), _ROUND[rnd])
        else:
            raise Unsupported('precision %r' % (prec,))
        self._ctx_cache[key] = c
        return c

    @staticmethod
    def updated(props, ann):
        new = dict(props)
        for k, v in ann.items():
            if k in ('pre', 'spec', 'alt', 'name', 'description', 'cite'):
                continue
            new[k] = _datum(v)
        return new

    # ---- entry ---------------------------------------------------------------------------------------------------------
    def run(self, ident, args, props=None):
        core = self.cores[ident]
        return self._apply(core, list(args), dict(props or {}))

    def _apply(self, core, args, props):
        props = self.updated(props, core.props)
        if len(args) != len(core.inputs):
            raise Stuck('arity')
        env = {}
        for a, (name, _aprops, shape) in zip(args, core.inputs):
            if shape:
                t = a
                for d in shape:
                    if not isinstance(t, (list, tuple)):
                        raise Stuck('argument %s is not a tensor of rank %d' % (name, len(shape)))
                    if isinstance(d, int):
                        if len(t) != d:
                            raise Stuck('argument %s: dimension %d expected' % (name, d))
                    else:
                        if d in env and env[d] != len(t):
                            raise Stuck('dimension %s bound twice' % d)
                        env[d] = len(t)
                    t = t[0] if len(t) else ()
                env[name] = self._freeze(a)
            else:
                if isinstance(a, (list, tuple)):
                    raise Stuck('argument %s is a tensor' % name)
                env[name] = a
        return self.ev(core.e, env, props)

    def _freeze(self, v):
        return tuple(self._freeze(x) for x in v) if isinstance(v, (list, tuple)) else v

    # ---- numbers -------------------------------------------------------------------------------------------------------
    def _n(self, v):
        """a value used as a number"""
        if isinstance(v, bool) or isinstance(v, tuple):
            raise Stuck('number expected')
        if isinstance(v, int):
            return self.num['from_int'](v)
        return v

    def _index(self, v):
        if isinstance(v, bool) or isinstance(v, tuple):
            raise Stuck('integer expected')
        if isinstance(v, int):
            return v
        return self.num['as_index'](v)            # Stuck for a non-integer, Unsupported for a symbolic one

    def _literal(self, q, props, neg_zero=False):
        C = self.context(props)
        if q == 0 and neg_zero:
            x = self.num['neg_zero']()
        elif q.denominator & (q.denominator - 1) == 0:
            x = self.num['from_rational'](q)
        else:
            if props.get('precision') == 'real':
                raise Unsupported('non-dyadic literal under :precision real')
            x = q
        return self.prim['round'](x, ctx=C)

    # ---- expressions -----------------------------------------------------------------------------------------------------
    def ev(self, e, env, props):
        k = type(e).__name__
        m = getattr(self, '_e_' + k, None)
        if m is not None:
            return m(e, env, props)
        name = getattr(e, 'name', None)
        if name in _OPS:
            op, ar = _OPS[name]
            if len(e.children) != ar:
                raise Unsupported('%s with %d operands' % (name, len(e.children)))
            vals = [self._n(self.ev(c, env, props)) for c in e.children]
            return self.prim[op](*vals, ctx=self.context(props))
        raise Unsupported('FPCore form %s' % k)

    def _e_Var(self, e, env, props):
        if e.value not in env:
            raise Stuck('unbound %s' % e.value)
        return env[e.value]

    def _e_Constant(self, e, env, props):
        v = e.value
        if v == 'TRUE':
            return True
        if v == 'FALSE':
            return False
        if v == 'NAN':
            return self.num['nan']()
        if v == 'INFINITY':
            return self.num['inf']()
        raise Unsupported('constant %s' % v)

    def _e_Integer(self, e, env, props):
        s = str(e.value).strip()
        return self._literal(Fraction(int(s)), props, neg_zero=s.startswith('-'))

    def _e_Decnum(self, e, env, props):
        s = str(e.value).strip()
        return self._literal(Fraction(s), props, neg_zero=s.startswith('-'))

    def _e_Rational(self, e, env, props):
        s = str(e.value).strip()
        return self._literal(Fraction(s), props, neg_zero=s.startswith('-'))

    def _e_Hexnum(self, e, env, props):
        s = str(e.value).strip().lower()
        neg = s.startswith('-')
        s = s.lstrip('+-')
        if not s.startswith('0x'):
            raise Unsupported('hex literal %s' % e.value)
        s = s[2:]
        mant, _, ex = s.partition('p')
        ip, _, fp_ = mant.partition('.')
        q = Fraction(int((ip + fp_) or '0', 16), 16 ** len(fp_)) * (Fraction(2) ** int(ex or '0'))
        return self._literal(-q if neg else q, props, neg_zero=neg)

    def _e_Digits(self, e, env, props):
        m, ex, b = int(str(e.m)), int(str(e.e)), int(str(e.b))
        return self._literal(Fraction(m) * Fraction(b) ** ex, props, neg_zero=str(e.m).strip().startswith('-'))

    def _e_Ctx(self, e, env, props):
        return self.ev(e.body, env, self.updated(props, e.props))

    def _e_Neg(self, e, env, props):
        if len(e.children) != 1:
            raise Unsupported('neg arity')
        return self.prim['neg'](self._n(self.ev(e.children[0], env, props)), ctx=self.context(props))

    def _e_Sub(self, e, env, props):
        if len(e.children) == 1:
            return self.prim['neg'](self._n(self.ev(e.children[0], env, props)), ctx=self.context(props))
        a, b = [self._n(self.ev(c, env, props)) for c in e.children]
        return self.prim['sub'](a, b, ctx=self.context(props))

    def _e_If(self, e, env, props):
        c = self.ev(e.cond, env, props)
        if not isinstance(c, bool):
            raise Stuck('boolean condition expected')
        return self.ev(e.then_body if c else e.else_body, env, props)

    def _e_Let(self, e, env, props):
        new = dict(env)
        for name, val in e.let_bindings:
            new[name] = self.ev(val, env, props)
        return self.ev(e.body, new, props)

    def _e_LetStar(self, e, env, props):
        new = dict(env)
        for name, val in e.let_bindings:
            new[name] = self.ev(val, new, props)
        return self.ev(e.body, new, props)

    def _cond(self, e, env, props):
        c = self.ev(e, env, props)
        if not isinstance(c, bool):
            raise Stuck('boolean condition expected')
        return c

    def _e_While(self, e, env, props, star=False):
        new = dict(env)
        for name, init, _ in e.while_bindings:
            new[name] = self.ev(init, new if star else env, props)
        n = 0
        while self._cond(e.cond, new, props):
            n += 1
            if n > LOOP_LIMIT:
                raise Unsupported('loop limit')
            if star:
                for name, _, upd in e.while_bindings:
                    new[name] = self.ev(upd, new, props)
            else:
                vals = [(name, self.ev(upd, new, props)) for name, _, upd in e.while_bindings]
                new = dict(new)
                new.update(vals)
        return self.ev(e.body, new, props)

    def _e_WhileStar(self, e, env, props):
        return self._e_While(e, env, props, star=True)

    def _dims(self, e, env, props):
        names, shape = [], []
        for name, ex in e.dim_bindings:
            n = self._index(self.ev(ex, env, props))
            if n < 0:
                raise Stuck('negative dimension')
            names.append(name); shape.append(n)
        return names, shape

    @staticmethod
    def _positions(shape):
        import itertools
        return itertools.product(*[range(n) for n in shape])

    def _e_For(self, e, env, props, star=False):
        names, shape = self._dims(e, env, props)
        new = dict(env)
        for name, init, _ in e.while_bindings:
            new[name] = self.ev(init, new if star else env, props)
        for pos in self._positions(shape):
            new = dict(new)
            new.update(zip(names, pos))
            if star:
                for name, _, upd in e.while_bindings:
                    new[name] = self.ev(upd, new, props)
            else:
                vals = [(name, self.ev(upd, new, props)) for name, _, upd in e.while_bindings]
                new.update(vals)
        return self.ev(e.body, new, props)

    def _e_ForStar(self, e, env, props):
        return self._e_For(e, env, props, star=True)

    def _build(self, shape, flat):
        if not shape:
            return flat.pop(0)
        return tuple(self._build(shape[1:], flat) for _ in range(shape[0]))

    def _e_Tensor(self, e, env, props):
        names, shape = self._dims(e, env, props)
        flat = []
        for pos in self._positions(shape):
            new = dict(env)
            new.update(zip(names, pos))
            flat.append(self.ev(e.body, new, props))
        return self._build(shape, flat)

    def _e_TensorStar(self, e, env, props):
        names, shape = self._dims(e, env, props)
        new = dict(env)
        for name, init, _ in e.while_bindings:
            new[name] = self.ev(init, new, props)
        flat = []
        for pos in self._positions(shape):
            new = dict(new)
            new.update(zip(names, pos))
            for name, _, upd in e.while_bindings:
                new[name] = self.ev(upd, new, props)
            flat.append(self.ev(e.body, new, props))
        return self._build(shape, flat)

    def _e_Array(self, e, env, props):
        return tuple(self.ev(c, env, props) for c in e.children)

    def _e_Ref(self, e, env, props):
        t = self.ev(e.children[0], env, props)
        for c in e.children[1:]:
            i = self._index(self.ev(c, env, props))
            if not isinstance(t, tuple):
                raise Stuck('ref of a scalar')
            if not 0 <= i < len(t):
                raise Stuck('index %d out of range' % i)
            t = t[i]
        return t

    def _e_Size(self, e, env, props):
        t = self.ev(e.children[0], env, props)
        d = self._index(self.ev(e.children[1], env, props))
        for _ in range(d):
            if not isinstance(t, tuple) or not t:
                raise Stuck('size: no such dimension')
            t = t[0]
        if not isinstance(t, tuple):
            raise Stuck('size: no such dimension')
        return len(t)

    def _e_Dim(self, e, env, props):
        t = self.ev(e.children[0], env, props)
        n = 0
        while isinstance(t, tuple):
            n += 1
            if not t:
                break
            t = t[0]
        return n

    # ---- predicates -----------------------------------------------------------------------------------------------------
    def _chain(self, e, env, props, test):
        vals = [self._n(self.ev(c, env, props)) for c in e.children]
        return all(test(a, b) for a, b in zip(vals, vals[1:]))

    def _unordered(self, a, b):
        return self.num['isnan'](a) or self.num['isnan'](b)

    def _e_LT(self, e, env, props):
        return self._chain(e, env, props, lambda a, b: not self._unordered(a, b) and self.num['lt'](a, b))

    def _e_GT(self, e, env, props):
        return self._chain(e, env, props, lambda a, b: not self._unordered(a, b) and self.num['lt'](b, a))

    def _e_LEQ(self, e, env, props):
        return self._chain(e, env, props, lambda a, b: not self._unordered(a, b) and not self.num['lt'](b, a))

    def _e_GEQ(self, e, env, props):
        return self._chain(e, env, props, lambda a, b: not self._unordered(a, b) and not self.num['lt'](a, b))

    def _e_EQ(self, e, env, props):
        return self._chain(e, env, props, lambda a, b: not self._unordered(a, b) and self.num['eq'](a, b))

    def _e_NEQ(self, e, env, props):
        vals = [self._n(self.ev(c, env, props)) for c in e.children]
        return all(self._unordered(a, b) or not self.num['eq'](a, b) for i, a in enumerate(vals) for b in vals[i + 1:])

    def _e_And(self, e, env, props):
        for c in e.children:
            if not self._cond(c, env, props):
                return False
        return True

    def _e_Or(self, e, env, props):
        for c in e.children:
            if self._cond(c, env, props):
                return True
        return False

    def _e_Not(self, e, env, props):
        return not self._cond(e.children[0], env, props)

    def _e_Isnan(self, e, env, props):
        return bool(self.num['isnan'](self._n(self.ev(e.children[0], env, props))))

    def _e_Isinf(self, e, env, props):
        return bool(self.num['isinf'](self._n(self.ev(e.children[0], env, props))))

    def _e_Isfinite(self, e, env, props):
        v = self._n(self.ev(e.children[0], env, props))
        return not self.num['isnan'](v) and not self.num['isinf'](v)

    def _e_Signbit(self, e, env, props):
        return bool(self.num['signbit'](self._n(self.ev(e.children[0], env, props))))

    def _e_UnknownOperator(self, e, env, props):
        if e.name not in self.cores:
            raise Unsupported('call of unknown core %s' % e.name)
        args = [self.ev(c, env, props) for c in e.children]
        return self._apply(self.cores[e.name], args, props)
