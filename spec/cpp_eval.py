"""
Evaluator for the C++ the fpy2 backend emits, over clang's own AST of that text (`clang++ -Xclang -ast-dump=json`): the program is
what clang parsed — implicit conversions, overload resolution and types are clang's, not re-derived here.  Written from the C++
standard's rules for the constructs the emitter uses and from IEEE 754 for the arithmetic:

  a floating operation of type T (double / float) returns the exact result rounded once to T in the CURRENT dynamic rounding mode
  (what <cfenv> hardware does: fesetround changes it, fegetround reads it); conversions double -> float round the same way,
  float -> double and integer -> floating are exact when representable (else rounded), floating -> integer truncates;
  comparisons are exact, NaN unordered; std::fma rounds once; std::vector has value semantics (copy construction / assignment copy
  the elements, a reference parameter aliases the caller's object); range-for copies each element unless declared by reference.

That "the toolchain rounds these operations correctly" is the property's own premise, not something checked here.
The primitive rounded operations are handed in (`prim`, the same validated summaries the interpreter side uses) as are number
predicates (`num`).  Anything outside the subset raises Unsupported (the program is then outside the claim).
"""
from fractions import Fraction


class Unsupported(Exception):
    pass


class Stuck(Exception):
    """undefined behaviour / failed assert / out-of-range index"""


class _Return(Exception):
    def __init__(self, v):
        self.v = v


class _Break(Exception):
    pass


class _Continue(Exception):
    pass


FE = {0: 'RNE', 0x400: 'RTN', 0x800: 'RTP', 0xC00: 'RTZ'}          # x86-64 <fenv.h> values, as clang expanded the macros
FE_OF = {v: k for k, v in FE.items()}
FLOAT_TYPES = {'double': (11, 64), 'float': (8, 32)}
INT_TYPES = ('int', 'long', 'unsigned long', 'int64_t', 'size_t', 'std::size_t', 'unsigned int', 'long long', 'unsigned long long', 'uint64_t', 'int32_t', 'short', 'ptrdiff_t', 'std::ptrdiff_t', 'difference_type', 'size_type')
LOOP_LIMIT = 200


def base_type(q):
    if isinstance(q, dict):
        q = q.get('desugaredQualType') or q.get('qualType')
    q = q.replace('const ', '').replace('&&', '').replace('&', '').strip()
    if q in ('long', 'unsigned long', 'int', 'unsigned int', 'long long', 'unsigned long long', 'short'):
        return q
    return q


def array_len(ty):
    """N of std::array<T, N>, else None"""
    if ty.startswith('std::array<') or ty.startswith('array<'):
        try:
            return int(ty[ty.rindex(',') + 1:ty.rindex('>')].strip().rstrip('UL'))
        except ValueError:
            return None
    return None


def elt_type(ty):
    inner = ty[ty.index('<') + 1:ty.rindex('>')]
    if array_len(ty) is not None:
        inner = inner[:inner.rindex(',')]
    return base_type(inner.strip())


class Ref:
    """an lvalue: something that can be read and written"""
    def __init__(self, get, set_):
        self.get = get; self.set = set_


class Iter:
    def __init__(self, lst, i):
        self.lst = lst; self.i = i


class Ptr:
    """a std::shared_ptr handle: copying it shares the pointee"""
    def __init__(self, obj):
        self.obj = obj


class CppEval:
    def __init__(self, funcs, prim, num, make_ieee, initial_mode='RNE'):
        """funcs: {name: FunctionDecl json}; make_ieee(es, nbits, rm name) -> context for `prim`"""
        self.funcs = funcs
        self.prim = prim
        self.num = num
        self.make_ieee = make_ieee
        self.mode = initial_mode
        self._ctx = {}

    # ---- rounding --------------------------------------------------------------------------------------------------------------
    def ctx(self, ty):
        k = (ty, self.mode)
        if k not in self._ctx:
            es, nb = FLOAT_TYPES[ty]
            self._ctx[k] = self.make_ieee(es, nb, self.mode)
        return self._ctx[k]

    def to_float_type(self, v, ty):
        """value converted to floating type ty (rounded in the current mode when not representable)"""
        if isinstance(v, bool):
            v = int(v)
        if isinstance(v, int):
            v = self.num['from_int'](v)
        return self.prim['round'](v, ctx=self.ctx(ty))

    # ---- functions ---------------------------------------------------------------------------------------------------------------
    def call(self, name, args):
        fd = self.funcs[name]
        params = [n for n in fd.get('inner', []) if n.get('kind') == 'ParmVarDecl']
        body = next((n for n in fd.get('inner', []) if n.get('kind') == 'CompoundStmt'), None)
        if body is None:
            raise Unsupported('function %s has no body' % name)
        if len(params) != len(args):
            raise Stuck('arity of %s' % name)
        env = {}
        for p, a in zip(params, args):
            q = p['type']['qualType']
            if '&' in q and isinstance(a, Ref):
                env[p['name']] = a
            else:
                v = a.get() if isinstance(a, Ref) else a
                env[p['name']] = self._box(self._copy(v))
        try:
            self.stmt(body, env)
        except _Return as r:
            return r.v
        rt = fd['type']['qualType'].split('(')[0].strip()
        if rt == 'void':
            return None
        raise Stuck('control reaches the end of a non-void function')

    def _box(self, v):
        cell = [v]
        return Ref(lambda: cell[0], lambda x: cell.__setitem__(0, x))

    def _copy(self, v):
        if isinstance(v, list):
            return [self._copy(x) for x in v]
        return v

    # ---- statements ---------------------------------------------------------------------------------------------------------------
    def stmt(self, n, env):
        k = n.get('kind')
        if k == 'CompoundStmt':
            inner = dict(env)                      # block scope
            for s in n.get('inner', []):
                self.stmt(s, inner)
            for name in env:                        # assignments to outer names are through shared Refs; nothing to copy back
                pass
            return
        if k == 'DeclStmt':
            for d in n.get('inner', []):
                self.decl(d, env)
            return
        if k == 'ReturnStmt':
            inner = n.get('inner', [])
            v = self.rv(inner[0], env) if inner else None
            raise _Return(self._copy(v))
        if k == 'IfStmt':
            inner = n['inner']
            c = self.truth(self.rv(inner[0], env))
            if c:
                self.stmt(inner[1], dict(env))
            elif len(inner) > 2:
                self.stmt(inner[2], dict(env))
            return
        if k == 'WhileStmt':
            cond, body = n['inner'][-2], n['inner'][-1]
            it = 0
            while self.truth(self.rv(cond, env)):
                it += 1
                if it > LOOP_LIMIT:
                    raise Unsupported('loop limit')
                try:
                    self.stmt(body, dict(env))
                except _Break:
                    break
                except _Continue:
                    pass
            return
        if k == 'ForStmt':
            init, _cv, cond, inc, body = n['inner']
            scope = dict(env)
            if init.get('kind'):
                self.stmt(init, scope)
            it = 0
            while (not cond.get('kind')) or self.truth(self.rv(cond, scope)):
                it += 1
                if it > LOOP_LIMIT:
                    raise Unsupported('loop limit')
                try:
                    self.stmt(body, dict(scope))
                except _Break:
                    break
                except _Continue:
                    pass
                if inc.get('kind'):
                    self.rv(inc, scope)
            return
        if k == 'CXXForRangeStmt':
            inner = n['inner']
            rng = next(d for d in inner if d.get('kind') == 'DeclStmt' and d['inner'][0].get('name', '').startswith('__range'))
            loopvar = [d for d in inner if d.get('kind') == 'DeclStmt' and not d['inner'][0].get('name', '').startswith('__')][-1]['inner'][0]
            body = inner[-1]
            seq = self.rv(rng['inner'][0]['inner'][0], env)
            if isinstance(seq, Ptr):
                seq = seq.obj
            if not isinstance(seq, list):
                raise Unsupported('range-for over %r' % type(seq).__name__)
            byref = '&' in loopvar['type']['qualType'] and 'const' not in loopvar['type']['qualType']
            for i in range(len(seq)):
                scope = dict(env)
                if byref:
                    scope[loopvar['name']] = Ref(lambda i=i: seq[i], lambda x, i=i: seq.__setitem__(i, x))
                else:
                    scope[loopvar['name']] = self._box(self._copy(seq[i]))
                try:
                    self.stmt(body, scope)
                except _Break:
                    break
                except _Continue:
                    pass
            return
        if k == 'NullStmt':
            return
        if k == 'BreakStmt':
            raise _Break()
        if k == 'ContinueStmt':
            raise _Continue()
        # an expression statement
        self.rv(n, env)

    def decl(self, d, env):
        if d.get('kind') != 'VarDecl':
            raise Unsupported('declaration %s' % d.get('kind'))
        q = d['type']['qualType']
        inits = [x for x in d.get('inner', []) if x.get('kind')]
        if '&' in q:
            if not inits:
                raise Stuck('reference without initialiser')
            try:
                env[d['name']] = self.lv(inits[0], env)
            except Unsupported:
                env[d['name']] = self._box(self.rv(inits[0], env))      # a reference bound to a temporary
            return
        if inits:
            v = self._copy(self.rv(inits[0], env))
            v = self.convert(v, base_type(q)) if base_type(q) in FLOAT_TYPES or base_type(q) in INT_TYPES or base_type(q) == 'bool' else v
        else:
            v = self.zero_of(base_type(q))
        env[d['name']] = self._box(v)

    def zero_of(self, ty):
        if ty in FLOAT_TYPES:
            return self.num['from_int'](0)
        if ty in INT_TYPES:
            return 0
        if ty == 'bool':
            return False
        if ty.startswith('std::vector'):
            return []
        if array_len(ty) is not None:
            return [self.zero_of(elt_type(ty)) for _ in range(array_len(ty))]
        raise Unsupported('default value of %s' % ty)

    def convert(self, v, ty):
        if ty in FLOAT_TYPES:
            return self.to_float_type(v, ty) if isinstance(v, (int, bool)) else v
        if ty == 'bool':
            return self.truth(v)
        if ty in INT_TYPES and isinstance(v, bool):
            return int(v)
        return v

    # ---- expressions -----------------------------------------------------------------------------------------------------------------
    def truth(self, v):
        if isinstance(v, bool):
            return v
        if isinstance(v, int):
            return v != 0
        if isinstance(v, Ref):
            return self.truth(v.get())
        return not self.num['eq'](v, self.num['from_int'](0)) if not self.num['isnan'](v) else True

    def lv(self, n, env):
        k = n.get('kind')
        if k == 'DeclRefExpr':
            name = n['referencedDecl']['name']
            if name not in env:
                raise Stuck('unbound %s' % name)
            return env[name]
        if k in ('ParenExpr', 'ExprWithCleanups', 'MaterializeTemporaryExpr', 'CXXBindTemporaryExpr', 'ConstantExpr'):
            return self.lv(n['inner'][0], env)
        if k == 'ImplicitCastExpr' and n.get('castKind') in ('NoOp', 'DerivedToBase', 'UncheckedDerivedToBase'):
            return self.lv(n['inner'][0], env)
        if k == 'CXXOperatorCallExpr':
            op = self._callee_name(n['inner'][0])
            if op == 'operator[]':
                seq = self.lv_or_rv(n['inner'][1], env)
                i = self.as_int(self.rv(n['inner'][2], env))
                lst = seq.get() if isinstance(seq, Ref) else seq
                if not isinstance(lst, list):
                    raise Unsupported('operator[] on %s' % type(lst).__name__)
                if not 0 <= i < len(lst):
                    raise Stuck('index %d out of range (undefined behaviour)' % i)
                return Ref(lambda: lst[i], lambda x: lst.__setitem__(i, x))
            if op == 'operator*':
                it = self.rv(n['inner'][1], env)
                return self._deref(it)
            if op == 'operator->':
                return self._deref(self.rv(n['inner'][1], env))
        if k == 'UnaryOperator' and n.get('opcode') == '*':
            return self._deref(self.rv(n['inner'][0], env))
        if k == 'ArraySubscriptExpr':
            seq = self.rv(n['inner'][0], env); i = self.as_int(self.rv(n['inner'][1], env))
            if not 0 <= i < len(seq):
                raise Stuck('index out of range')
            return Ref(lambda: seq[i], lambda x: seq.__setitem__(i, x))
        if k == 'CXXMemberCallExpr':
            m = n['inner'][0]
            if m.get('kind') == 'MemberExpr' and m.get('name') in ('at', 'front', 'back'):
                lst = self.rv(m['inner'][0], env)
                i = {'front': 0, 'back': len(lst) - 1}.get(m['name'])
                if i is None:
                    i = self.as_int(self.rv(n['inner'][1], env))
                if not 0 <= i < len(lst):
                    raise Stuck('index out of range')
                return Ref(lambda: lst[i], lambda x: lst.__setitem__(i, x))
        raise Unsupported('lvalue %s' % k)

    def _deref(self, it):
        if isinstance(it, Ref):
            it = it.get()
        if isinstance(it, Ptr):
            p = it
            return Ref(lambda: p.obj, lambda x: setattr(p, 'obj', x))
        if not isinstance(it, Iter):
            raise Unsupported('dereference of %s' % type(it).__name__)
        if not 0 <= it.i < len(it.lst):
            raise Stuck('iterator out of range')
        return Ref(lambda: it.lst[it.i], lambda x: it.lst.__setitem__(it.i, x))

    def lv_or_rv(self, n, env):
        try:
            return self.lv(n, env)
        except Unsupported:
            return self.rv(n, env)

    def as_int(self, v):
        if isinstance(v, bool):
            return int(v)
        if isinstance(v, int):
            return v
        return self.num['as_index'](v)

    def _callee_name(self, n):
        while n.get('kind') in ('ImplicitCastExpr', 'ParenExpr'):
            n = n['inner'][0]
        if n.get('kind') == 'DeclRefExpr':
            return n['referencedDecl']['name']
        if n.get('kind') == 'MemberExpr':
            return n.get('name')
        if n.get('kind') == 'UnresolvedLookupExpr':
            return n.get('name')
        raise Unsupported('callee %s' % n.get('kind'))

    def rv(self, n, env):
        k = n.get('kind')
        m = getattr(self, '_x_' + k, None)
        if m is None:
            raise Unsupported('C++ expression %s' % k)
        return m(n, env)

    def _x_ParenExpr(self, n, env):
        return self.rv(n['inner'][0], env)
    _x_ExprWithCleanups = _x_MaterializeTemporaryExpr = _x_CXXBindTemporaryExpr = _x_ConstantExpr = _x_ParenExpr

    def _x_DeclRefExpr(self, n, env):
        rd = n['referencedDecl']
        if rd.get('kind') == 'EnumConstantDecl':
            raise Unsupported('enum constant')
        return self.lv(n, env).get()

    def _x_IntegerLiteral(self, n, env):
        return int(n['value'])

    def _x_CXXBoolLiteralExpr(self, n, env):
        return bool(n['value'])

    def _x_FloatingLiteral(self, n, env):
        ty = base_type(n['type'])
        q = Fraction(str(n['value']))
        x = self.num['from_rational'](q) if q.denominator & (q.denominator - 1) == 0 else q
        es, nb = FLOAT_TYPES[ty]
        return self.prim['round'](x, ctx=self.make_ieee(es, nb, 'RNE'))        # clang prints a literal's value with enough digits to round-trip

    def _x_ImplicitCastExpr(self, n, env):
        ck = n.get('castKind')
        sub = n['inner'][0]
        ty = base_type(n['type'])
        if ck in ('LValueToRValue', 'NoOp', 'FunctionToPointerDecay', 'ConstructorConversion', 'UserDefinedConversion', 'ArrayToPointerDecay', 'DerivedToBase', 'UncheckedDerivedToBase'):
            return self.rv(sub, env)
        v = self.rv(sub, env)
        if ck == 'FloatingCast':
            if ty not in FLOAT_TYPES:
                raise Unsupported('floating cast to %s' % ty)
            if base_type(sub['type']) == 'float' and ty == 'double':
                return v                       # every float is a double: the conversion is exact
            return self.prim['round'](v, ctx=self.ctx(ty))
        if ck == 'IntegralToFloating':
            return self.to_float_type(v, ty)
        if ck == 'IntegralCast':
            v = int(v)
            if ty.startswith('unsigned') or ty in ('size_t', 'std::size_t', 'uint64_t', 'size_type'):
                if v < 0:
                    raise Stuck('negative value converted to an unsigned type')
            return v
        if ck == 'FloatingToIntegral':
            if self.num['isnan'](v) or self.num['isinf'](v):
                raise Stuck('floating to integer conversion of a non-finite value')
            q = self.num['rational'](v)                 # Unsupported for a symbolic value
            t = int(q)                                    # truncation toward zero
            return t
        if ck in ('IntegralToBoolean', 'FloatingToBoolean'):
            return self.truth(v)
        if ck == 'ToVoid':
            return None
        raise Unsupported('cast kind %s' % ck)

    def _x_CXXStaticCastExpr(self, n, env):
        return self.rv(n['inner'][0], env)
    _x_CXXFunctionalCastExpr = _x_CStyleCastExpr = _x_CXXStaticCastExpr

    def _x_UnaryOperator(self, n, env):
        op = n['opcode']
        sub = n['inner'][0]
        if op in ('++', '--'):
            r = self.lv(sub, env)
            old = r.get()
            if not isinstance(old, int) or isinstance(old, bool):
                raise Unsupported('++ on a non-integer')
            r.set(old + (1 if op == '++' else -1))
            return old if n.get('isPostfix') else r.get()
        if op == '*':
            return self._deref(self.rv(sub, env)).get()
        v = self.rv(sub, env)
        if op == '!':
            return not self.truth(v)
        if op == '+':
            return v
        if op == '-':
            if isinstance(v, int) and not isinstance(v, bool):
                return -v
            ty = base_type(n['type'])
            return self.prim['neg'](v, ctx=self.ctx(ty))            # negation is exact: the rounding is the identity
        raise Unsupported('unary %s' % op)

    def _arith(self, op, a, b, ty):
        if ty in FLOAT_TYPES:
            name = {'+': 'add', '-': 'sub', '*': 'mul'}.get(op)
            if name is None:
                raise Unsupported('floating operator %s' % op)
            return self.prim[name](a, b, ctx=self.ctx(ty))
        if isinstance(a, int) and isinstance(b, int):
            if op == '+':
                r = a + b
            elif op == '-':
                r = a - b
            elif op == '*':
                r = a * b
            elif op == '/':
                if b == 0:
                    raise Stuck('integer division by zero')
                r = abs(a) // abs(b) * (1 if (a < 0) == (b < 0) else -1)
            elif op == '%':
                if b == 0:
                    raise Stuck('integer remainder by zero')
                r = a - b * (abs(a) // abs(b) * (1 if (a < 0) == (b < 0) else -1))
            else:
                raise Unsupported('integer operator %s' % op)
            if not -(1 << 63) <= r < (1 << 64):
                raise Stuck('integer overflow')
            return r
        raise Unsupported('operator %s on %s' % (op, ty))

    def _compare(self, op, a, b):
        if isinstance(a, Iter) and isinstance(b, Iter):
            return {'==': a.i == b.i, '!=': a.i != b.i, '<': a.i < b.i}[op]
        if isinstance(a, (int, bool)) and isinstance(b, (int, bool)):
            return {'<': a < b, '>': a > b, '<=': a <= b, '>=': a >= b, '==': a == b, '!=': a != b}[op]
        n = self.num
        if isinstance(a, (int, bool)):
            a = n['from_int'](int(a))
        if isinstance(b, (int, bool)):
            b = n['from_int'](int(b))
        if n['isnan'](a) or n['isnan'](b):
            return op == '!='
        if op == '<':
            return n['lt'](a, b)
        if op == '>':
            return n['lt'](b, a)
        if op == '<=':
            return not n['lt'](b, a)
        if op == '>=':
            return not n['lt'](a, b)
        if op == '==':
            return n['eq'](a, b)
        if op == '!=':
            return not n['eq'](a, b)
        raise Unsupported('comparison %s' % op)

    def _x_BinaryOperator(self, n, env):
        op = n['opcode']
        l, r = n['inner']
        if op == '=':
            ref = self.lv(l, env)
            v = self._copy(self.rv(r, env))
            ref.set(v)
            return v
        if op == '&&':
            return self.truth(self.rv(l, env)) and self.truth(self.rv(r, env))
        if op == '||':
            return self.truth(self.rv(l, env)) or self.truth(self.rv(r, env))
        if op == ',':
            self.rv(l, env)
            return self.rv(r, env)
        a, b = self.rv(l, env), self.rv(r, env)
        if op in ('<', '>', '<=', '>=', '==', '!='):
            return self._compare(op, a, b)
        if isinstance(a, Iter) and isinstance(b, int) and op in ('+', '-'):
            return Iter(a.lst, a.i + (b if op == '+' else -b))
        return self._arith(op, a, b, base_type(n['type']))

    def _x_CompoundAssignOperator(self, n, env):
        op = n['opcode'][:-1]
        l, r = n['inner']
        ref = self.lv(l, env)
        cty = base_type(n.get('computeResultType', n['type']))
        a, b = ref.get(), self.rv(r, env)
        if cty in FLOAT_TYPES:
            a = self.convert(a, cty); b = self.convert(b, cty)
        v = self._arith(op, a, b, cty)
        lty = base_type(n['type'])
        if lty in FLOAT_TYPES and cty != lty:
            v = self.prim['round'](v, ctx=self.ctx(lty))
        ref.set(v)
        return v

    def _x_ConditionalOperator(self, n, env):
        c, a, b = n['inner']
        return self.rv(a if self.truth(self.rv(c, env)) else b, env)

    def _x_InitListExpr(self, n, env):
        ty = base_type(n['type'])
        if array_len(ty) is not None:
            # std::array<T, N>{...}: an aggregate around T[N]; missing elements are value-initialised
            items = []
            for x in n.get('inner', []):
                if x.get('kind') == 'InitListExpr':
                    items += [self._copy(self.rv(y, env)) for y in x.get('inner', []) if y.get('kind') and y.get('kind') != 'ImplicitValueInitExpr']
                elif x.get('kind') and x.get('kind') != 'ImplicitValueInitExpr':
                    items.append(self._copy(self.rv(x, env)))
            z = self.zero_of(ty)
            return items + z[len(items):]
        items = [self._copy(self.rv(x, env)) for x in n.get('inner', [])]
        if ty in FLOAT_TYPES or ty in INT_TYPES or ty == 'bool':
            return items[0] if items else self.zero_of(ty)
        return items

    def _x_CXXStdInitializerListExpr(self, n, env):
        return self.rv(n['inner'][0], env)

    def _x_ImplicitValueInitExpr(self, n, env):
        return self.zero_of(base_type(n['type']))
    _x_CXXScalarValueInitExpr = _x_ImplicitValueInitExpr

    def _x_CXXConstructExpr(self, n, env):
        ty = base_type(n['type'])
        args = [x for x in n.get('inner', []) if x.get('kind') and x.get('kind') != 'CXXDefaultArgExpr']
        if array_len(ty) is not None:
            if not args:
                return self.zero_of(ty)
            v = self.rv(args[0], env)
            if isinstance(v, list):
                return self._copy(v)
            raise Unsupported('constructor of %s' % ty)
        if ty.startswith('std::vector') or ty.startswith('vector'):
            if not args:
                return []
            if len(args) == 1:
                v = self.rv(args[0], env)
                if isinstance(v, list):
                    return self._copy(v)
                n_ = self.as_int(v)
                if n_ < 0:
                    raise Stuck('negative vector size')
                elt = ty[ty.index('<') + 1:ty.rindex('>')].strip()
                return [self.zero_of(base_type(elt)) for _ in range(n_)]
            if len(args) == 2:
                a, b = self.rv(args[0], env), self.rv(args[1], env)
                if isinstance(a, Iter) and isinstance(b, Iter):
                    return self._copy(a.lst[a.i:b.i])
                return [self._copy(b) for _ in range(self.as_int(a))]
        if len(args) == 1:
            return self._copy(self.rv(args[0], env))
        if ty.startswith('std::shared_ptr') and not args:
            return Ptr(None)
        raise Unsupported('constructor of %s' % ty)
    _x_CXXTemporaryObjectExpr = _x_CXXConstructExpr

    def _x_CXXOperatorCallExpr(self, n, env):
        op = self._callee_name(n['inner'][0])
        if op in ('operator[]', 'operator*', 'operator->'):
            return self.lv(n, env).get()
        if op == 'operator=':
            ref = self.lv(n['inner'][1], env)
            v = self._copy(self.rv(n['inner'][2], env))
            ref.set(v)
            return v
        if op in ('operator+', 'operator-'):
            a, b = self.rv(n['inner'][1], env), self.rv(n['inner'][2], env)
            if isinstance(a, Iter) and isinstance(b, int):
                return Iter(a.lst, a.i + (b if op == 'operator+' else -b))
            if isinstance(a, Iter) and isinstance(b, Iter) and op == 'operator-':
                return a.i - b.i
        if op in ('operator==', 'operator!=', 'operator<'):
            a, b = self.rv(n['inner'][1], env), self.rv(n['inner'][2], env)
            return self._compare(op[len('operator'):], a, b)
        if op == 'operator++':
            ref = self.lv(n['inner'][1], env)
            it = ref.get()
            ref.set(Iter(it.lst, it.i + 1))
            return ref.get()
        raise Unsupported('overloaded %s' % op)

    def _x_CXXMemberCallExpr(self, n, env):
        m = n['inner'][0]
        name = m.get('name')
        obj = self.lv_or_rv(m['inner'][0], env)
        lst = obj.get() if isinstance(obj, Ref) else obj
        if isinstance(lst, Ptr):
            lst = lst.obj
        args = n['inner'][1:]
        if not isinstance(lst, list):
            raise Unsupported('member call %s on %s' % (name, type(lst).__name__))
        if name == 'size':
            return len(lst)
        if name == 'empty':
            return len(lst) == 0
        if name == 'push_back' or name == 'emplace_back':
            lst.append(self._copy(self.rv(args[0], env)))
            return None
        if name == 'begin' or name == 'cbegin':
            return Iter(lst, 0)
        if name == 'end' or name == 'cend':
            return Iter(lst, len(lst))
        if name in ('at', 'front', 'back'):
            return self.lv(n, env).get()
        if name == 'reserve':
            return None
        if name == 'resize':
            k = self.as_int(self.rv(args[0], env))
            while len(lst) > k:
                lst.pop()
            while len(lst) < k:
                lst.append(self.num['from_int'](0))
            return None
        raise Unsupported('member function %s' % name)

    def _x_CallExpr(self, n, env):
        name = self._callee_name(n['inner'][0])
        args = n['inner'][1:]
        num = self.num
        if name == 'fegetround':
            return FE_OF[self.mode]
        if name == 'fesetround':
            v = self.as_int(self.rv(args[0], env))
            if v not in FE:
                raise Stuck('fesetround(%r)' % v)
            self.mode = FE[v]
            return 0
        if name == 'fma' or name == 'fmaf':
            ty = base_type(n['type'])
            a, b, c = [self.convert(self.rv(x, env), ty) for x in args]
            return self.prim['fma'](a, b, c, ctx=self.ctx(ty))
        if name in ('fabs', 'abs', 'fabsf'):
            ty = base_type(n['type'])
            v = self.rv(args[0], env)
            if isinstance(v, int):
                return abs(v)
            return self.prim['abs'](v, ctx=self.ctx(ty))
        if name == 'isnan':
            return bool(num['isnan'](self.rv(args[0], env)))
        if name == 'isinf':
            return bool(num['isinf'](self.rv(args[0], env)))
        if name == 'isfinite':
            v = self.rv(args[0], env)
            return not num['isnan'](v) and not num['isinf'](v)
        if name == 'signbit':
            return bool(num['signbit'](self.rv(args[0], env)))
        if name == 'quiet_NaN':
            return num['nan']()
        if name == 'infinity':
            return num['inf']()
        if name == 'accumulate':
            a, b, init = self.rv(args[0], env), self.rv(args[1], env), self.rv(args[2], env)
            ty = base_type(args[2]['type'])
            acc = init
            for i in range(a.i, b.i):
                acc = self._arith('+', acc, self.convert(a.lst[i], ty), ty)
            return acc
        if name == 'make_shared':
            ty = base_type(n['type'])
            inner_ty = ty[ty.index('<') + 1:ty.rindex('>')].strip()
            vals = [self.rv(x, env) for x in args]
            if inner_ty.startswith('std::vector') or inner_ty.startswith('vector'):
                if not vals:
                    return Ptr([])
                if isinstance(vals[0], list):
                    return Ptr(self._copy(vals[0]))
                if isinstance(vals[0], Ptr):
                    return Ptr(self._copy(vals[0].obj))
                k = self.as_int(vals[0])
                fill = self._copy(vals[1]) if len(vals) > 1 else self.zero_of(elt_type(inner_ty))
                return Ptr([self._copy(fill) for _ in range(k)])
            if array_len(inner_ty) is not None:
                return Ptr(self._copy(vals[0]) if vals else self.zero_of(inner_ty))
            raise Unsupported('make_shared of %s' % inner_ty)
        if name in ('make_tuple', 'make_pair'):
            return tuple(self._copy(self.rv(x, env)) for x in args)
        if name == 'assert' or name == '__assert_fail':
            raise Stuck('assertion failed')
        if name in self.funcs:
            vals = []
            fd = self.funcs[name]
            params = [p for p in fd.get('inner', []) if p.get('kind') == 'ParmVarDecl']
            for p, x in zip(params, args):
                if '&' in p['type']['qualType']:
                    vals.append(self.lv_or_rv(x, env))
                else:
                    vals.append(self.rv(x, env))
            saved = None
            return self.call(name, vals)
        raise Unsupported('call of %s' % name)
