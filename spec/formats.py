"""
Independent description of the value set of each context family, computed from the *constructor
parameters* by the published definitions (class docstrings, IEEE 754, the Small-Floats layout), not from
the repository's derived fields.

A context descriptor is a JSON-able dict: {'fam': ..., <constructor parameters>, 'rm': 'RNE', 'ov': 'OVERFLOW',
 'enable_nan':..., 'enable_inf':..., 'enable_neg_zero':..., 'nan_value': spec|None, 'inf_value': spec|None}
Values (maxval, substitutes) are given as [s, exp, c] triples or the strings 'nan', '+inf', '-inf'.
"""
from fractions import Fraction


class FormatSpec:
    """p: max digits or None; n: lowest excluded position or None; pos_max/neg_max: Fractions or None
    (largest magnitudes of positive / negative members; neg_max = 0 means no negative members);
    has_nan/has_inf/has_neg_zero; family-specific notes."""

    def __init__(self, p, n, pos_max=None, neg_max=None, has_nan=True, has_inf=True, has_neg_zero=True,
                 overflow_modes=(), exp_only=False):
        self.p, self.n = p, n
        self.pos_max, self.neg_max = pos_max, neg_max
        self.has_nan, self.has_inf, self.has_neg_zero = has_nan, has_inf, has_neg_zero
        self.overflow_modes = overflow_modes
        self.exp_only = exp_only

    @property
    def bounded(self):
        return self.pos_max is not None

    def contains(self, v: Fraction) -> bool:
        """concrete membership of a finite rational (sign of zero not considered)"""
        if v == 0:
            return True
        a = abs(v)
        if self.bounded:
            if v > 0 and a > self.pos_max:
                return False
            if v < 0 and a > self.neg_max:
                return False
        # digits
        num, den = a.numerator, a.denominator
        if den & (den - 1):
            return False
        # a = num / 2**k
        k = den.bit_length() - 1
        tz = (num & -num).bit_length() - 1
        lsb = tz - k                     # position of the lowest set digit
        msb = num.bit_length() - 1 - k
        if self.n is not None and lsb <= self.n:
            return False
        if self.p is not None and msb - lsb + 1 > self.p:
            return False
        return True


def trip(v):
    """[s, exp, c] -> Fraction"""
    s, exp, c = v
    f = Fraction(c) * (Fraction(2) ** exp)
    return -f if s else f


# ---- the Small-Floats ("extended float") layout, decoded independently ---------------------------------
def efloat_decode(es, nbits, enable_inf, nan_kind, eoffset, bits):
    """value of a bit pattern by the published layout: sign | es exponent bits | m mantissa bits.
    returns ('nan',s) | ('inf', s) | ('fin', s, Fraction)"""
    m = nbits - es - 1
    s = (bits >> (nbits - 1)) & 1
    e = (bits >> m) & ((1 << es) - 1) if es > 0 else 0
    f = bits & ((1 << m) - 1) if m > 0 else 0
    mag = bits & ((1 << (nbits - 1)) - 1)
    allones = (1 << (nbits - 1)) - 1
    bias = (1 << (es - 1)) - 1 if es > 0 else 0
    if nan_kind == 'IEEE_754':
        if es > 0 and e == (1 << es) - 1:
            if enable_inf and f == 0:
                return ('inf', s)
            return ('nan', s)
    elif nan_kind == 'MAX_VAL':
        if mag == allones:
            return ('nan', s)
        if enable_inf and mag == allones - 1:
            return ('inf', s)
    else:
        if enable_inf and mag == allones:
            return ('inf', s)
        if nan_kind == 'NEG_ZERO' and s == 1 and mag == 0:
            return ('nan', s)
    # finite
    if es == 0:
        # no exponent field: everything is "subnormal" with the exponent of the minimum normal binade
        emin = 1 - bias + eoffset   # bias = 0 -> emin = 1 + eoffset
        val = Fraction(f) * Fraction(2) ** (emin - m) if m > 0 else Fraction(0)
    elif e == 0:
        emin = 1 - bias + eoffset
        val = Fraction(f) * Fraction(2) ** (emin - m)
    else:
        val = (Fraction(1) + Fraction(f, 1 << m if m > 0 else 1)) * Fraction(2) ** (e - bias + eoffset) if m > 0 \
            else Fraction(2) ** (e - bias + eoffset)
    return ('fin', s, val)


def efloat_value_set(es, nbits, enable_inf, nan_kind, eoffset):
    fin = set(); has_nan = False; has_inf = False; has_negzero = False
    for b in range(1 << nbits):
        d = efloat_decode(es, nbits, enable_inf, nan_kind, eoffset, b)
        if d[0] == 'nan':
            has_nan = True
        elif d[0] == 'inf':
            has_inf = True
        else:
            if d[2] == 0 and d[1] == 1:
                has_negzero = True
            fin.add(-d[2] if d[1] else d[2])
    return fin, has_nan, has_inf, has_negzero


_SPEC_CACHE = {}


def spec_of(desc) -> FormatSpec:
    import json
    key = json.dumps({k: v for k, v in desc.items() if k not in ('rm', 'ov', 'nan_value', 'inf_value')}, sort_keys=True)
    if key not in _SPEC_CACHE:
        _SPEC_CACHE[key] = _spec_of(desc)
    return _SPEC_CACHE[key]


def _spec_of(desc) -> FormatSpec:
    fam = desc['fam']
    if fam == 'MPFloat':
        return FormatSpec(desc['pmax'], None, has_nan=desc.get('enable_nan', True), has_inf=desc.get('enable_inf', True))
    if fam == 'MPSFloat':
        # minimum normalized exponent emin with gradual underflow: digits down to emin - pmax + 1
        return FormatSpec(desc['pmax'], desc['emin'] - desc['pmax'], has_nan=desc.get('enable_nan', True),
                          has_inf=desc.get('enable_inf', True))
    if fam == 'MPBFloat':
        pm = trip(desc['maxval'])
        nm = abs(trip(desc['neg_maxval'])) if desc.get('neg_maxval') is not None else pm
        return FormatSpec(desc['pmax'], desc['emin'] - desc['pmax'], pm, nm, desc.get('enable_nan', True),
                          desc.get('enable_inf', True), overflow_modes=('OVERFLOW', 'SATURATE', 'ASSERT'))
    if fam in ('IEEE', 'EFloat'):
        if fam == 'IEEE':
            es, nbits, inf, nk, eo = desc['es'], desc['nbits'], True, 'IEEE_754', 0
        else:
            es, nbits, inf, nk, eo = desc['es'], desc['nbits'], desc['enable_inf'], desc['nan_kind'], desc['eoffset']
        fin, has_nan, has_inf, has_nz = efloat_value_set(es, nbits, inf, nk, eo)
        p = nbits - es
        bias = (1 << (es - 1)) - 1 if es > 0 else 0
        emin = 1 - bias + eo
        mx = max(fin)
        sp = FormatSpec(p, emin - p, mx, mx, has_nan, has_inf, has_nz, overflow_modes=('OVERFLOW', 'SATURATE', 'ASSERT'))
        # the decoded set must be exactly {p-digit values above position n, magnitude <= max}: checked by the
        # harness (spec self-check), not assumed
        sp.value_set = fin
        return sp
    if fam == 'MPFixed':
        return FormatSpec(None, desc['nmin'], has_nan=desc.get('enable_nan', False), has_inf=desc.get('enable_inf', False),
                          has_neg_zero=desc.get('enable_neg_zero', True))
    if fam == 'MPBFixed':
        pm = trip(desc['maxval'])
        nm = abs(trip(desc['neg_maxval'])) if desc.get('neg_maxval') is not None else pm
        return FormatSpec(None, desc['nmin'], pm, nm, desc.get('enable_nan', False), desc.get('enable_inf', False),
                          desc.get('enable_neg_zero', True), overflow_modes=('OVERFLOW', 'SATURATE', 'WRAP', 'ASSERT'))
    if fam == 'Fixed':
        sc, nb = desc['scale'], desc['nbits']
        u = Fraction(2) ** sc
        if desc['signed']:
            pm, nm = ((1 << (nb - 1)) - 1) * u, (1 << (nb - 1)) * u
        else:
            pm, nm = ((1 << nb) - 1) * u, Fraction(0)
        return FormatSpec(None, sc - 1, pm, nm, False, False, False, overflow_modes=('OVERFLOW', 'SATURATE', 'WRAP', 'ASSERT'))
    if fam == 'SMFixed':
        sc, nb = desc['scale'], desc['nbits']
        u = Fraction(2) ** sc
        pm = ((1 << (nb - 1)) - 1) * u
        return FormatSpec(None, sc - 1, pm, pm, False, False, True, overflow_modes=('OVERFLOW', 'SATURATE', 'WRAP', 'ASSERT'))
    if fam == 'Real':
        return FormatSpec(None, None)
    raise ValueError(fam)


# ---- symbolic (z3) versions of the published layouts: pattern -> (isnan, isinf, neg, scaled magnitude) -----------
def layout_terms(desc, b, K):
    """b: z3 BV (oracle width) holding the bit pattern. Returns dict of z3 terms: nan, inf (Bool), neg (Bool),
    mag (BV, |value| * 2**K)."""
    import z3
    if not isinstance(b, z3.ExprRef):
        from .dsl import WO as _WO
        import spec.dsl as _d
        b = z3.BitVecVal(int(b), _d.WO)
    W = b.size()
    fam = desc['fam']
    one = z3.BitVecVal(1, W)
    F_ = z3.BoolVal(False)

    def c(v):
        return z3.BitVecVal(v, W)
    if fam in ('IEEE', 'EFloat'):
        if fam == 'IEEE':
            es, nbits, inf, nk, eo = desc['es'], desc['nbits'], True, 'IEEE_754', 0
        else:
            es, nbits, inf, nk, eo = desc['es'], desc['nbits'], desc['enable_inf'], desc['nan_kind'], desc['eoffset']
        m = nbits - es - 1
        neg = z3.Extract(nbits - 1, nbits - 1, b) == 1
        e = z3.LShR(b, m) & c((1 << es) - 1)
        f = b & c((1 << m) - 1)
        magbits = b & c((1 << (nbits - 1)) - 1)
        allones = c((1 << (nbits - 1)) - 1)
        bias = (1 << (es - 1)) - 1 if es > 0 else 0
        emin = 1 - bias + eo
        if nk == 'IEEE_754':
            top = e == c((1 << es) - 1)
            isinf = z3.And(top, f == 0) if inf else F_
            isnan = z3.And(top, z3.Not(isinf))
        elif nk == 'MAX_VAL':
            isnan = magbits == allones
            isinf = (magbits == allones - 1) if inf else F_
        else:
            isinf = (magbits == allones) if inf else F_
            isnan = z3.And(neg, magbits == 0) if nk == 'NEG_ZERO' else F_
        # finite value: e == 0 -> f * 2^(emin - m); else (2^m + f) * 2^(e - bias + eo - m)
        sh0 = emin - m + K
        assert sh0 >= 0, 'K too small for the format'
        sub = f << c(sh0)
        nor = (c(1 << m) | f) << (e - 1 + c(sh0))
        mag = z3.If(e == 0, sub, nor) if es > 0 else sub
        return dict(nan=isnan, inf=isinf, neg=neg, mag=mag)
    if fam == 'Fixed':
        nb, sc = desc['nbits'], desc['scale']
        if desc['signed']:
            neg = z3.Extract(nb - 1, nb - 1, b) == 1
            mag = z3.If(neg, c(1 << nb) - b, b)
        else:
            neg = F_; mag = b
        return dict(nan=F_, inf=F_, neg=neg, mag=mag << c(sc + K))
    if fam == 'SMFixed':
        nb, sc = desc['nbits'], desc['scale']
        neg = z3.Extract(nb - 1, nb - 1, b) == 1
        mag = b & c((1 << (nb - 1)) - 1)
        return dict(nan=F_, inf=F_, neg=neg, mag=mag << c(sc + K))
    if fam == 'Exp':
        nb, eo = desc['nbits'], desc.get('eoffset', 0)
        bias = (1 << (nb - 1)) - 1 - eo
        isnan = b == c((1 << nb) - 1)
        mag = one << (b - c(bias) + c(K))
        return dict(nan=isnan, inf=F_, neg=F_, mag=mag)
    raise ValueError(fam)


def layout_concrete(desc, bits, K):
    """concrete twin of layout_terms (used by the replay judge)"""
    fam = desc['fam']
    if fam in ('IEEE', 'EFloat'):
        if fam == 'IEEE':
            d = efloat_decode(desc['es'], desc['nbits'], True, 'IEEE_754', 0, bits)
        else:
            d = efloat_decode(desc['es'], desc['nbits'], desc['enable_inf'], desc['nan_kind'], desc['eoffset'], bits)
        if d[0] == 'nan':
            return dict(nan=True, inf=False, neg=bool(d[1]), mag=0)
        if d[0] == 'inf':
            return dict(nan=False, inf=True, neg=bool(d[1]), mag=0)
        return dict(nan=False, inf=False, neg=bool(d[1]), mag=d[2] * Fraction(2) ** K)
    if fam == 'Fixed':
        nb, sc = desc['nbits'], desc['scale']
        neg = desc['signed'] and bits >= (1 << (nb - 1))
        mag = ((1 << nb) - bits) if neg else bits
        return dict(nan=False, inf=False, neg=neg, mag=mag * Fraction(2) ** (sc + K))
    if fam == 'SMFixed':
        nb, sc = desc['nbits'], desc['scale']
        neg = bool(bits >> (nb - 1))
        return dict(nan=False, inf=False, neg=neg, mag=(bits & ((1 << (nb - 1)) - 1)) * Fraction(2) ** (sc + K))
    if fam == 'Exp':
        nb, eo = desc['nbits'], desc.get('eoffset', 0)
        if bits == (1 << nb) - 1:
            return dict(nan=True, inf=False, neg=False, mag=0)
        return dict(nan=False, inf=False, neg=False, mag=Fraction(2) ** (bits - ((1 << (nb - 1)) - 1 - eo) + K))
    raise ValueError(fam)
