"""
Reference evaluator for FPy programs, written from docs/source/dev/semantics.rst, derived-semantics.rst and docs/USAGE.md.

It reads the program's SOURCE TEXT with Python's `ast` module and evaluates it directly: environment sigma (a dict),
store mu (Python lists are the lists of cells; binding shares them), active context C.  It shares nothing with
fpy2.frontend / fpy2.interpret: not the parser's operator tables, not the FPy AST, not the bytecode compiler.
What it takes as given are the *primitive* rounded operations  C(exact(a op b))  (handed in as `prim`, the same
operations — or their validated summaries — the real interpreter ends up calling) and comparison of two numbers.

Rules implemented (names as in the documentation):
  E-Val / E-Var / E-List / E-Index (strict: integer index in range) / E-Tuple / E-Op (every arithmetic node rounds its exact
  result under the ACTIVE context) / E-Pred (comparisons: no rounding, NaN unordered, chains are conjunctions evaluated left
  to right with short-circuit) / E-Assign with M-Var, M-Tuple / E-Update through a cell (xs[i] = e; xs[i][j] = e) /
  E-Seq / E-If / E-While / ForStmt as an index loop / E-Context (constructor evaluated under R, body under the new context,
  previous context back afterwards — also on an early return) / E-App (fresh environment, shared store, callee's declared
  context if it has one, else the caller's) / E-Ret / E-Assert / ListComp (targets local), ListSlice (exactly stop-start
  elements, fresh cells), Zip, Enumerate, Range, Len, Sum (left fold with +, empty sum exact 0), Min/Max (NaN propagates,
  +-0 tie by sign, left fold), AnyOf/AllOf, And/Or short-circuit, Not, IfExpr.
  Program entry: arguments are bound as given (never rounded); no context given = IEEE double.
Anything else raises Unsupported (the program is then outside the corpus), a stuck evaluation raises Stuck.
"""
import ast
from fractions import Fraction


class Unsupported(Exception):
    pass


class Stuck(Exception):
    """no rule applies (index out of range, failed assertion, unequal zip, ...)"""


class _Return(Exception):
    def __init__(self, v):
        self.v = v


class Ref:
    def __init__(self, src, namespace, prim, num):
        """src: module text with @fp.fpy functions; namespace: names visible to it (fp, contexts);
        prim: dict add/sub/mul/fma/neg/abs/round -> f(*args, ctx=C); num: helpers (isnan, isinf, is_zero, signbit, lt, eq, as_index, real_ctx, default_ctx)"""
        self.src = src
        self.ns = dict(namespace)
        self.prim = prim
        self.num = num
        self.funcs = {}
        mod = ast.parse(src)
        for node in mod.body:
            if isinstance(node, ast.FunctionDef):
                self.funcs[node.name] = (node, self._declared_ctx(node))
            elif isinstance(node, ast.Assign) and len(node.targets) == 1 and isinstance(node.targets[0], ast.Name):
                # a host (Python) value captured by the functions below: numbers keep the exact value of the host object
                self.ns[node.targets[0].id] = self._host(eval(compile(ast.Expression(node.value), '<captured>', 'eval'), dict(self.ns)))  # noqa: S307

    # ---- program structure ------------------------------------------------------------------------------------
    def _declared_ctx(self, fn):
        for d in fn.decorator_list:
            if isinstance(d, ast.Call):
                for kw in d.keywords:
                    if kw.arg == 'ctx':
                        return self._foreign(kw.value, {})
        return None

    def run(self, name, args, ctx):
        """program entry: ctx None means 'called from Python with no context'"""
        fn, dctx = self.funcs[name]
        C = dctx if dctx is not None else (ctx if ctx is not None else self.num['default_ctx'])
        return self._apply(fn, list(args), C)

    def _apply(self, fn, args, C):
        params = [a.arg for a in fn.args.args]
        if len(params) != len(args):
            raise Stuck('arity')
        env = dict(zip(params, args))
        try:
            self._block(fn.body, env, C)
        except _Return as r:
            return r.v
        raise Stuck('function body completed without returning')

    # ---- statements ----------------------------------------------------------------------------------------------
    def _block(self, stmts, env, C):
        for s in stmts:
            self._stmt(s, env, C)

    def _stmt(self, s, env, C):
        if isinstance(s, ast.Expr) and isinstance(s.value, ast.Constant) and isinstance(s.value.value, str):
            return      # docstring
        if isinstance(s, ast.Assign):
            if len(s.targets) != 1:
                raise Unsupported('chained assignment')
            v = self._expr(s.value, env, C)
            self._bind_target(s.targets[0], v, env, C)
        elif isinstance(s, ast.AnnAssign):
            v = self._expr(s.value, env, C)
            self._bind_target(s.target, v, env, C)
        elif isinstance(s, ast.AugAssign):
            cur = self._expr(_load(s.target), env, C)
            v = self._binop(s.op, cur, self._expr(s.value, env, C), C)
            self._bind_target(s.target, v, env, C)
        elif isinstance(s, ast.If):
            c = self._bool(self._expr(s.test, env, C))
            self._block(s.body if c else s.orelse, env, C)
        elif isinstance(s, ast.While):
            if s.orelse:
                raise Unsupported('while-else')
            while self._bool(self._expr(s.test, env, C)):
                self._block(s.body, env, C)
        elif isinstance(s, ast.For):
            if s.orelse:
                raise Unsupported('for-else')
            xs = self._expr(s.iter, env, C)
            if not isinstance(xs, list):
                raise Stuck('iterating a non-list')
            i = 0
            while i < len(xs):          # an index loop: each element is read when its turn comes
                self._match(s.target, xs[i], env)
                self._block(s.body, env, C)
                i += 1
        elif isinstance(s, ast.With):
            if len(s.items) != 1:
                raise Unsupported('with several items')
            it = s.items[0]
            Cn = self._expr(it.context_expr, env, self.num['real_ctx'])       # E-Context: constructor under R
            if not self.num['is_ctx'](Cn):
                raise Stuck('with: not a context')
            if it.optional_vars is not None:
                if not isinstance(it.optional_vars, ast.Name):
                    raise Unsupported('with target')
                env[it.optional_vars.id] = Cn
            self._block(s.body, env, Cn)        # the enclosing C is simply still C for the statements after the block
        elif isinstance(s, ast.Return):
            raise _Return(self._expr(s.value, env, C))
        elif isinstance(s, ast.Assert):
            if not self._bool(self._expr(s.test, env, C)):
                raise Stuck('assertion failed')
        elif isinstance(s, ast.Pass):
            pass
        elif isinstance(s, ast.Expr):
            self._expr(s.value, env, C)
        else:
            raise Unsupported(type(s).__name__)

    def _bind_target(self, t, v, env, C):
        if isinstance(t, ast.Subscript):
            # E-Index to the cell (possibly through several rows), then E-Update through it
            cell_list = self._expr(t.value, env, C)
            if isinstance(t.slice, ast.Slice):
                raise Unsupported('slice assignment')
            i = self._index(self._expr(t.slice, env, C), cell_list)
            cell_list[i] = v
        else:
            self._match(t, v, env)

    def _match(self, p, v, env):
        if isinstance(p, ast.Name):
            if p.id != '_':
                env[p.id] = v
        elif isinstance(p, (ast.Tuple, ast.List)):
            if not isinstance(v, tuple) or len(v) != len(p.elts):
                raise Stuck('tuple pattern against %r' % type(v).__name__)
            for q, w in zip(p.elts, v):
                self._match(q, w, env)
        else:
            raise Unsupported('pattern')

    # ---- expressions -------------------------------------------------------------------------------------------------
    def _expr(self, e, env, C):
        if isinstance(e, ast.Constant):
            return self._const(e)
        if isinstance(e, ast.Name):
            if e.id in env:
                return env[e.id]
            if e.id in self.ns:
                return self.ns[e.id]
            if e.id in ('True', 'False'):
                return e.id == 'True'
            raise Stuck('unbound ' + e.id)
        if isinstance(e, ast.Tuple):
            return tuple(self._expr(x, env, C) for x in e.elts)
        if isinstance(e, ast.List):
            return [self._expr(x, env, C) for x in e.elts]          # a fresh cell per element
        if isinstance(e, ast.Subscript):
            xs = self._expr(e.value, env, C)
            if not isinstance(xs, list):
                raise Stuck('indexing a non-list')
            if isinstance(e.slice, ast.Slice):
                if e.slice.step is not None:
                    raise Unsupported('slice step')
                lo = 0 if e.slice.lower is None else self._int(self._expr(e.slice.lower, env, C))
                hi = len(xs) if e.slice.upper is None else self._int(self._expr(e.slice.upper, env, C))
                if not (0 <= lo <= hi <= len(xs)):
                    raise Stuck('slice bounds are not clamped')
                return [xs[k] for k in range(lo, hi)]
            return xs[self._index(self._expr(e.slice, env, C), xs)]
        if isinstance(e, ast.ListComp):
            return self._comp(e, 0, dict(env), C)
        if isinstance(e, ast.IfExp):
            return self._expr(e.body if self._bool(self._expr(e.test, env, C)) else e.orelse, env, C)
        if isinstance(e, ast.BoolOp):
            isand = isinstance(e.op, ast.And)
            r = isand
            for x in e.values:
                r = self._bool(self._expr(x, env, C))
                if r != isand:
                    return r
            return r
        if isinstance(e, ast.UnaryOp):
            if isinstance(e.op, ast.Not):
                return not self._bool(self._expr(e.operand, env, C))
            if isinstance(e.op, ast.UAdd):
                return self._expr(e.operand, env, C)
            if isinstance(e.op, ast.USub):
                if isinstance(e.operand, ast.Constant) and not isinstance(e.operand.value, bool) and isinstance(e.operand.value, (int, float)):
                    v = self._const(e.operand)
                    if v == 0:
                        return self.num['neg_zero']()           # a negated zero literal is the signed zero
                    if isinstance(e.operand.value, int):
                        return -v                               # a negative integer literal
                return self.prim['neg'](self._numv(self._expr(e.operand, env, C)), ctx=C)
            raise Unsupported('unary op')
        if isinstance(e, ast.BinOp):
            return self._binop(e.op, self._expr(e.left, env, C), self._expr(e.right, env, C), C)
        if isinstance(e, ast.Compare):
            left = self._expr(e.left, env, C)
            for op, rhs in zip(e.ops, e.comparators):
                right = self._expr(rhs, env, C)
                if not self._cmp(op, left, right):
                    return False
                left = right
            return True
        if isinstance(e, ast.Call):
            return self._call(e, env, C)
        if isinstance(e, ast.Attribute):
            return self._foreign(e, env)
        raise Unsupported(type(e).__name__)

    def _const(self, e):
        v = e.value
        if isinstance(v, bool):
            return v
        if isinstance(v, int):
            return Fraction(v)
        if isinstance(v, float):
            from harness.c06_common import exact_decimal
            text = ast.get_source_segment(self.src, e)
            return exact_decimal(text)[1]
        if v is None or isinstance(v, str):
            return v
        raise Unsupported('constant')

    def _comp(self, e, k, env, C):
        if k == len(e.generators):
            return [self._expr(e.elt, env, C)]
        g = e.generators[k]
        if g.ifs or g.is_async:
            raise Unsupported('comprehension condition')
        xs = self._expr(g.iter, env, C)
        if not isinstance(xs, list):
            raise Stuck('iterating a non-list')
        out = []
        for v in list(xs):
            self._match(g.target, v, env)
            out += self._comp(e, k + 1, env, C)
        return out

    def _binop(self, op, a, b, C):
        if isinstance(op, ast.Mod):
            # E-Op with the exact value x - floor(x / y) * y (the sign of the divisor); concrete operands only
            from fractions import Fraction
            x, y = self.num['rational'](self._numv(a)), self.num['rational'](self._numv(b))
            if y == 0:
                raise Unsupported('% by zero')
            q = x / y
            v = x - Fraction(q.numerator // q.denominator) * y
            if v == 0:
                raise Unsupported('zero result of % (sign of zero)')
            return self.prim['round'](v if v.denominator & (v.denominator - 1) else self.num['from_rational'](v), ctx=C)
        name = {ast.Add: 'add', ast.Sub: 'sub', ast.Mult: 'mul'}.get(type(op))
        if name is None:
            raise Unsupported('operator %s' % type(op).__name__)
        return self.prim[name](self._numv(a), self._numv(b), ctx=C)

    def _cmp(self, op, a, b):
        n = self.num
        if isinstance(op, (ast.Eq, ast.NotEq)):
            r = self._equal(a, b)
            return r if isinstance(op, ast.Eq) else not r
        a, b = self._numv(a), self._numv(b)
        if n['isnan'](a) or n['isnan'](b):
            return False
        if isinstance(op, ast.Lt):
            return n['lt'](a, b)
        if isinstance(op, ast.Gt):
            return n['lt'](b, a)
        if isinstance(op, ast.LtE):
            return not n['lt'](b, a)
        if isinstance(op, ast.GtE):
            return not n['lt'](a, b)
        raise Unsupported('comparison')

    def _equal(self, a, b):
        if isinstance(a, (list, tuple)) or isinstance(b, (list, tuple)):
            if type(a) is not type(b):
                raise Stuck('== on operands of unequal type')
            return len(a) == len(b) and all(self._equal(x, y) for x, y in zip(a, b))
        if isinstance(a, bool) or isinstance(b, bool):
            if not (isinstance(a, bool) and isinstance(b, bool)):
                raise Stuck('== on operands of unequal type')
            return a == b
        a, b = self._numv(a), self._numv(b)
        if self.num['isnan'](a) or self.num['isnan'](b):
            return False
        return self.num['eq'](a, b)

    # ---- calls -----------------------------------------------------------------------------------------------------------
    def _call(self, e, env, C):
        f = e.func
        if isinstance(f, ast.Name) and f.id in self.funcs and f.id not in env:
            if e.keywords:
                raise Unsupported('keyword arguments to an FPy function')
            args = [self._expr(a, env, C) for a in e.args]           # E-App: arguments are not rounded, lists are shared
            fn, dctx = self.funcs[f.id]
            return self._apply(fn, args, dctx if dctx is not None else C)
        name = None
        if isinstance(f, ast.Name) and f.id not in env:
            name = f.id
        elif isinstance(f, ast.Attribute) and isinstance(f.value, ast.Name) and f.value.id == 'fp':
            name = f.attr
        if name is None:
            raise Unsupported('call target')
        if name.endswith('Context'):
            ctor = getattr(self.ns['fp'], name)
            args = [self._py(self._expr(a, env, C)) for a in e.args]
            kw = {k.arg: self._py(self._expr(k.value, env, C)) for k in e.keywords}
            return ctor(*args, **kw)
        if e.keywords:
            raise Unsupported('keyword arguments')
        args = [self._expr(a, env, C) for a in e.args]
        n = self.num
        if name == 'len':
            return Fraction(len(self._list(args[0])))
        if name == 'size':
            # "Len / Size / Dim: exact integer counts, no rounding" (derived semantics, Lists)
            t = self._list(args[0])
            for _ in range(self._int(args[1])):
                if not t:
                    raise Stuck('size of an empty dimension')
                t = self._list(t[0])
            return Fraction(len(t))
        if name == 'dim':
            t = args[0]; d = 0
            while isinstance(t, list):
                d += 1
                if not t:
                    break
                t = t[0]
            return Fraction(d)
        if name == 'range':
            iv = [self._int(a) for a in args]
            return [Fraction(k) for k in range(*iv)]
        if name == 'zip':
            ls = [self._list(a) for a in args]
            if len({len(x) for x in ls}) > 1:
                raise Stuck('zip of unequal lengths')
            return [tuple(x[k] for x in ls) for k in range(len(ls[0]))] if ls else []
        if name == 'enumerate':
            return [(Fraction(k), v) for k, v in enumerate(self._list(args[0]))]
        if name == 'sum':
            xs = self._list(args[0])
            if not xs:
                return Fraction(0)
            acc = xs[0]
            for v in xs[1:]:
                acc = self.prim['add'](self._numv(acc), self._numv(v), ctx=C)
            return acc
        if name in ('min', 'max'):
            xs = self._list(args[0]) if len(args) == 1 else args
            if not xs:
                raise Stuck('min/max of nothing')
            acc = self._numv(xs[0])
            for v in xs[1:]:
                acc = self._minmax(name == 'max', acc, self._numv(v))
            return acc
        if name in ('any', 'all'):
            xs = self._list(args[0])
            acc = name == 'all'
            for b in xs:
                b = self._bool(b)
                acc = (acc and b) if name == 'all' else (acc or b)
            return acc
        if name in ('abs', 'fabs'):
            return self.prim['abs'](self._numv(args[0]), ctx=C)
        if name == 'round':
            return self.prim['round'](self._numv(args[0]), ctx=C)
        if name == 'fma':
            return self.prim['fma'](*[self._numv(a) for a in args], ctx=C)
        if name == 'isnan':
            return bool(n['isnan'](self._numv(args[0])))
        if name == 'isinf':
            return bool(n['isinf'](self._numv(args[0])))
        if name == 'signbit':
            return bool(n['signbit'](self._numv(args[0])))
        raise Unsupported('call of ' + name)

    def _minmax(self, ismax, x, y):
        n = self.num
        if n['isnan'](x) or n['isnan'](y):
            return x if n['isnan'](x) else y
        if ismax:
            return x if (n['lt'](y, x) or (n['eq'](x, y) and not n['signbit'](x))) else y
        return x if (n['lt'](x, y) or (n['eq'](x, y) and n['signbit'](x))) else y

    # ---- helpers -------------------------------------------------------------------------------------------------------------
    def _foreign(self, e, env):
        """attribute chains over host objects: fp.RM.RTZ, fp.REAL, ..."""
        if isinstance(e, ast.Name):
            if e.id in env:
                return env[e.id]
            if e.id in self.ns:
                return self.ns[e.id]
            raise Stuck('unbound ' + e.id)
        if isinstance(e, ast.Attribute):
            return getattr(self._foreign(e.value, env), e.attr)
        if isinstance(e, ast.Call):
            return self._call(e, env, self.num['real_ctx'])
        raise Unsupported('foreign expression')

    def _host(self, v):
        if isinstance(v, bool):
            return v
        if isinstance(v, (int, float)):
            return Fraction(v)
        if isinstance(v, list):
            return [self._host(x) for x in v]
        if isinstance(v, tuple):
            return tuple(self._host(x) for x in v)
        return v

    def _bool(self, v):
        if not isinstance(v, bool):
            raise Stuck('a condition must be a boolean (no truthiness)')
        return v

    def _list(self, v):
        if not isinstance(v, list):
            raise Stuck('expected a list')
        return v

    def _numv(self, v):
        if isinstance(v, (bool, list, tuple)) or v is None or self.num['is_ctx'](v):
            raise Stuck('expected a number')
        return v

    def _int(self, v):
        return self.num['as_index'](self._numv(v))

    def _index(self, v, xs):
        if not isinstance(xs, list):
            raise Stuck('indexing a non-list')
        i = self._int(v)
        if not (0 <= i < len(xs)):
            raise Stuck('index out of range')
        return i

    def _py(self, v):
        """a value handed to a context constructor"""
        if isinstance(v, Fraction) and v.denominator == 1:
            return int(v)
        if hasattr(v, 'as_rational') and not self.num['isnan'](v) and not self.num['isinf'](v):
            q = v.as_rational()
            if q.denominator == 1:
                return int(q)
        return v


def _load(t):
    import copy
    t2 = copy.deepcopy(t)
    for n in ast.walk(t2):
        if hasattr(n, 'ctx'):
            n.ctx = ast.Load()
    return t2
