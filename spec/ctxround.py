"""
What `ctx.round(x)` / `ctx.round_at(x, n)` must return, per property C01 — dual-use (z3 / concrete).

outcome = {'raised': None | 'ValueError' | 'OverflowError' | ...,
           'kind': 'fin' | 'inf' | 'nan', 'sign': bool, 'D': scaled magnitude (term or int),
           'inexact': bool, 'overflow': bool}
"""
from fractions import Fraction
from .dsl import If, And, Or, Not, Eq, Implies, isz
from .rounding import round_detail, overflow_to_inf, is_member


def scaled(fr: Fraction, K: int) -> int:
    v = fr * (Fraction(2) ** K)
    assert v.denominator == 1, 'scale K too small for a format constant'
    return int(v)


def subst_matches(out, sub, K):
    """result equals a substitute value (sign may be the substitute's or the operand's — families differ and
    the documentation does not say)"""
    if sub == 'nan':
        return out['kind'] == 'nan'
    if sub in ('+inf', '-inf'):
        return out['kind'] == 'inf'
    s, exp, c = sub
    return And(out['kind'] == 'fin', Eq(out['D'], scaled(Fraction(c) * Fraction(2) ** exp, K)))


def post_finite(desc, spec, K, neg, X, n_at, out, exact=False):
    """postcondition for a finite operand of sign `neg` and scaled magnitude X.
    n_at: None for round(), else the position passed to round_at()."""
    rm = desc.get('rm', 'RNE')
    fam = desc['fam']
    if fam == 'Real':
        if out['raised'] is not None:
            return False
        return And(out['kind'] == 'fin', Eq(out['D'], X), Eq(out['sign'], bool(neg)),
                   out['inexact'] is False, out['overflow'] is False)
    p, n = spec.p, spec.n
    if n_at is not None:
        n = n_at if n is None else If(n_at > n, n_at, n)
    d = round_detail(X, neg, p, n, rm, K)
    R = d['R']
    if spec.bounded:
        maxS = scaled(spec.neg_max if neg else spec.pos_max, K)
        ovf = R > maxS
    else:
        maxS = None
        ovf = False
    raised = out['raised']
    # ---- normal arm
    if exact:
        # exact=True: raises ValueError iff the rounding would change the value (or overflow)
        normal = If(d['inexact'], raised == 'ValueError',
                    And(raised is None, out.get('kind') == 'fin', Eq(out.get('D', 0), R)))
    elif raised is not None:
        normal = False
    else:
        sign_ok = If(Eq(R, 0), Eq(out['sign'], bool(neg and spec.has_neg_zero)), Eq(out['sign'], bool(neg)))
        normal = And(out['kind'] == 'fin', Eq(out['D'], R), sign_ok, Eq(out['inexact'], d['inexact']),
                     out['overflow'] is False)
    if not spec.bounded:
        return normal
    # ---- overflow arm
    ov = desc.get('ov', 'OVERFLOW')
    flags = And(out.get('inexact') is True, out.get('overflow') is True) if raised is None else False
    is_max = And(raised is None, out.get('kind') == 'fin', Eq(out.get('D', 0), maxS),
                 Eq(out.get('sign'), bool(neg and (maxS != 0 or spec.has_neg_zero))))
    if exact:
        over = raised == 'ValueError'
    elif ov == 'ASSERT':
        over = raised == 'OverflowError'
    elif ov == 'SATURATE':
        over = And(is_max, flags)
    elif ov == 'WRAP':
        # modulus over the ordinals: members are k * u, k in [-negmax/u, posmax/u]
        u = 1 << (spec.n + 1 + K)
        lo_ord = -(scaled(spec.neg_max, K) // u)
        total = scaled(spec.pos_max, K) // u - lo_ord + 1
        if isz(R):
            import z3
            W = R.size()
            o = z3.If(z3.BoolVal(bool(neg)), -R, R) / z3.BitVecVal(u, W)       # exact: R is a multiple of u
            t = o - z3.BitVecVal(lo_ord, W)
            m = z3.SRem(t, z3.BitVecVal(total, W))
            m = z3.If(m < 0, m + total, m)
            w = m + z3.BitVecVal(lo_ord, W)
            wneg = w < 0
            wmag = z3.If(wneg, -w, w) * u
            got = And(raised is None, out.get('kind') == 'fin', Eq(out.get('D', 0), wmag),
                      Or(Eq(wmag, 0), wneg == z3.BoolVal(bool(out.get('sign')))))
        else:
            o = (-R if neg else R) // u
            w = ((o - lo_ord) % total) + lo_ord
            got = (raised is None and out.get('kind') == 'fin' and out.get('D') == abs(w) * u
                   and (w == 0 or out.get('sign') == (w < 0)))
        over = And(got, flags)
    else:  # OVERFLOW
        t = overflow_to_inf(rm, neg)
        if spec.has_inf:
            to_inf = And(raised is None, out.get('kind') == 'inf', Eq(out.get('sign'), bool(neg)))
        elif desc.get('inf_value') is not None:
            to_inf = And(raised is None, subst_matches(out, desc['inf_value'], K))
        elif fam in ('EFloat', 'IEEE'):
            # no infinity and no substitute: the extended-float family falls back to NaN or the largest value
            to_inf = And(raised is None, Or(And(spec.has_nan, out.get('kind') == 'nan'), is_max))
        else:
            to_inf = raised == 'ValueError'
        to_inf = And(to_inf, flags if raised is None else True)
        to_max = And(is_max, flags)
        over = to_inf if t is True else to_max if t is False else Or(to_inf, to_max)
    return If(ovf, over, normal)


def post_special(desc, spec, K, cls, neg, out):
    """operand is NaN ('nan') or an infinity ('inf') of sign `neg` — no symbolic content"""
    raised = out['raised']
    if desc['fam'] == 'Real':
        return raised is None and out['kind'] == cls and (cls == 'nan' or out['sign'] == neg)
    has = spec.has_nan if cls == 'nan' else spec.has_inf
    sub = desc.get('nan_value' if cls == 'nan' else 'inf_value')
    if has:
        return raised is None and out['kind'] == cls and (cls == 'nan' or out['sign'] == neg)
    if sub is not None:
        return raised is None and bool(subst_matches(out, sub, K))
    if desc['fam'] in ('EFloat', 'IEEE'):
        # documented only by the member requirement: the result must be a member of the format
        if raised is not None:
            return raised == 'ValueError'
        if out['kind'] == 'nan':
            return spec.has_nan
        if out['kind'] == 'inf':
            return spec.has_inf
        return spec.contains(Fraction(out['D']) / Fraction(2) ** K)
    return raised == 'ValueError'
