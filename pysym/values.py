"""Helpers to build repository number objects with symbolic fields and to denote results as scaled terms."""
import z3
from .core import SymInt, cur, bv
from spec.dsl import lift, WO, bitlen, isz


def denote_mag(c, exp, K, eng=None, W=None):
    """|value| * 2**K as an oracle-width term (or python int): c << (exp + K).
    Adds obligations that the scaling is exact (exp + K >= 0) and fits."""
    W = W or WO
    C = lift(c, W)
    E = lift(exp, W)
    if not isz(C) and not isz(E):
        sh = E + K
        if sh < 0:
            if C == 0:
                return 0
            if C & ((1 << -sh) - 1):
                raise OverflowError('denote: scale K too small for a concrete value')
            return C >> -sh
        return C << sh
    eng = eng or cur()
    if not isz(C):
        C = z3.BitVecVal(C, W)
    if not isz(E):
        E = z3.BitVecVal(E, W)
    sh = E + K
    # zero may carry any exponent
    eng.oblige(z3.Or(C == 0, z3.And(sh >= 0, sh < W - 2)), 'denote-scale')
    shc = z3.If(z3.Or(sh < 0, sh >= W), z3.BitVecVal(0, W), sh)
    r = C << shc
    eng.oblige(z3.Or(C == 0, z3.LShR(r, shc) == C), 'denote-width')
    eng.oblige(r >= 0, 'denote-sign')
    return z3.If(C == 0, z3.BitVecVal(0, W), r)
