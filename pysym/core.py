"""
pysym — a small symbolic executor for unmodified Python integer code over z3 bit-vectors.

* `SymInt` is a subclass of `int` whose payload is a z3 BitVec(W) term; the repository's code
  accepts it wherever it accepts an `int`.
* comparisons / truth tests fork eagerly and return real `bool`s; exploration is DFS by re-execution
  with a recorded decision prefix; one solver level (push) per decision.
* `choose(term)` concretises a term by deterministic enumerate-and-fork.
* overflow / shift-range / division side conditions are collected per path as *obligations* and
  discharged together with the postcondition (`Engine.require`).

The engine is single-threaded; one Engine per process at a time (global `ENG`).
"""
from __future__ import annotations

import time
import z3

__all__ = ['SymInt', 'Engine', 'explore', 'Abort', 'PathLimit', 'bv', 'is_sym', 'cur', 'bitlen_term']


class Abort(BaseException):
    """path abandoned (infeasible or cut); never caught by `except Exception`"""


class PathLimit(BaseException):
    pass


class Inconclusive(BaseException):
    """solver said unknown / a cap was hit — the exploration result cannot be a pass"""


ENG: 'Engine | None' = None


def cur() -> 'Engine':
    assert ENG is not None, 'no active engine'
    return ENG


def is_sym(x) -> bool:
    return type(x) is SymInt


class Engine:
    def __init__(self, W: int = 64, bl_max: int | None = None, timeout_ms: int = 60000, choose_cap: int = 256):
        self.W = W
        self.bl_max = bl_max if bl_max is not None else W - 2
        self.solver = z3.Solver()
        self.solver.set('timeout', timeout_ms)
        self.choose_cap = choose_cap
        # decision stack entries:
        #  {'k':'b','cond':expr,'taken':bool,'other':bool (other side feasible & unexplored),'model':model}
        #  {'k':'c','term':expr,'val':int,'tried':[...],'more':bool}
        self.dec: list[dict] = []
        self.pos = 0
        self.model = None           # a model of the current path condition
        self.base_model = None
        self.oblig: list = []       # z3 bools that must hold on this path (no overflow etc.)
        self.oblig_tags: list = []
        # statistics
        self.checks = 0
        self.solve_s = 0.0
        self.paths = 0
        self.aborted = 0
        self.decisions = 0
        self.requires = 0
        self.unsat = 0
        self.sat = 0
        self.unknown = 0
        self.inputs: dict[str, z3.ExprRef] = {}
        self.cex: list[dict] = []
        self.witness: dict[str, int] = {}
        self.notes: list = []
        self.in_setup = False
        self.setup_replay = False

    # ---- solver helpers -------------------------------------------------------------------
    def check(self, *assumptions):
        t = time.time()
        r = self.solver.check(*assumptions)
        self.solve_s += time.time() - t
        self.checks += 1
        if r == z3.unknown:
            self.unknown += 1
        return r

    def fresh(self, name: str, lo: int | None = None, hi: int | None = None) -> 'SymInt':
        """declare a symbolic input (signed), optionally constrained to lo <= v <= hi"""
        v = z3.BitVec(name, self.W)
        self.inputs[name] = v
        if lo is not None:
            self.solver.add(v >= lo)
        if hi is not None:
            self.solver.add(v <= hi)
        return SymInt(v)

    def fresh_aux(self, name: str, lo: int | None = None, hi: int | None = None) -> 'SymInt':
        """an auxiliary symbolic value created inside `run` (e.g. the result of a stubbed call); it is constrained
        with `assume`, so it is part of the path condition, and named by order of creation on the path"""
        self._aux_n = getattr(self, '_aux_n', 0) + 1
        v = z3.BitVec('%s#%d' % (name, self._aux_n), self.W)
        c = []
        if lo is not None:
            c.append(v >= lo)
        if hi is not None:
            c.append(v <= hi)
        if c:
            self.assume(z3.And(*c))
        return SymInt(v)

    def _ensure_model(self):
        if self.model is None:
            r = self.check()
            if r == z3.unsat:
                raise Abort()
            if r != z3.sat:
                raise Inconclusive('unknown at model refresh')
            self.model = self.solver.model()
        return self.model

    # ---- forking -----------------------------------------------------------------------------
    def branch(self, cond) -> bool:
        if isinstance(cond, bool):
            return cond
        raw = cond
        cond = z3.simplify(cond)
        if z3.is_true(cond):
            return True
        if z3.is_false(cond):
            return False
        if self.pos < len(self.dec):
            d = self.dec[self.pos]
            self.pos += 1
            # z3.simplify orders commutative arguments by AST id, which may differ between executions: the
            # determinism check compares the unsimplified terms (built by the same operation sequence)
            if d['k'] != 'b' or not (d['raw'].eq(raw) or d['cond'].eq(cond)):
                raise RuntimeError('pysym: replay divergence at decision %d: %s vs %s' % (self.pos - 1, d.get('cond'), cond))
            cond = d['cond']
            if d.get('pending'):
                # the flipped side: its feasibility (and a model) were established when first met
                d['pending'] = False
                self.solver.push()
                self.solver.add(cond if d['taken'] else z3.Not(cond))
                self.model = d['model']
            return d['taken']
        # new decision: the current model witnesses one side for free; one query for the other side
        self.decisions += 1
        m = self._ensure_model()
        taken = z3.is_true(m.eval(cond, model_completion=True))
        other = z3.Not(cond) if taken else cond
        self.solver.push(); self.solver.add(other); r = self.check()
        om = self.solver.model() if r == z3.sat else None
        self.solver.pop()
        if r == z3.unknown:
            raise Inconclusive('unknown at branch')
        self.solver.push()
        self.solver.add(cond if taken else z3.Not(cond))
        self.dec.append({'k': 'b', 'cond': cond, 'raw': raw, 'taken': taken, 'other': r == z3.sat, 'omodel': om, 'model': self.model})
        self.pos += 1
        return taken

    def assume(self, cond):
        """constrain the rest of the path (placed before the code it constrains). Infeasible -> path dropped."""
        if isinstance(cond, bool):
            if not cond:
                raise Abort()
            return
        if self.in_setup:
            if not self.setup_replay:
                self.solver.add(cond)
                self.model = None
            return
        raw = cond
        cond = z3.simplify(cond)
        if z3.is_true(cond):
            return
        if self.pos < len(self.dec):
            d = self.dec[self.pos]
            self.pos += 1
            if d['k'] != 'a' or not (d['raw'].eq(raw) or d['cond'].eq(cond)):
                raise RuntimeError('pysym: replay divergence at assumption %d' % (self.pos - 1))
            return
        m = self._ensure_model()
        self.solver.push()
        self.solver.add(cond)
        self.dec.append({'k': 'a', 'cond': cond, 'raw': raw})
        self.pos += 1
        if not z3.is_true(m.eval(cond, model_completion=True)):
            self.model = None
            self._ensure_model()     # raises Abort when infeasible

    def choose(self, term) -> int:
        """concretise a BV term: deterministic enumerate-and-fork"""
        raw = term
        term = z3.simplify(term)
        if z3.is_bv_value(term):
            return term.as_signed_long()
        if self.pos < len(self.dec):
            d = self.dec[self.pos]
            self.pos += 1
            if d['k'] != 'c' or not (d['raw'].eq(raw) or d['term'].eq(term)):
                raise RuntimeError('pysym: replay divergence at choice %d' % (self.pos - 1))
            term = d['term']
            if d.get('pending'):
                d['pending'] = False
                self.solver.push()
                self.solver.add(term == z3.BitVecVal(d['val'], self.W))
                self.model = d['model']
            return d['val']
        self.decisions += 1
        m = self._ensure_model()
        v = m.eval(term, model_completion=True).as_signed_long()
        self.solver.push()
        self.solver.add(term == z3.BitVecVal(v, self.W))
        self.dec.append({'k': 'c', 'term': term, 'raw': raw, 'val': v, 'tried': [v], 'model': self.model})
        self.pos += 1
        return v

    # ---- obligations & postconditions --------------------------------------------------------------
    def oblige(self, cond, tag: str):
        if isinstance(cond, bool):
            if not cond:
                self.oblig.append(z3.BoolVal(False)); self.oblig_tags.append(tag)
            return
        self.oblig.append(cond)
        self.oblig_tags.append(tag)

    def require(self, post, info=None, tag: str = 'post') -> bool:
        """assert that `post` holds for every input on this path (together with all obligations so far).
        returns True if proved; otherwise records a counterexample candidate (model of the inputs)."""
        self.requires += 1
        if isinstance(post, bool):
            post = z3.BoolVal(post)
        goal = z3.And(post, *self.oblig) if self.oblig else post
        self.solver.push()
        self.solver.add(z3.Not(goal))
        r = self.check()
        ok = False
        if r == z3.unsat:
            self.unsat += 1
            ok = True
        elif r == z3.sat:
            self.sat += 1
            m = self.solver.model()
            vals = {k: m.eval(v, model_completion=True).as_signed_long() for k, v in self.inputs.items()}
            failed_ob = [t for c, t in zip(self.oblig, self.oblig_tags) if z3.is_false(m.eval(c, model_completion=True))]
            self.cex.append({'inputs': vals, 'info': info, 'tag': tag, 'failed_obligations': failed_ob})
        else:
            self.cex.append({'inputs': None, 'info': info, 'tag': tag, 'unknown': True})
        self.solver.pop()
        return ok

    def feasible(self, cond) -> bool:
        """is path-condition ∧ cond satisfiable? (for coverage witnesses)"""
        if isinstance(cond, bool):
            return cond
        self.solver.push(); self.solver.add(cond); r = self.check(); self.solver.pop()
        return r == z3.sat

    def cover(self, name: str, cond=True):
        """coverage witness: count paths on which `cond` is satisfiable"""
        if name in self.witness and self.witness[name] > 0 and not isinstance(cond, bool):
            # one witness is enough; avoid further solver work
            return
        if self.feasible(cond):
            self.witness[name] = self.witness.get(name, 0) + 1
        else:
            self.witness.setdefault(name, 0)

    def model_inputs(self):
        m = self._ensure_model()
        return {k: m.eval(v, model_completion=True).as_signed_long() for k, v in self.inputs.items()}


def explore(run, setup, *, W: int = 64, bl_max: int | None = None, max_paths: int = 200000,
            timeout_ms: int = 60000, deadline: float | None = None, engine: Engine | None = None) -> Engine:
    """Explore every feasible path of `run(eng, *setup(eng))`.

    `setup` declares inputs/assumptions (it is re-run on every path to rebuild the argument objects; it
    must be deterministic and must not fork).  `run` executes the code under test and states
    postconditions with `eng.require`.
    """
    global ENG
    eng = engine or Engine(W=W, bl_max=bl_max, timeout_ms=timeout_ms)
    prev = ENG
    ENG = eng
    real_solver = eng.solver
    try:
        first = True
        eng.solver.push()
        while True:
            if eng.paths + eng.aborted >= max_paths:
                eng.notes.append('path limit reached'); eng.unknown += 1
                break
            if deadline is not None and time.time() > deadline:
                eng.notes.append('deadline reached'); eng.unknown += 1
                break
            eng.pos = 0
            eng._aux_n = 0
            eng.oblig = []; eng.oblig_tags = []
            eng.in_setup = True
            eng.setup_replay = not first
            if not first:
                eng.solver = _NULL
            try:
                args = setup(eng)
            finally:
                eng.solver = real_solver
                eng.in_setup = False
            if first:
                first = False
                eng.model = None
                try:
                    eng._ensure_model()
                except Abort:
                    eng.notes.append('setup unsatisfiable')
                    break
                eng.base_model = eng.model
            try:
                run(eng, *args)
                eng.paths += 1
            except Abort:
                eng.aborted += 1
            except Inconclusive as ex:
                eng.unknown += 1
                eng.notes.append('inconclusive: %s' % ex)
            # backtrack: pop levels until a decision with an unexplored alternative
            while eng.dec:
                d = eng.dec[-1]
                if not d.get('pending'):
                    eng.solver.pop()      # the level pushed for this decision
                if d['k'] == 'b':
                    if d['other']:
                        d['other'] = False
                        d['taken'] = not d['taken']
                        d['model'] = d['omodel']; d['omodel'] = None
                        d['pending'] = True
                        break
                    eng.dec.pop()
                elif d['k'] == 'a':
                    eng.dec.pop()
                else:
                    # next value for a choice
                    if len(d['tried']) >= eng.choose_cap:
                        eng.notes.append('choose cap exceeded'); eng.unknown += 1
                        eng.dec.pop(); continue
                    eng.solver.push()
                    for v in d['tried']:
                        eng.solver.add(d['term'] != z3.BitVecVal(v, eng.W))
                    r = eng.check()
                    m = eng.solver.model() if r == z3.sat else None
                    eng.solver.pop()
                    if r == z3.sat:
                        nv = m.eval(d['term'], model_completion=True).as_signed_long()
                        d['val'] = nv; d['tried'].append(nv); d['model'] = m; d['pending'] = True
                        break
                    if r == z3.unknown:
                        eng.notes.append('unknown at choose')
                    eng.dec.pop()
            if not eng.dec:
                break
        eng.solver.pop()
    finally:
        ENG = prev
        eng.solver = real_solver
    return eng


class _NullSolver:
    def add(self, *a):
        pass

    def push(self):
        raise RuntimeError('solver use inside setup replay')

    pop = check = push


_NULL = _NullSolver()


# ------------------------------------------------------------------------------------------------
# SymInt

def bv(x, W: int | None = None):
    if type(x) is SymInt:
        return x.t
    if isinstance(x, bool):
        x = int(x)
    if isinstance(x, int):
        v = int.__index__(x) if type(x) is int else _raw_int(x)
        w = W or cur().W
        if not (-(1 << (w - 1)) <= v < (1 << (w - 1))) and ENG is not None:
            # a concrete constant that does not fit the vector width would silently wrap
            ENG.oblige(False, 'constant-exceeds-width')
        return z3.BitVecVal(v, w)
    raise TypeError('pysym: cannot convert %r to a bit-vector' % type(x))


def _raw_int(x):
    # an int subclass that is not SymInt (e.g. IntEnum / bool): plain value
    return int(x)


_BL_CONST: dict = {}


BL_STYLE = 'chain'


def bitlen_term(a, W, bl_max):
    """bit_length of a non-negative BV term `a` known to be < 2**bl_max"""
    if BL_STYLE == 'chain':
        key = (W, 'c')
        if key not in _BL_CONST:
            _BL_CONST[key] = [z3.BitVecVal(k, W) for k in range(W + 1)]
        K = _BL_CONST[key]
        one1 = _BL_CONST.setdefault('one1', z3.BitVecVal(1, 1))
        r = K[0]
        for i in range(min(bl_max, W - 1)):
            r = z3.If(z3.Extract(i, i, a) == one1, K[i + 1], r)
        return r
    key = W
    if key not in _BL_CONST:
        _BL_CONST[key] = {k: z3.BitVecVal(k, W) for k in [0, 1, 2, 4, 8, 16, 32, 64, 128]}
    K = _BL_CONST[key]
    zero = K[0]
    r = zero
    s = 1
    while s * 2 < bl_max + 1:
        s *= 2
    a0 = a
    while s >= 1:
        hi = z3.LShR(a, K[s])
        c = hi != zero
        r = r | z3.If(c, K[s], zero)
        a = z3.If(c, hi, a)
        s //= 2
    return z3.If(a0 != zero, r + K[1], zero)


def _ovf_add(e, a, b):
    e.oblige(z3.And(z3.BVAddNoOverflow(a, b, True), z3.BVAddNoUnderflow(a, b)), 'add-overflow')


def _ovf_sub(e, a, b):
    e.oblige(z3.And(z3.BVSubNoOverflow(a, b), z3.BVSubNoUnderflow(a, b, True)), 'sub-overflow')


def _ovf_mul(e, a, b):
    e.oblige(z3.And(z3.BVMulNoOverflow(a, b, True), z3.BVMulNoUnderflow(a, b)), 'mul-overflow')


class SymInt(int):


    def __new__(cls, t):
        o = int.__new__(cls, 0)
        o.t = t
        return o

    # -- arithmetic -------------------------------------------------------------------------
    def __add__(s, o):
        if not isinstance(o, int): return NotImplemented
        e = cur(); b = bv(o); _ovf_add(e, s.t, b); return SymInt(s.t + b)
    __radd__ = __add__

    def __sub__(s, o):
        if not isinstance(o, int): return NotImplemented
        e = cur(); b = bv(o); _ovf_sub(e, s.t, b); return SymInt(s.t - b)

    def __rsub__(s, o):
        if not isinstance(o, int): return NotImplemented
        e = cur(); a = bv(o); _ovf_sub(e, a, s.t); return SymInt(a - s.t)

    def __mul__(s, o):
        if not isinstance(o, int): return NotImplemented
        e = cur(); b = bv(o); _ovf_mul(e, s.t, b); return SymInt(s.t * b)
    __rmul__ = __mul__

    def __neg__(s):
        e = cur(); e.oblige(s.t != z3.BitVecVal(1 << (e.W - 1), e.W), 'neg-overflow'); return SymInt(-s.t)

    def __pos__(s): return s

    def __abs__(s):
        e = cur(); e.oblige(s.t != z3.BitVecVal(1 << (e.W - 1), e.W), 'abs-overflow')
        return SymInt(z3.If(s.t < 0, -s.t, s.t))

    def _shl(e, a, n):
        W = e.W
        # python: a negative count raises ValueError; treated as an obligation (a model violating it is
        # replayed concretely on the real code, which then raises)
        e.oblige(z3.ULT(n, z3.BitVecVal(W, W)), 'shl-count')
        r = a << n
        # no bits lost: arithmetic shift back recovers a
        e.oblige((r >> n) == a, 'shl-overflow')
        return SymInt(r)

    def _shr(e, a, n):
        W = e.W
        e.oblige(n >= 0, 'shr-negative-count')
        # counts >= W: python gives 0 / -1, which is what an arithmetic shift by W-1 gives
        n2 = z3.If(z3.UGE(n, z3.BitVecVal(W, W)), z3.BitVecVal(W - 1, W), n)
        return SymInt(a >> n2)

    def __lshift__(s, o):
        if not isinstance(o, int): return NotImplemented
        return SymInt._shl(cur(), s.t, bv(o))

    def __rlshift__(s, o):
        if not isinstance(o, int): return NotImplemented
        return SymInt._shl(cur(), bv(o), s.t)

    def __rshift__(s, o):
        if not isinstance(o, int): return NotImplemented
        return SymInt._shr(cur(), s.t, bv(o))

    def __rrshift__(s, o):
        if not isinstance(o, int): return NotImplemented
        return SymInt._shr(cur(), bv(o), s.t)

    def __and__(s, o):
        if not isinstance(o, int): return NotImplemented
        return SymInt(s.t & bv(o))
    __rand__ = __and__

    def __or__(s, o):
        if not isinstance(o, int): return NotImplemented
        return SymInt(s.t | bv(o))
    __ror__ = __or__

    def __xor__(s, o):
        if not isinstance(o, int): return NotImplemented
        return SymInt(s.t ^ bv(o))
    __rxor__ = __xor__

    def __invert__(s): return SymInt(~s.t)

    @staticmethod
    def _divmod(e, a, b):
        if e.branch(b == 0):
            raise ZeroDivisionError('integer division or modulo by zero')
        W = e.W
        e.oblige(z3.Not(z3.And(a == z3.BitVecVal(1 << (W - 1), W), b == z3.BitVecVal(-1, W))), 'div-overflow')
        q = a / b            # signed division truncating toward zero
        r = z3.SRem(a, b)
        adj = z3.And(r != 0, (r < 0) != (b < 0))
        return z3.If(adj, q - 1, q), z3.If(adj, r + b, r)

    def __floordiv__(s, o):
        if not isinstance(o, int): return NotImplemented
        return SymInt(SymInt._divmod(cur(), s.t, bv(o))[0])

    def __rfloordiv__(s, o):
        if not isinstance(o, int): return NotImplemented
        return SymInt(SymInt._divmod(cur(), bv(o), s.t)[0])

    def __mod__(s, o):
        if not isinstance(o, int): return NotImplemented
        return SymInt(SymInt._divmod(cur(), s.t, bv(o))[1])

    def __rmod__(s, o):
        if not isinstance(o, int): return NotImplemented
        return SymInt(SymInt._divmod(cur(), bv(o), s.t)[1])

    def __divmod__(s, o):
        if not isinstance(o, int): return NotImplemented
        q, r = SymInt._divmod(cur(), s.t, bv(o)); return SymInt(q), SymInt(r)

    def __rdivmod__(s, o):
        if not isinstance(o, int): return NotImplemented
        q, r = SymInt._divmod(cur(), bv(o), s.t); return SymInt(q), SymInt(r)

    def __pow__(s, o, mod=None):
        if mod is not None or not isinstance(o, int): return NotImplemented
        if type(o) is SymInt:
            o = cur().choose(o.t)
        if o < 0:
            raise NotImplementedError('pysym: negative power of a symbolic int')
        r = 1
        for _ in range(o):
            r = s * r
        return r

    def __rpow__(s, o, mod=None):
        if mod is not None or not isinstance(o, int): return NotImplemented
        if type(o) is int and o == 2:
            e = cur()
            if e.branch(s.t < 0):
                raise NotImplementedError('pysym: 2 ** negative')
            return SymInt._shl(e, bv(1), s.t)
        k = cur().choose(s.t)
        return o ** k

    def __truediv__(s, o):
        raise NotImplementedError('pysym: true division of a symbolic int')
    __rtruediv__ = __truediv__

    # -- comparisons: eager fork ----------------------------------------------------------------
    def __lt__(s, o):
        if not isinstance(o, int): return NotImplemented
        return cur().branch(s.t < bv(o))

    def __le__(s, o):
        if not isinstance(o, int): return NotImplemented
        return cur().branch(s.t <= bv(o))

    def __gt__(s, o):
        if not isinstance(o, int): return NotImplemented
        return cur().branch(s.t > bv(o))

    def __ge__(s, o):
        if not isinstance(o, int): return NotImplemented
        return cur().branch(s.t >= bv(o))

    def __eq__(s, o):
        if not isinstance(o, int): return NotImplemented
        return cur().branch(s.t == bv(o))

    def __ne__(s, o):
        if not isinstance(o, int): return NotImplemented
        return cur().branch(s.t != bv(o))

    def __bool__(s):
        return cur().branch(s.t != 0)

    # -- conversions --------------------------------------------------------------------------
    def concretize(s) -> int:
        return cur().choose(s.t)

    def __hash__(s):
        return hash(cur().choose(s.t))

    def __index__(s):
        return cur().choose(s.t)

    def __int__(s):
        # NB: builtin int(x) discards the subclass; modules that call int() on symbolic values get the
        # pass-through `int` of pysym.shims instead.
        return cur().choose(s.t)

    def __float__(s):
        return float(cur().choose(s.t))

    def __trunc__(s): return s
    def __floor__(s): return s
    def __ceil__(s): return s
    def __round__(s, nd=None): return s

    @property
    def numerator(s): return s

    @property
    def denominator(s): return 1

    @property
    def real(s): return s

    @property
    def imag(s): return 0

    def conjugate(s): return s

    def __repr__(s): return '<sym>'
    __str__ = __repr__

    def __format__(s, spec): return '<sym>'

    def bit_length(s):
        e = cur()
        try:
            return s._bl
        except AttributeError:
            pass
        a = z3.If(s.t < 0, -s.t, s.t)
        e.oblige(z3.ULT(a, z3.BitVecVal(1 << e.bl_max, e.W)), 'bit_length-range')
        r = s._bl = SymInt(bitlen_term(a, e.W, e.bl_max))
        return r

    def bit_count(s):
        raise NotImplementedError('pysym: bit_count')

    def to_bytes(s, *a, **k):
        return int(cur().choose(s.t)).to_bytes(*a, **k)

    def __reduce__(s):
        raise TypeError('pysym: cannot pickle a symbolic int')
