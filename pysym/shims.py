"""
Representation shims: places where CPython would read the raw C digits of an `int` subclass.
They change representation, never behaviour (see DESIGN.md §1.2).
"""
import builtins
import z3
from .core import SymInt, cur, bv


class _IntMeta(type):
    def __instancecheck__(cls, obj):
        return isinstance(obj, builtins.int)

    def __subclasscheck__(cls, sub):
        return issubclass(sub, builtins.int)

    def __call__(cls, x=0, *a, **k):
        if a or k or isinstance(x, (str, bytes, bytearray, float)):
            return builtins.int(x, *a, **k)
        if type(x) is SymInt:
            return x
        m = getattr(type(x), '__int__', None)
        if m is not None and not isinstance(x, builtins.int):
            r = m(x)
            if type(r) is SymInt:
                return r
            return builtins.int(r)
        return builtins.int(x)

    def __or__(cls, other):
        return builtins.int | other

    def __ror__(cls, other):
        return other | builtins.int

    def __eq__(cls, other):
        return other is builtins.int or other is cls

    def __hash__(cls):
        return hash(builtins.int)


class int_pass(metaclass=_IntMeta):
    """drop-in for the module-level name `int`: int(x) returns a SymInt unchanged"""
    from_bytes = builtins.int.from_bytes


_PATCHES = []
_MISSING = object()


def patch(module, name, value):
    """rebind a module-level name, remembering the old binding (restored by reset_all)"""
    _PATCHES.append((module, name, module.__dict__.get(name, _MISSING)))
    module.__dict__[name] = value


def patch_item(d, key, value):
    """rebind a dict entry (e.g. an operator table), remembering the old one"""
    _PATCHES.append((d, key, ('item', d.get(key, _MISSING))))
    d[key] = value


def patch_attr(obj, name, value):
    _PATCHES.append((obj, name, ('attr', getattr(obj, name, _MISSING))))
    setattr(obj, name, value)


def reset_all():
    while _PATCHES:
        m, name, old = _PATCHES.pop()
        if isinstance(old, tuple) and old and old[0] == 'item':
            if old[1] is _MISSING:
                m.pop(name, None)
            else:
                m[name] = old[1]
        elif isinstance(old, tuple) and old and old[0] == 'attr':
            if old[1] is _MISSING:
                try:
                    delattr(m, name)
                except AttributeError:
                    pass
            else:
                setattr(m, name, old[1])
        elif old is _MISSING:
            m.__dict__.pop(name, None)
        else:
            m.__dict__[name] = old
    try:
        from fpy2.number import globals as g, native
        g.set_current_str_converter(native.default_str_convert)
    except Exception:
        pass


def install_int_pass(*modules):
    for m in modules:
        patch(m, 'int', int_pass)


def uninstall_int_pass(*modules):
    for m in modules:
        m.__dict__.pop('int', None)


def concretize(v):
    """enumerate-and-fork concretisation of a possibly symbolic int"""
    if type(v) is SymInt:
        return cur().choose(v.t)
    return v


def stub_formatting():
    """number -> str conversion gets an empty body (error messages interpolate operands)"""
    from fpy2.number import globals as g
    g.set_current_str_converter(lambda x: '<number>')


# ---- fractions.Fraction with symbolic dyadic content ---------------------------------------------------------
import fractions as _fr
import z3 as _z3


def _ctz_term(a, W, limit):
    """number of trailing zero bits of a (a != 0), as a BV term"""
    r = _z3.BitVecVal(0, W)
    for i in range(limit, -1, -1):
        r = _z3.If(_z3.Extract(i, i, a) == 1, _z3.BitVecVal(i, W), r)
    return r


def make_dyadic(n, d=None):
    """a real fractions.Fraction object n/d in lowest terms, where d is a power of two; n, d may be SymInt"""
    e = cur()
    f = object.__new__(_fr.Fraction)
    if d is None:
        f._numerator = n; f._denominator = 1
        return f
    W = e.W
    nt = bv(n); dt = bv(d)
    e.oblige(_z3.And(dt > 0, (dt & (dt - 1)) == 0), 'fraction-denominator-power-of-two')
    lim = min(e.bl_max, W - 2)
    k = _ctz_term(dt, W, lim)          # d = 2^k
    tz = _z3.If(nt == 0, k, _ctz_term(nt, W, lim))
    t = _z3.If(_z3.ULT(tz, k), tz, k)
    f._numerator = SymInt(nt >> t)      # arithmetic shift keeps the sign; exact (t <= ctz(n))
    f._denominator = SymInt(_z3.LShR(dt, t))
    return f


class _FracMeta(type):
    def __instancecheck__(cls, obj):
        return isinstance(obj, _fr.Fraction)

    def __subclasscheck__(cls, sub):
        return issubclass(sub, _fr.Fraction)

    def __call__(cls, numerator=0, denominator=None, **k):
        if type(numerator) is SymInt or type(denominator) is SymInt:
            return make_dyadic(numerator, denominator)
        if isinstance(numerator, _fr.Fraction) and denominator is None:
            return numerator
        return _fr.Fraction(numerator, denominator, **k)

    def __or__(cls, other):
        return _fr.Fraction | other

    def __ror__(cls, other):
        return other | _fr.Fraction


class frac_pass(metaclass=_FracMeta):
    """drop-in for the module-level name `Fraction`"""


def install_frac_pass(*modules):
    for m in modules:
        patch(m, 'Fraction', frac_pass)


class HashRecorder:
    """stand-in for the module-level `hash`: records the key handed to hash() (uninterpreted)"""
    def __init__(self):
        self.keys = []

    def __call__(self, obj):
        if isinstance(obj, _fr.Fraction):
            self.keys.append(('frac', obj._numerator, obj._denominator))
        elif isinstance(obj, builtins.int):
            self.keys.append(('int', obj))
        else:
            return builtins.hash(obj)
        return 0


class _RangeMeta(type):
    def __instancecheck__(cls, obj):
        return isinstance(obj, builtins.range)

    def __call__(cls, *args):
        return builtins.range(*[concretize(a) for a in args])


class range_pass(metaclass=_RangeMeta):
    """drop-in for the module-level name `range`: symbolic bounds are concretised by enumerate-and-fork
    (the builtin would read the raw digits of an int subclass)"""


def install_range_pass(*modules):
    for m in modules:
        patch(m, 'range', range_pass)


class _IntConcMeta(_IntMeta):
    def __call__(cls, x=0, *a, **k):
        r = _IntMeta.__call__(int_pass, x, *a, **k)
        return concretize(r)


class int_concretize(metaclass=_IntConcMeta):
    """drop-in for the module-level name `int` where a genuine Python integer is needed afterwards (list index,
    range bound, context constructor parameter): a symbolic result is concretised by enumerate-and-fork"""
    from_bytes = builtins.int.from_bytes


def install_int_concretize(*modules):
    for m in modules:
        patch(m, 'int', int_concretize)


def install_concretizing_int_methods():
    """RealFloat.__int__ / Float.__int__ return genuine Python ints: a symbolic value is concretised by
    enumerate-and-fork (used where the result becomes a list index, a range bound or a context parameter)"""
    from fpy2 import RealFloat, Float
    ri, fi = RealFloat.__int__, Float.__int__

    def rf_int(self):
        return concretize(ri(self))

    def f_int(self):
        return concretize(fi(self))
    patch_attr(RealFloat, '__int__', rf_int)
    patch_attr(Float, '__int__', f_int)


def install_sign_lift():
    """`False != <symbolic sign>` is decided by bool.__ne__ (CPython tries the left operand first unless the right one is a
    subclass of ITS type, and nothing can subclass bool), which reads the raw digits of the int subclass.  RealFloat.compare is
    the place where the repository compares the sign of one value with the sign of another: when the left value has a concrete
    sign and the right one a symbolic sign, the left value is re-represented with its sign as a constant SymInt (same value)."""
    from fpy2 import RealFloat
    orig = RealFloat.compare

    def compare(self, other):
        if isinstance(other, RealFloat) and type(other._s) is SymInt and type(self._s) is not SymInt:
            lifted = object.__new__(RealFloat)
            lifted._s = SymInt(z3.BitVecVal(1 if self._s else 0, cur().W))
            lifted._exp = self._exp; lifted._c = self._c; lifted._flags = self._flags
            self = lifted
        return orig(self, other)
    patch_attr(RealFloat, 'compare', compare)
