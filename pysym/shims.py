"""
Representation shims: places where CPython would read the raw C digits of an `int` subclass.
They change representation, never behaviour (see DESIGN.md §1.2).
"""
import builtins
import z3
from .core import SymInt, cur, bv


class _IntMeta(type):
    def __instancecheck__(cls, obj):
        return isinstance(obj, builtins.int)

    def __subclasscheck__(cls, sub):
        return issubclass(sub, builtins.int)

    def __call__(cls, x=0, *a, **k):
        if type(x) is SymInt and not a and not k:
            return x
        r = builtins.int(x, *a, **k)
        return r

    def __or__(cls, other):
        return builtins.int | other

    def __ror__(cls, other):
        return other | builtins.int

    def __eq__(cls, other):
        return other is builtins.int or other is cls

    def __hash__(cls):
        return hash(builtins.int)


class int_pass(metaclass=_IntMeta):
    """drop-in for the module-level name `int`: int(x) returns a SymInt unchanged"""
    from_bytes = builtins.int.from_bytes


def install_int_pass(*modules):
    for m in modules:
        m.__dict__['int'] = int_pass


def uninstall_int_pass(*modules):
    for m in modules:
        m.__dict__.pop('int', None)


def concretize(v):
    """enumerate-and-fork concretisation of a possibly symbolic int"""
    if type(v) is SymInt:
        return cur().choose(v.t)
    return v


def stub_formatting():
    """number -> str conversion gets an empty body (error messages interpolate operands)"""
    from fpy2.number import globals as g
    g.set_current_str_converter(lambda x: '<number>')
