"""
Operation summaries (DESIGN.md §1.4): `ops.<op>(x, y, ctx)` as one closed term — exact operation on scaled integers
followed by the rounding specification of ctx — so that a program with k rounded operations does not fork ~30^k ways.

A summary is used only when an operand carries a symbolic field; concrete operands go to the real operation.
The summaries are *validated against the real operations* on the whole (finite) operand domain of the run by the
harness (`validate`), and property C02 proves the same equivalence symbolically on the same tree.
"""
from fractions import Fraction
import z3
from .core import SymInt, cur, bv
from spec.rounding import round_detail
from spec import dsl


def _is_sym(x):
    from fpy2 import Float
    return isinstance(x, Float) and (type(x.c) is SymInt or type(x.exp) is SymInt)


def _ctx_params(ctx):
    """(p, n, rm) of a float-like context without overflow handling, or None for REAL"""
    import fpy2 as fp
    from fpy2.number.context.real import RealContext
    if isinstance(ctx, RealContext):
        return None
    name = type(ctx).__name__
    if name == 'MPFloatContext':
        return ctx.pmax, None, ctx.rm.name
    if name == 'MPSFloatContext':
        return ctx.pmax, ctx.nmin, ctx.rm.name
    raise NotImplementedError('summary: context %s' % name)


def _as_float(x):
    from fpy2 import Float
    if isinstance(x, Float):
        return x
    if isinstance(x, Fraction):
        return Float.from_rational(x)
    if isinstance(x, int):
        return Float.from_int(x)
    raise NotImplementedError('summary operand %r' % type(x))


def _sbool(x):
    """sign of a Float as a z3 Bool (signs may be real bools or SymInt 0/1)"""
    s = x.s
    if type(s) is SymInt:
        return s.t != 0
    return z3.BoolVal(bool(s))


def _signed(x, exp):
    """signed significand of x at exponent `exp` (<= x.exp) as a BV term of engine width"""
    e = cur()
    c = bv(x.c)
    sh = x.exp - exp
    if sh:
        r = c << sh
        e.oblige(z3.LShR(r, sh) == c, 'summary-shift-overflow')
        c = r
    e.oblige(c >= 0, 'summary-sign-overflow')
    return z3.If(_sbool(x), -c, c)


def _mk_float(sign_term, exp, mag_term, ctx):
    """build a Float without running __init__ (no forks): sign as SymInt 0/1, significand as SymInt"""
    from fpy2 import Float, RealFloat
    from fpy2.number.number.flags import Flags
    W = cur().W
    r = object.__new__(RealFloat)
    st = z3.simplify(z3.If(sign_term, z3.BitVecVal(1, W), z3.BitVecVal(0, W)))
    r._s = bool(st.as_long()) if z3.is_bv_value(st) else SymInt(st)
    r._exp = exp
    mt = z3.simplify(mag_term)
    r._c = mt.as_long() if z3.is_bv_value(mt) else SymInt(mt)
    r._flags = Flags()
    f = object.__new__(Float)
    f._real = r; f._isinf = False; f._isnan = False; f._ctx = ctx
    return f


def _finish(m, exp, ctx, zero_neg):
    """m: exact signed significand (BV term) at exponent exp; zero_neg: z3 Bool, sign of an exact zero result.
    Round once under ctx and build the Float — no forks."""
    e = cur()
    params = _ctx_params(ctx)
    neg = m < 0
    mag = z3.If(neg, -m, m)
    if params is None:
        R = mag
        rneg = z3.If(m == 0, zero_neg, neg)
    else:
        p, n, rm = params
        K = -exp
        # directed modes depend on the sign: build both and select
        if rm in ('RTP', 'RTN'):
            Rp = round_detail(mag, False, p, n, rm, K)['R']; Rn = round_detail(mag, True, p, n, rm, K)['R']
            R = z3.If(neg, Rn, Rp)
        else:
            R = round_detail(mag, False, p, n, rm, K)['R']
        rneg = z3.If(m == 0, zero_neg, neg)
    return _mk_float(rneg, exp, R, ctx)


def make(real_ops):
    """returns dict name -> summary function wrapping the real operation"""
    from fpy2 import Float

    def usable(*xs):
        if not any(_is_sym(x) or (isinstance(x, Float) and type(x.s) is SymInt) for x in xs):
            return False
        for x in xs:
            if isinstance(x, Float) and x.is_nar():
                raise NotImplementedError('summary: special operand next to a symbolic one')
            if isinstance(x, Float) and type(x.exp) is SymInt:
                raise NotImplementedError('summary: symbolic exponent')
        return True

    def add(x, y, ctx=None):
        if not usable(x, y):
            return real_ops['add'](x, y, ctx=ctx)
        x, y = _as_float(x), _as_float(y)
        ex = min(x.exp, y.exp)
        a, b = _signed(x, ex), _signed(y, ex)
        cur().oblige(z3.And(z3.BVAddNoOverflow(a, b, True), z3.BVAddNoUnderflow(a, b)), 'summary-add-overflow')
        return _finish(a + b, ex, ctx, z3.And(_sbool(x), _sbool(y)))

    def sub(x, y, ctx=None):
        if not usable(x, y):
            return real_ops['sub'](x, y, ctx=ctx)
        x, y = _as_float(x), _as_float(y)
        ex = min(x.exp, y.exp)
        a, b = _signed(x, ex), _signed(y, ex)
        cur().oblige(z3.And(z3.BVSubNoOverflow(a, b), z3.BVSubNoUnderflow(a, b, True)), 'summary-sub-overflow')
        return _finish(a - b, ex, ctx, z3.And(_sbool(x), z3.Not(_sbool(y))))

    def mul(x, y, ctx=None):
        if not usable(x, y):
            return real_ops['mul'](x, y, ctx=ctx)
        x, y = _as_float(x), _as_float(y)
        a, b = _signed(x, x.exp), _signed(y, y.exp)
        cur().oblige(z3.And(z3.BVMulNoOverflow(a, b, True), z3.BVMulNoUnderflow(a, b)), 'summary-mul-overflow')
        return _finish(a * b, x.exp + y.exp, ctx, z3.Xor(_sbool(x), _sbool(y)))

    def fma(x, y, z, ctx=None):
        if not usable(x, y, z):
            return real_ops['fma'](x, y, z, ctx=ctx)
        x, y, z = _as_float(x), _as_float(y), _as_float(z)
        ep = x.exp + y.exp
        ex = min(ep, z.exp)
        a, b = _signed(x, x.exp), _signed(y, y.exp)
        cur().oblige(z3.And(z3.BVMulNoOverflow(a, b, True), z3.BVMulNoUnderflow(a, b)), 'summary-mul-overflow')
        mp = a * b
        if ep != ex:
            sh = ep - ex
            r = mp << sh
            cur().oblige((r >> sh) == mp, 'summary-shift-overflow')
            mp = r
        zz = _signed(z, ex)
        cur().oblige(z3.And(z3.BVAddNoOverflow(mp, zz, True), z3.BVAddNoUnderflow(mp, zz)), 'summary-add-overflow')
        return _finish(mp + zz, ex, ctx, z3.And(z3.Xor(_sbool(x), _sbool(y)), _sbool(z)))

    def neg(x, ctx=None):
        if not usable(x):
            return real_ops['neg'](x, ctx=ctx)
        x = _as_float(x)
        return _finish(-_signed(x, x.exp), x.exp, ctx, z3.Not(_sbool(x)))

    def fabs(x, ctx=None):
        if not usable(x):
            return real_ops['fabs'](x, ctx=ctx)
        x = _as_float(x)
        m = _signed(x, x.exp)
        return _finish(z3.If(m < 0, -m, m), x.exp, ctx, z3.BoolVal(False))
    return dict(add=add, sub=sub, mul=mul, fma=fma, neg=neg, fabs=fabs)


def install():
    """rebind the interpreter's operator tables (harness-side; restored by shims.reset_all)"""
    from . import shims
    import fpy2.ops as ops
    from fpy2.interpret import byte
    from fpy2.ast import fpyast as A
    real = dict(add=ops.add, sub=ops.sub, mul=ops.mul, fma=ops.fma, neg=ops.neg, fabs=ops.fabs)
    S = make(real)
    shims.patch_item(byte._BINARY_TABLE, A.Add, S['add'])
    shims.patch_item(byte._BINARY_TABLE, A.Sub, S['sub'])
    shims.patch_item(byte._BINARY_TABLE, A.Mul, S['mul'])
    shims.patch_item(byte._TERNARY_TABLE, A.Fma, S['fma'])
    shims.patch_item(byte._UNARY_TABLE, A.Neg, S['neg'])
    shims.patch_item(byte._UNARY_TABLE, A.Abs, S['fabs'])
    return S, real
