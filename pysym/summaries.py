"""
Operation summaries (DESIGN.md §1.4): `ops.<op>(x, y, ctx)` as one closed term — exact operation on scaled integers
followed by the rounding specification of ctx — so that a program with k rounded operations does not fork ~30^k ways.

A summary is used only when an operand carries a symbolic field; concrete operands go to the real operation.
The summaries are *validated against the real operations* on the whole (finite) operand domain of the run by the
harness (`validate`), and property C02 proves the same equivalence symbolically on the same tree.
"""
from fractions import Fraction
import z3
from .core import SymInt, cur, bv
from spec.rounding import round_detail
from spec import dsl


def _is_sym(x):
    from fpy2 import Float
    return isinstance(x, Float) and (type(x.c) is SymInt or type(x.exp) is SymInt)


def _ctx_params(ctx):
    """(p, n, rm, has_neg_zero, max magnitude as (c, exp) or None) of a context the summaries model, or None for REAL"""
    from fpy2.number.context.real import RealContext
    if isinstance(ctx, RealContext):
        return None
    name = type(ctx).__name__
    if getattr(ctx, 'num_randbits', 0) != 0:
        raise NotImplementedError('summary: stochastic context')
    if name == 'MPFloatContext':
        return ctx.pmax, None, ctx.rm.name, True, None
    if name == 'MPSFloatContext':
        return ctx.pmax, ctx.nmin, ctx.rm.name, True, None
    if name == 'MPFixedContext':
        return None, ctx.nmin, ctx.rm.name, bool(ctx.enable_neg_zero), None
    if name in ('IEEEContext',):
        mv = ctx.maxval()
        return ctx.pmax, ctx.nmin, ctx.rm.name, True, (int(mv.c), int(mv.exp))
    if name == 'FixedContext' and ctx.signed:
        # two's complement: no negative zero; magnitudes up to the positive maximum are modelled (the one extra negative value is
        # outside the summary: an obligation fails there)
        mv = ctx.maxval()
        return None, ctx.nmin, ctx.rm.name, False, (int(mv.c), int(mv.exp))
    raise NotImplementedError('summary: context %s' % name)


def _as_float(x):
    from fpy2 import Float
    if isinstance(x, Float):
        c = x.c
        if type(c) is not SymInt and type(x.exp) is not SymInt and not x.is_nar() and c != 0 and c & 1 == 0:
            # concrete operand with trailing zeros (e.g. a converted python float): keep the significand small
            tz = (c & -c).bit_length() - 1
            return Float(bool(x.s) if type(x.s) is not SymInt else x.s, x.exp + tz, c >> tz)
        return x
    if isinstance(x, Fraction):
        return Float.from_rational(x)
    if isinstance(x, int):
        return Float.from_int(x)
    raise NotImplementedError('summary operand %r' % type(x))


def _sbool(x):
    """sign of a Float as a z3 Bool (signs may be real bools or SymInt 0/1)"""
    s = x.s
    if type(s) is SymInt:
        return s.t != 0
    return z3.BoolVal(bool(s))


def _ub(x, exp):
    """static upper bound on the bit length of |x| in units of 2^exp, or None when unknown"""
    c = x.c
    if type(c) is SymInt:
        b = getattr(c, 'ub', None)
        if b is None:
            return None
    else:
        b = int(c).bit_length()
    return b + (x.exp - exp)


def _signed(x, exp):
    """signed significand of x at exponent `exp` (<= x.exp) as a BV term of engine width"""
    e = cur()
    c = bv(x.c)
    sh = x.exp - exp
    ub = _ub(x, exp)
    safe = ub is not None and ub < e.W - 2
    if sh:
        r = c << sh
        if not safe:
            e.oblige(z3.LShR(r, sh) == c, 'summary-shift-overflow')
        c = r
    if not safe:
        e.oblige(c >= 0, 'summary-sign-overflow')
    return z3.If(_sbool(x), -c, c)


def _fits(*ubs, extra=1):
    """do static bounds prove that a sum of terms with these bit lengths fits the engine width?"""
    if any(u is None for u in ubs):
        return False
    return max(ubs) + extra < cur().W - 2


_SIMP = {}


def _simp(t):
    """z3.simplify, memoised on the identity of the (hash-consed) input term: the simplifier orders the arguments of commutative
    operators by node id, so simplifying the same term twice can give two structurally different (equal-valued) results, and two
    executions that build the same value would then need the solver to see it"""
    k = t.get_id()
    hit = _SIMP.get(k)
    if hit is not None and hit[0].eq(t):
        return hit[1]
    r = z3.simplify(t)
    if len(_SIMP) > 200000:
        _SIMP.clear()
    _SIMP[k] = (t, r)
    return r


_RND = {}


def _round_R(mag, neg, p, n, rm, K):
    """round_detail(...)['R'], memoised on the identity of the (hash-consed) magnitude term: paths re-executed by the engine and
    programs run side by side build the same operand terms again and again; the term built for them is the same"""
    k = (mag.get_id(), neg, p, n, rm, K)
    hit = _RND.get(k)
    if hit is not None and hit[0].eq(mag):
        return hit[1]
    r = round_detail(mag, neg, p, n, rm, K)['R']
    if len(_RND) > 50000:
        _RND.clear()
    _RND[k] = (mag, r)
    return r


def _mk_float(sign_term, exp, mag_term, ctx, ub=None):
    """build a Float without running __init__ (no forks): sign as SymInt 0/1, significand as SymInt
    (`ub`: static bound on the significand's bit length, used to discharge overflow obligations without the solver)"""
    from fpy2 import Float, RealFloat
    from fpy2.number.number.flags import Flags
    W = cur().W
    r = object.__new__(RealFloat)
    st = _simp(z3.If(sign_term, z3.BitVecVal(1, W), z3.BitVecVal(0, W)))
    r._s = bool(st.as_long()) if z3.is_bv_value(st) else SymInt(st)
    r._exp = exp
    mt = _simp(mag_term)
    r._c = mt.as_long() if z3.is_bv_value(mt) else SymInt(mt)
    if type(r._c) is SymInt and ub is not None:
        r._c.ub = ub
    r._flags = Flags()
    f = object.__new__(Float)
    f._real = r; f._isinf = False; f._isnan = False; f._ctx = ctx
    return f


def _finish(m, exp, ctx, zero_neg, ub=None):
    """m: exact signed significand (BV term) at exponent exp; zero_neg: z3 Bool, sign of an exact zero result.
    Round once under ctx and build the Float — no forks."""
    e = cur()
    params = _ctx_params(ctx)
    neg = m < 0
    mag = z3.If(neg, -m, m)
    if params is None:
        R = mag
        rneg = z3.If(m == 0, zero_neg, neg)
    else:
        p, n, rm, has_nz, maxv = params
        K = -exp
        if n is not None and n + 1 + K < 0:
            # the value's own scale is coarser than the context's finest digit: nothing below position n can be set
            n_eff = -K - 1
        else:
            n_eff = n
        # the rounding is the identity when static bounds show that the exact result already is a member: its significand has at
        # most p digits (bit length <= ub <= p) and all of them lie above the least digit position n of the format
        if ub is not None and (p is None or ub <= p) and (n_eff is None or exp > n_eff):
            R = mag
        # directed modes depend on the sign: build both and select
        elif rm in ('RTP', 'RTN'):
            Rp = _round_R(mag, False, p, n_eff, rm, K); Rn = _round_R(mag, True, p, n_eff, rm, K)
            R = z3.If(neg, Rn, Rp)
        else:
            R = _round_R(mag, False, p, n_eff, rm, K)
        rneg = z3.If(m == 0, zero_neg, neg)
        if not has_nz:
            rneg = z3.And(rneg, R != 0)
        if maxv is not None:
            mc, me = maxv
            sh = me - exp
            if sh < e.W - 2:
                lim = mc << sh if sh >= 0 else mc >> (-sh)
                if lim < (1 << (e.W - 2)) and not (ub is not None and (1 << (ub + 1)) <= lim):
                    # (when the static bound on the result's bit length already shows R <= lim there is nothing to discharge)
                    e.oblige(R <= lim, 'summary-overflow-not-modelled')
    return _mk_float(rneg, exp, R, ctx, None if ub is None else ub + 1)


def make(real_ops):
    """returns dict name -> summary function wrapping the real operation"""
    from fpy2 import Float

    def usable(*xs):
        if not any(_is_sym(x) or (isinstance(x, Float) and type(x.s) is SymInt) for x in xs):
            return False
        for x in xs:
            if isinstance(x, Float) and x.is_nar():
                raise NotImplementedError('summary: special operand next to a symbolic one')
            if isinstance(x, Float) and type(x.exp) is SymInt:
                raise NotImplementedError('summary: symbolic exponent')
        return True

    def add(x, y, ctx=None):
        if not usable(x, y):
            return real_ops['add'](x, y, ctx=ctx)
        x, y = _as_float(x), _as_float(y)
        ex = min(x.exp, y.exp)
        a, b = _signed(x, ex), _signed(y, ex)
        ua, ub_ = _ub(x, ex), _ub(y, ex)
        ok = _fits(ua, ub_)
        if not ok:
            cur().oblige(z3.And(z3.BVAddNoOverflow(a, b, True), z3.BVAddNoUnderflow(a, b)), 'summary-add-overflow')
        return _finish(a + b, ex, ctx, z3.And(_sbool(x), _sbool(y)), (max(ua, ub_) + 1) if ok else None)

    def sub(x, y, ctx=None):
        if not usable(x, y):
            return real_ops['sub'](x, y, ctx=ctx)
        x, y = _as_float(x), _as_float(y)
        ex = min(x.exp, y.exp)
        a, b = _signed(x, ex), _signed(y, ex)
        ua, ub_ = _ub(x, ex), _ub(y, ex)
        ok = _fits(ua, ub_)
        if not ok:
            cur().oblige(z3.And(z3.BVSubNoOverflow(a, b), z3.BVSubNoUnderflow(a, b, True)), 'summary-sub-overflow')
        return _finish(a - b, ex, ctx, z3.And(_sbool(x), z3.Not(_sbool(y))), (max(ua, ub_) + 1) if ok else None)

    def mul(x, y, ctx=None):
        if not usable(x, y):
            return real_ops['mul'](x, y, ctx=ctx)
        x, y = _as_float(x), _as_float(y)
        a, b = _signed(x, x.exp), _signed(y, y.exp)
        ua, ub_ = _ub(x, x.exp), _ub(y, y.exp)
        ok = ua is not None and ub_ is not None and ua + ub_ < cur().W - 2
        if not ok:
            cur().oblige(z3.And(z3.BVMulNoOverflow(a, b, True), z3.BVMulNoUnderflow(a, b)), 'summary-mul-overflow')
        return _finish(a * b, x.exp + y.exp, ctx, z3.Xor(_sbool(x), _sbool(y)), (ua + ub_) if ok else None)

    def fma(x, y, z, ctx=None):
        if not usable(x, y, z):
            return real_ops['fma'](x, y, z, ctx=ctx)
        x, y, z = _as_float(x), _as_float(y), _as_float(z)
        ep = x.exp + y.exp
        ex = min(ep, z.exp)
        a, b = _signed(x, x.exp), _signed(y, y.exp)
        ua, ub_ = _ub(x, x.exp), _ub(y, y.exp)
        up = (ua + ub_) if (ua is not None and ub_ is not None) else None        # bits of the product at exponent ep
        if up is None or up >= cur().W - 2:
            cur().oblige(z3.And(z3.BVMulNoOverflow(a, b, True), z3.BVMulNoUnderflow(a, b)), 'summary-mul-overflow')
            up = None
        mp = a * b
        if ep != ex:
            sh = ep - ex
            r = mp << sh
            if up is None or up + sh >= cur().W - 2:
                cur().oblige((r >> sh) == mp, 'summary-shift-overflow')
                up = None
            else:
                up = up + sh
            mp = r
        zz = _signed(z, ex)
        uz = _ub(z, ex)
        ok = _fits(up, uz)
        if not ok:
            cur().oblige(z3.And(z3.BVAddNoOverflow(mp, zz, True), z3.BVAddNoUnderflow(mp, zz)), 'summary-add-overflow')
        return _finish(mp + zz, ex, ctx, z3.And(z3.Xor(_sbool(x), _sbool(y)), _sbool(z)), (max(up, uz) + 1) if ok else None)

    def neg(x, ctx=None):
        if not usable(x):
            return real_ops['neg'](x, ctx=ctx)
        x = _as_float(x)
        return _finish(-_signed(x, x.exp), x.exp, ctx, z3.Not(_sbool(x)), _ub(x, x.exp))

    def fabs(x, ctx=None):
        if not usable(x):
            return real_ops['fabs'](x, ctx=ctx)
        x = _as_float(x)
        m = _signed(x, x.exp)
        return _finish(z3.If(m < 0, -m, m), x.exp, ctx, z3.BoolVal(False), _ub(x, x.exp))
    def round_(x, ctx=None):
        if not usable(x):
            return real_ops['round'](x, ctx=ctx)
        x = _as_float(x)
        return _finish(_signed(x, x.exp), x.exp, ctx, _sbool(x), _ub(x, x.exp))
    return dict(add=add, sub=sub, mul=mul, fma=fma, neg=neg, fabs=fabs, round=round_)


def install(patch_ops_module=True):
    """rebind the interpreter's operator tables (and the `fpy2.ops` functions the interpreter helpers call directly);
    harness-side, restored by shims.reset_all"""
    from . import shims
    import fpy2.ops as ops
    from fpy2.interpret import byte
    from fpy2.ast import fpyast as A
    real = dict(add=ops.add, sub=ops.sub, mul=ops.mul, fma=ops.fma, neg=ops.neg, fabs=ops.fabs, round=ops.round)
    S = make(real)
    shims.patch_item(byte._BINARY_TABLE, A.Add, S['add'])
    shims.patch_item(byte._BINARY_TABLE, A.Sub, S['sub'])
    shims.patch_item(byte._BINARY_TABLE, A.Mul, S['mul'])
    shims.patch_item(byte._TERNARY_TABLE, A.Fma, S['fma'])
    shims.patch_item(byte._UNARY_TABLE, A.Neg, S['neg'])
    shims.patch_item(byte._UNARY_TABLE, A.Abs, S['fabs'])
    shims.patch_item(byte._UNARY_TABLE, A.Round, S['round'])
    if patch_ops_module:
        for k, name in (('add', 'add'), ('sub', 'sub'), ('mul', 'mul'), ('fma', 'fma'), ('neg', 'neg'), ('fabs', 'fabs'), ('round', 'round')):
            shims.patch(ops, name, S[k])
    return S, real
