"""Replay counterexample cases against the unpatched repository code (no pysym, no stubs, no summaries)."""
import importlib
import json
import sys
import traceback
import warnings


def main(argv=None):
    argv = argv or sys.argv[1:]
    warnings.simplefilter('ignore')
    pid = argv[0].upper()
    mod = importlib.import_module('harness.' + pid.lower() + '_replay')
    if argv[1] == '--batch':
        cases = json.load(open(argv[2]))
        out = []
        for c in cases:
            try:
                out.append(mod.replay(c))
            except Exception as ex:
                out.append({'violates': None, 'error': ''.join(traceback.format_exception(type(ex), ex, ex.__traceback__))[-1500:]})
        print(json.dumps(out, default=str))
        return 0
    data = json.load(open(argv[1]))
    case = data.get('case', data)
    v = mod.replay(case)
    print(json.dumps(v, indent=1, default=str))
    if v.get('violates'):
        print('VIOLATION property=%s replay=%s' % (pid, argv[1]))
        return 1
    return 0


if __name__ == '__main__':
    sys.exit(main())
