"""
Check driver: runs a property harness (tasks in parallel worker processes), replays every solver
counterexample on the unpatched repository code in a fresh interpreter, applies the known-findings list,
writes the evidence file and sets the exit code.

exit 0  property held on everything explored (KNOWN-FINDING lines for listed findings)
exit 1  a reproduced violation not listed in known_findings.txt  (VIOLATION line)
exit 2  harness error / inconclusive (timeout, unknown, failed obligation, missing witness,
        non-reproducing model).  Never a pass.
"""
from __future__ import annotations

import argparse
import hashlib
import importlib
import json
import multiprocessing as mp
import os
import subprocess
import sys
import time
import traceback

ROOT = os.path.dirname(os.path.dirname(os.path.abspath(__file__)))
KNOWN = os.path.join(ROOT, 'known_findings.txt')
OUT = os.environ.get('VERIF_OUT_DIR') or ROOT      # evidence/ and replays/ go here (redirected only when trying seeded changes)


def load_known(pid):
    out = []
    if os.path.exists(KNOWN):
        for line in open(KNOWN):
            line = line.strip()
            if not line.startswith('finding:'):
                continue
            body = line[len('finding:'):].strip()
            head, _, desc = body.partition('::')
            kv = dict(tok.split('=', 1) for tok in head.split() if '=' in tok)
            if kv.get('property') == pid:
                out.append({'key': kv.get('key'), 'desc': desc.strip()})
    return out


def _worker(args):
    pid, task = args
    t0 = time.time()
    if os.environ.get('VERIF_VERBOSE'):
        print('start %s (worker %d)' % (task.get('name'), os.getpid()), file=sys.stderr, flush=True)
    try:
        mod = importlib.import_module('harness.' + pid.lower())
        res = mod.run_task(task)
        res.setdefault('error', None)
    except BaseException as ex:  # noqa
        res = {'error': ''.join(traceback.format_exception(type(ex), ex, ex.__traceback__))[-4000:]}
    finally:
        if 'pysym.shims' in sys.modules:
            sys.modules['pysym.shims'].reset_all()
    res['task'] = task
    res['wall_s'] = round(time.time() - t0, 3)
    if os.environ.get('VERIF_VERBOSE'):
        print('done %s %.1fs' % (task.get('name'), res['wall_s']), file=sys.stderr, flush=True)
    try:
        res = json.loads(json.dumps(res, default=lambda o: '<%s>' % type(o).__name__))
    except Exception as ex:  # noqa
        res = {'error': 'unserialisable task result: %r' % ex, 'task': task, 'wall_s': res.get('wall_s', 0)}
    return res


def src_hash(paths):
    h = hashlib.sha256()
    for p in sorted(paths):
        try:
            h.update(open(p, 'rb').read())
        except OSError:
            h.update(b'missing:' + p.encode())
    return h.hexdigest()[:16]


def run_replays(pid, cases, timeout=600):
    """replay cases on the unpatched code in a fresh interpreter; returns list of verdict dicts"""
    if not cases:
        return []
    tmp = os.path.join(OUT, 'replays', pid, '_batch_%d.json' % os.getpid())
    os.makedirs(os.path.dirname(tmp), exist_ok=True)
    json.dump(cases, open(tmp, 'w'))
    try:
        p = subprocess.run([sys.executable, '-m', 'vf.replay', pid, '--batch', tmp], cwd=ROOT,
                           capture_output=True, text=True, timeout=timeout)
        out = p.stdout.strip().splitlines()
        if p.returncode != 0 or not out:
            return [{'violates': None, 'error': (p.stderr or p.stdout)[-2000:]} for _ in cases]
        return json.loads(out[-1])
    except subprocess.TimeoutExpired:
        return [{'violates': None, 'error': 'replay timeout'} for _ in cases]
    finally:
        try:
            os.remove(tmp)
        except OSError:
            pass


def main(argv=None):
    ap = argparse.ArgumentParser()
    ap.add_argument('pid')
    ap.add_argument('--tier', default=os.environ.get('VERIF_TIER', 'quick'))
    ap.add_argument('--jobs', type=int, default=int(os.environ.get('VERIF_JOBS', '0')) or (os.cpu_count() or 4))
    ap.add_argument('--only', default=None, help='substring filter on task names (debugging)')
    ap.add_argument('--replay', default=None)
    a = ap.parse_args(argv)
    pid = a.pid.upper()
    if a.replay:
        from . import replay as R
        return R.main([pid, a.replay])
    tier = a.tier if a.tier in ('quick', 'thorough') else 'quick'
    seed = int(os.environ.get('VERIF_SEED', '0') or 0)
    t0 = time.time()
    mod = importlib.import_module('harness.' + pid.lower())
    tasks = mod.tasks(tier, seed)
    if a.only:
        tasks = [t for t in tasks if a.only in t.get('name', '')]
    for t in tasks:
        t['tier'] = tier
    # longest-first scheduling when the harness gives a cost hint
    tasks.sort(key=lambda t: -t.get('cost', 0))
    budget = getattr(mod, 'BUDGET_S', {}).get(tier, 1500)
    results = []
    ctx = mp.get_context('spawn')
    os.environ.setdefault('PYTHONWARNINGS', 'ignore')
    with ctx.Pool(min(a.jobs, max(1, len(tasks)))) as pool:
        it = pool.imap_unordered(_worker, [(pid, t) for t in tasks], chunksize=1)
        deadline = t0 + budget
        pending = len(tasks)
        timed_out = False
        while pending:
            try:
                r = it.next(timeout=max(1.0, deadline - time.time()))
            except mp.TimeoutError:
                timed_out = True
                pool.terminate()
                break
            results.append(r)
            pending -= 1
    # ---- aggregate -----------------------------------------------------------------
    agg = dict(paths=0, decisions=0, queries=0, unsat=0, sat=0, unknown=0, solve_s=0.0, requires=0, aborted=0)
    witness = {}
    cex = []
    errors = []
    notes = []
    samples = []
    extra = {}
    for r in results:
        if r.get('error'):
            errors.append({'task': r['task'].get('name'), 'error': r['error']})
            continue
        for k in agg:
            agg[k] += r.get(k, 0)
        for k, v in r.get('witness', {}).items():
            witness[k] = witness.get(k, 0) + v
        for c in r.get('cex', []):
            c['task'] = r['task'].get('name')
            cex.append(c)
        for n in r.get('notes', []):
            notes.append('%s: %s' % (r['task'].get('name'), n))
        samples.extend(r.get('samples', [])[:2])
        for k, v in r.get('extra', {}).items():
            if isinstance(v, (int, float)):
                extra[k] = extra.get(k, 0) + v
            elif isinstance(v, list):
                extra.setdefault(k, [])
                for x in v:
                    if x not in extra[k] and len(extra[k]) < 400:
                        extra[k].append(x)
    missing_tasks = len(tasks) - len(results)
    # ---- replay counterexamples --------------------------------------------------------
    known = load_known(pid)
    violations = []
    known_hits = {}
    nonrepro = []
    unknown_cex = [c for c in cex if c.get('case') is None]
    replayable = [c for c in cex if c.get('case') is not None]
    # de-duplicate by case content, bound the work
    seen = set(); uniq = []
    for c in replayable:
        k = json.dumps(c['case'], sort_keys=True)
        if k not in seen:
            seen.add(k); uniq.append(c)
    CAP = int(os.environ.get('VERIF_REPLAY_CAP', '400'))
    batch = uniq[:CAP]
    verdicts = run_replays(pid, [c['case'] for c in batch]) if batch else []
    for c, v in zip(batch, verdicts):
        c['verdict'] = v
        if v.get('violates') is True:
            key = v.get('key')
            hit = next((k for k in known if k['key'] == key), None)
            if hit is not None:
                known_hits.setdefault(hit['key'], []).append(c)
            else:
                violations.append(c)
        elif v.get('violates') is False:
            nonrepro.append(c)
        else:
            errors.append({'task': c.get('task'), 'error': 'replay failed: %s' % v.get('error')})
    # ---- required coverage witnesses ------------------------------------------------------------
    req = mod.required_witnesses(tier) if hasattr(mod, 'required_witnesses') else []
    missing_w = [w for w in req if witness.get(w, 0) == 0]
    # ---- verdict ---------------------------------------------------------------------------------
    status = 0
    reasons = []
    if violations:
        status = 1
    else:
        if errors:
            status = 2; reasons.append('%d task/replay errors' % len(errors))
        if timed_out or missing_tasks:
            done = {r['task'].get('name') for r in results}
            status = 2; reasons.append('budget exhausted: %d tasks unfinished: %s' % (missing_tasks, [t.get('name') for t in tasks if t.get('name') not in done][:5]))
        if agg['unknown']:
            status = 2; reasons.append('%d inconclusive solver answers / caps' % agg['unknown'])
        if unknown_cex:
            status = 2; reasons.append('%d postconditions undecided' % len(unknown_cex))
        if nonrepro:
            status = 2; reasons.append('%d solver models did not reproduce on the real code (encoding/bound problem)' % len(nonrepro))
        if missing_w and not a.only:
            status = 2; reasons.append('missing coverage witnesses: %s' % missing_w)
    # ---- replay files + stdout lines ----------------------------------------------------------------
    rdir = os.path.join(OUT, 'replays', pid)
    os.makedirs(rdir, exist_ok=True)
    vio_files = []
    for c in violations[:10]:
        h = hashlib.sha256(json.dumps(c['case'], sort_keys=True).encode()).hexdigest()[:12]
        path = os.path.join(rdir, h + '.json')
        json.dump({'property': pid, 'case': c['case'], 'verdict': c['verdict'], 'task': c.get('task')}, open(path, 'w'), indent=1)
        vio_files.append(path)
    for k in known:
        hits = known_hits.get(k['key'], [])
        print('KNOWN-FINDING: property=%s %s [key=%s; re-observed in %d case(s) this run]' % (pid, k['desc'], k['key'], len(hits)))
    vk = {}
    for c in violations:
        vk.setdefault(c['verdict'].get('key'), []).append(c)
    for k, v in vk.items():
        print('violation class %s: %d reproduced case(s), e.g. task=%s inputs=%s' % (k, len(v), v[0].get('task'), v[0]['case'].get('inputs')))
    for p in vio_files[:5]:
        print('VIOLATION property=%s replay=%s' % (pid, p))
    # ---- evidence ----------------------------------------------------------------------------------------
    desc = mod.describe(tier) if hasattr(mod, 'describe') else {}
    files = desc.get('files', [])
    wall = round(time.time() - t0, 2)
    if not samples:
        samples = [t.get('name') for t in tasks[:3]]
    cov = {
        'states': max(agg['paths'], 1) if agg['paths'] else 0,
        'transitions': agg['decisions'],
        'traces_validated_against_impl': extra.get('diff_runs', 0) + len([c for c in batch if c.get('verdict', {}).get('violates') is not None]),
        'samples': samples[:12],
        'evaluations': max(agg['requires'], agg['paths']),
        'distinct_nontrivial': agg['paths'],
        'rule': desc.get('rule', 'one case = one feasible path of the real code (distinct path condition) with its postcondition decided by the solver for every input on the path'),
        'exhaustive': status == 0 and not a.only,
        'feasible_paths': agg['paths'],
        'decisions': agg['decisions'],
        'solver_queries': agg['queries'],
        'postconditions': agg['requires'],
        'postconditions_unsat': agg['unsat'],
        'postconditions_sat': agg['sat'],
        'inconclusive': agg['unknown'],
        'solver_seconds': round(agg['solve_s'], 2),
        'tasks': len(tasks),
        'tasks_finished': len(results),
        'coverage_witnesses': witness,
        'required_witnesses': req,
        'functions_encoded': desc.get('functions', []),
        'source_hash': src_hash(files),
        'bounds': desc.get('bounds', {}),
        'outside_claim': desc.get('outside', []),
        'stubs': desc.get('stubs', []),
        'counterexamples_found': len(cex),
        'counterexamples_replayed': len(batch),
        'counterexamples_reproduced': len(violations) + sum(len(v) for v in known_hits.values()),
        'known_findings_observed': {k: len(v) for k, v in known_hits.items()},
        'status_reasons': reasons,
        'explanation': desc.get('explanation', ''),
    }
    for k, v in extra.items():
        cov.setdefault(k, v)
    ev = {
        'property_id': pid, 'tier': tier, 'seed': seed, 'level': getattr(mod, 'LEVEL', 'model_checking'),
        'coverage': cov, 'assumptions': desc.get('assumptions', []), 'wall_s': wall,
        'violations': len(violations),
    }
    os.makedirs(os.path.join(OUT, 'evidence'), exist_ok=True)
    json.dump(ev, open(os.path.join(OUT, 'evidence', pid + '.json'), 'w'), indent=1, default=str)
    print('%s tier=%s paths=%d queries=%d unsat=%d sat=%d unknown=%d solver_s=%.1f wall=%.1fs status=%d %s' % (
        pid, tier, agg['paths'], agg['queries'], agg['unsat'], agg['sat'], agg['unknown'], agg['solve_s'], wall, status,
        '; '.join(reasons)))
    slow = sorted(results, key=lambda r: -r.get('wall_s', 0))[:5]
    if os.environ.get('VERIF_VERBOSE'):
        for r in results:
            if r.get('unknown') or any(c.get('case') is None for c in r.get('cex', [])):
                print('inconclusive in task %s: unknown=%s undecided=%d' % (r['task'].get('name'), r.get('unknown'), sum(1 for c in r.get('cex', []) if c.get('case') is None)), file=sys.stderr)
        for r in slow:
            print('slow task %.1fs %s paths=%s' % (r.get('wall_s', 0), r['task'].get('name'), r.get('paths')), file=sys.stderr)
    for e in errors[:3]:
        print('ERROR in task %s:\n%s' % (e['task'], e['error']), file=sys.stderr)
    for n in notes[:5]:
        print('note:', n, file=sys.stderr)
    for c in nonrepro[:3]:
        print('non-reproducing model:', json.dumps(c.get('case'))[:600], 'failed obligations:', c.get('failed_obligations'), str(c.get('verdict'))[:300], file=sys.stderr)
    return status


if __name__ == '__main__':
    sys.exit(main())
