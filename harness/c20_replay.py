"""Concrete judge for C20 on the unpatched code (real interpreter, real ops, real MPFR)."""
from fractions import Fraction


def _fr(x):
    if isinstance(x, Fraction):
        return x
    return x.as_rational()


def replay(case):
    import fpy2 as fp
    from fpy2 import Float
    from fpy2.libraries import eft, core
    from .c20 import EFT, _ctx
    t = case['task']; inp = case['inputs']
    k = t['kind']
    if k in ('core_special', 'validate'):
        return {'violates': True, 'observed': inp, 'key': k + ':' + str(inp['row'][:2])}
    problems = []
    if k == 'eft':
        fn = t['fn']; ar, modes, kind, pre = EFT[fn]
        p, rm = t['p'], t['rm']
        ctx = _ctx(kind, p, rm)
        expmin = (1 - p) if kind == 'mps' else 0
        xs = [Float(bool(inp['s%d' % i]), expmin, inp['m%d' % i]) for i in range(ar)]
        if pre == 'ordered' and abs(_fr(xs[0])) < abs(_fr(xs[1])):
            return {'violates': False, 'observed': 'precondition', 'key': 'pre'}
        args = xs if fn != 'veltkamp_split' else [xs[0], (p + 1) // 2]
        try:
            out = getattr(eft, fn)(*args, ctx=ctx)
            tot = sum((_fr(o) for o in out), Fraction(0))
            a = _fr(xs[0])
            exact = a + _fr(xs[1]) if fn.endswith('2sum') else a * _fr(xs[1]) if fn.endswith('2mul') else a if fn == 'veltkamp_split' else a * _fr(xs[1]) + _fr(xs[2])
            if tot != exact:
                problems.append(('outputs %s sum to %s, exact result %s' % ([str(_fr(o)) for o in out], tot, exact),))
        except Exception as ex:  # noqa
            problems.append(('raised', repr(ex)[:200]))
        return {'violates': bool(problems), 'observed': {'operands': [str(_fr(x)) for x in xs], 'context': repr(ctx)[:60], 'problems': [list(map(str, q)) for q in problems]}, 'key': 'eft:' + fn}
    # core
    fn = t['fn']; s = bool(t['s'])
    x = Float(s, inp['exp'], inp['c'])
    v = _fr(x)
    try:
        if fn == 'split':
            n = inp['n']
            hi, lo = core.split(x, Float.from_int(n), ctx=fp.REAL)
            u = Fraction(2) ** (n + 1)
            if _fr(hi) + _fr(lo) != v or (_fr(hi) / u).denominator != 1 or abs(_fr(lo)) >= u:
                problems.append(('split', str(_fr(hi)), str(_fr(lo))))
        elif fn == 'modf':
            i, f = core.modf(x, ctx=fp.REAL)
            if _fr(i) + _fr(f) != v or _fr(i).denominator != 1 or abs(_fr(f)) >= 1 or bool(i.s) != s or bool(f.s) != s:
                problems.append(('modf', str(_fr(i)), str(_fr(f))))
        elif fn == 'frexp':
            m, e = core.frexp(Float(s, inp['exp'], inp['c'], ctx=fp.MPSFloatContext(8, -8)), ctx=fp.REAL)
            if _fr(m) * Fraction(2) ** int(_fr(e)) != v or not (1 <= abs(_fr(m)) < 2):
                problems.append(('frexp', str(_fr(m)), str(_fr(e))))
        elif fn == 'logb':
            r = core.logb(x, ctx=fp.MPSFloatContext(8, -8))
            a = abs(v); e = a.numerator.bit_length() - a.denominator.bit_length()
            e = e if Fraction(2) ** e <= a else e - 1
            if _fr(r) != e:
                problems.append(('logb', str(_fr(r)), e))
        else:
            from .c02_replay import judge
            n = inp['n']
            desc = dict(fam='MPSFloat', pmax=3, emin=-2, rm=t['rm'])
            ctx = fp.MPSFloatContext(3, -2, fp.RM[t['rm']])
            ok, out = judge(desc, v * Fraction(2) ** n, lambda: core.ldexp(x, Float.from_int(n), ctx=ctx), zero_neg=s)
            if not ok:
                problems.append(('ldexp', str(out)[:120]))
    except Exception as ex:  # noqa
        problems.append(('raised', repr(ex)[:200]))
    return {'violates': bool(problems), 'observed': {'operand': str(v), 'problems': [list(map(str, q)) for q in problems]}, 'key': 'core:' + fn}


def table_core_special(task):
    """zero / infinite / NaN operands of the decompositions (documented special cases)"""
    import math
    import fpy2 as fp
    from fpy2 import Float
    from fpy2.libraries import core
    n = 0; bad = []
    ctx = fp.IEEEContext(5, 16)
    specials = {'nan': Float(isnan=True), '+inf': Float(isinf=True), '-inf': Float(isinf=True, s=True), '+0': Float(False, 0, 0), '-0': Float(True, 0, 0)}

    def cls(x):
        return 'nan' if x.isnan else ('-inf' if x.s else '+inf') if x.isinf else ('-0' if x.s else '+0') if x.is_zero() else 'fin'
    for k, x in specials.items():
        n += 4
        hi, lo = core.split(x, Float.from_int(0), ctx=ctx)
        if k == 'nan' and not (hi.isnan and lo.isnan): bad.append(['split', k])
        if 'inf' in k and not (cls(hi) == k and cls(lo) == k): bad.append(['split', k])
        if '0' in k and not (hi.is_zero() and lo.is_zero()): bad.append(['split', k])
        i, f = core.modf(x, ctx=ctx)
        exp_ = {'nan': ('nan', 'nan'), '+inf': ('+0', '+inf'), '-inf': ('-0', '-inf'), '+0': ('+0', '+0'), '-0': ('-0', '-0')}[k]
        if (cls(i), cls(f)) != exp_: bad.append(['modf', k, cls(i), cls(f)])
        m, e = core.frexp(x, ctx=ctx)
        exp_ = {'nan': ('nan', 'nan'), '+inf': ('+inf', 'nan'), '-inf': ('-inf', 'nan'), '+0': ('+0', '+0'), '-0': ('-0', '+0')}[k]
        if (cls(m), cls(e)) != exp_: bad.append(['frexp', k, cls(m), cls(e)])
        r = core.ldexp(x, Float.from_int(3), ctx=ctx)
        if cls(r) != k: bad.append(['ldexp', k, cls(r)])
        n += 1
        r = core.logb(x, ctx=ctx)
        exp_ = {'nan': 'nan', '+inf': '+inf', '-inf': '+inf', '+0': '-inf', '-0': '-inf'}[k]
        if cls(r) != exp_: bad.append(['logb', k, cls(r)])
    return n, bad, [{'special_rows': n}]
