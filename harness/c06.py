"""
C06 — A numeric literal denotes exactly the number written.

Solver-decided parts (real code run symbolically):
  sci/…     `Decnum.as_real` / `Hexnum.as_real` -> `utils.decnum_to_fraction` / `hexnum_to_fraction` -> `_sci_to_fraction`
            on a spelling of a fixed SHAPE (sign, digit counts, exponent text) whose digit groups have SYMBOLIC values:
            the real regular expression and splitting run on a template string; the module-level names `int` and
            `Fraction` of fpy2.utils.fractions are rebound so that int(<digit group>, base) is a symbolic integer below
            base^len and rationals are (symbolic numerator, denominator) pairs.  Assertion: the value is
            (-1)^s (i + f base^-len(f)) b^e exactly, and a negative spelling of zero is the signed zero.
  digits/…  `Digits.as_rational` (m symbolic; e, b enumerated) and `Rational.as_rational` (p, q symbolic).
Concrete support (labelled so in the evidence):
  spelling/… generated spellings of every kind through the real `@fp.fpy` front end and interpreter, under fp.REAL and
            under narrow contexts, against an independent character-level reader and an independent rounding function.
"""
PROPERTY = 'C06'
LEVEL = 'model_checking'
BUDGET_S = {'quick': 3600, 'thorough': 14400}

W = 160

DEC_EXPS = {'quick': [None, '0', '3', '-3', '+4', '-6'], 'thorough': [None, '0', '3', '-3', '+4', '-6', '9', '-9', '007', '-05']}
HEX_EXPS = {'quick': [None, '0', '3', '-4', '+7'], 'thorough': [None, '0', '3', '-4', '+7', '-30', '40']}
LENS = {'quick': [0, 1, 3], 'thorough': [0, 1, 2, 3, 5]}
FLENS = {'quick': [None, 1, 3], 'thorough': [None, 1, 2, 4, 6]}

PARSE_SPELLINGS = ['0.5', '1.0', '2.5e3', '1e23', '1e22', '0.1000000000000000055511151231257827', '9007199254740993.0', '123456789012345678.5', '1e-400', '1e400', '4.35', '0.0', '0.0e5',
                   '-0.0', '-1e-400', '-2.5', '1_0.2_5', '1E2', '5.', '.5', '5.e-1', '-(0.0)', '1.7976931348623159e308', '2.2250738585072011e-308', '100000000000000000000000.0', '0.30000000000000004', '17.000000000000000001']


def tasks(tier, seed):
    ts = []
    for kind, exps in (('dec', DEC_EXPS[tier]), ('hex', HEX_EXPS[tier])):
        for sign in ('', '-', '+'):
            for il in LENS[tier]:
                for fl in FLENS[tier]:
                    if il == 0 and fl is None:
                        continue
                    for ex in exps:
                        if tier == 'quick' and sign == '+' and (il, fl) != (1, 1):
                            continue
                        ts.append(dict(kind='sci', name='sci/%s/%s%d.%s/e%s' % (kind, sign, il, fl, ex), base=kind, sign=sign, il=il, fl=fl, ex=ex))
    for b in (2, 3, 10, 16):
        for ex in ([-6, -1, 0, 1, 5] if tier == 'quick' else list(range(-8, 9))):
            ts.append(dict(kind='digits', name='digits/b%d/e%d' % (b, ex), b=b, ex=ex))
    ts.append(dict(kind='rational', name='rational/pq'))
    ts.append(dict(kind='spelling', name='spelling/fixed', fixed=True, seed=0, count=0, cost=2))
    n = 40 if tier == 'quick' else 400
    for k in range(16):
        ts.append(dict(kind='spelling', name='spelling/%d' % k, seed=seed * 7919 + k, count=n, cost=3))
    return ts


def required_witnesses(tier):
    return ['sci-value', 'sci-negative-zero', 'digits-value', 'rational-value', 'rational-zero-denominator', 'spelling-real', 'spelling-rounded', 'spelling-negzero']


# ---- symbolic rationals ----------------------------------------------------------------------------------------------
def _mk_symfrac():
    import z3
    from pysym.core import SymInt, cur, bv

    class SymFrac:
        """(numerator, denominator) with a positive denominator; NOT reduced (only its value is meaningful)"""
        __slots__ = ('n', 'd')

        def __init__(self, n=0, d=1):
            if isinstance(n, SymFrac):
                if isinstance(d, SymFrac):
                    n, d = n.n * d.d, n.d * d.n
                else:
                    n, d = n.n, n.d * d
            elif isinstance(d, SymFrac):
                n, d = n * d.d, d.n
            if not isinstance(n, int) or not isinstance(d, int):
                raise TypeError('SymFrac of %r / %r' % (type(n), type(d)))
            if d == 0:
                raise ZeroDivisionError('Fraction(%s, 0)' % 'n')
            if d < 0:
                n, d = -n, -d
            if type(n) is int and type(d) is int:
                import math
                g = math.gcd(n, d)
                n, d = n // g, d // g
            self.n = n; self.d = d

        def __int__(s):
            if type(s.n) is int and type(s.d) is int:
                return -((-s.n) // s.d) if s.n < 0 else s.n // s.d
            raise TypeError('int() of a symbolic rational')
        __trunc__ = __int__

        numerator = property(lambda s: s.n)
        denominator = property(lambda s: s.d)

        def __mul__(s, o):
            o = o if isinstance(o, SymFrac) else SymFrac(o)
            return SymFrac(s.n * o.n, s.d * o.d)
        __rmul__ = __mul__

        def __add__(s, o):
            o = o if isinstance(o, SymFrac) else SymFrac(o)
            if isinstance(s.d, int) and isinstance(o.d, int) and type(s.d) is int and type(o.d) is int and s.d == o.d:
                return SymFrac(s.n + o.n, s.d)
            return SymFrac(s.n * o.d + o.n * s.d, s.d * o.d)
        __radd__ = __add__

        def __neg__(s):
            return SymFrac(-s.n, s.d)

        def __sub__(s, o):
            return s + (-(o if isinstance(o, SymFrac) else SymFrac(o)))

        def __rsub__(s, o):
            return (-s) + o

        def __pow__(s, k):
            if type(k) is not int:
                raise TypeError('symbolic exponent')
            if k >= 0:
                n, d = 1, 1
                for _ in range(k):
                    n, d = n * s.n, d * s.d
                return SymFrac(n, d)
            if s.n == 0:
                raise ZeroDivisionError('Fraction(0) ** negative')
            return SymFrac(s.d, s.n) ** (-k)

        def __eq__(s, o):
            if not isinstance(o, (int, SymFrac)):
                return NotImplemented
            o = o if isinstance(o, SymFrac) else SymFrac(o)
            return s.n * o.d == o.n * s.d

        def __ne__(s, o):
            return not s.__eq__(o)

        def __lt__(s, o):
            o = o if isinstance(o, SymFrac) else SymFrac(o)
            return s.n * o.d < o.n * s.d

        def __hash__(s):
            raise TypeError('unhashable symbolic rational')
    return SymFrac


def _install_digit_shims(I, F, base, exact_markers=None):
    """rebinds `int` and `Fraction` in fpy2.utils.fractions and `Fraction` in fpy2.ast.fpyast"""
    import builtins
    from pysym import shims
    import fpy2.utils.fractions as UF
    import fpy2.ast.fpyast as A
    SymFrac = _mk_symfrac()

    class _M(shims._IntMeta):
        def __call__(cls, x=0, *a, **k):
            if exact_markers is not None:
                if isinstance(x, str) and x == exact_markers[0]:
                    return I
                if isinstance(x, str) and x == exact_markers[1]:
                    return F
                return shims._IntMeta.__call__(cls, x, *a, **k)
            if isinstance(x, str) and x and set(x) == {'1'} and I is not None:
                return I
            if isinstance(x, str) and x and set(x) == {'2'} and F is not None:
                return F
            return shims._IntMeta.__call__(cls, x, *a, **k)

    class int_digits(metaclass=_M):
        pass
    shims.patch(UF, 'int', int_digits)
    shims.patch(UF, 'Fraction', SymFrac)
    shims.patch(A, 'Fraction', SymFrac)
    return SymFrac


def _scaled_equal(num, den, onum, oden):
    """z3: num/den == onum/oden for positive denominators (bit-vector terms or ints of width W)"""
    import z3
    from pysym.core import bv

    def t(x):
        return x if isinstance(x, z3.ExprRef) else bv(x)
    return t(num) * t(oden) == t(onum) * t(den)


def run_task(task):
    kind = task['kind']
    if kind == 'spelling':
        return run_spelling(task)
    import z3
    from pysym.core import explore, bv, SymInt
    from pysym import shims
    samples = []
    shims.stub_formatting()

    if kind == 'sci':
        base = 10 if task['base'] == 'dec' else 16
        b = 10 if task['base'] == 'dec' else 2
        il, fl, ex, sign = task['il'], task['fl'], task['ex'], task['sign']
        mant = ('1' * il) + (('.' + '2' * fl) if fl else '')
        text = sign + ('0x' if base == 16 else '') + mant + ((('e' if base == 10 else 'p') + ex) if ex is not None else '')
        exv = int(ex) if ex is not None else 0

        def setup(e):
            I = e.fresh('I', 0, base ** il - 1) if il else None
            F = e.fresh('F', 0, base ** fl - 1) if fl else None
            return (I, F)

        def run(e, I, F):
            import fpy2.ast.fpyast as A
            from fpy2 import Float
            SymFrac = _install_digit_shims(I, F, base)
            node = A.Decnum(text, None) if base == 10 else A.Hexnum(None, text, None)
            try:
                r = node.as_real()
                q = node.as_rational()
            except Exception as ex_:  # noqa
                e.require(False, info={'spelling shape': text, 'raised': repr(ex_)[:160]}); return
            it = I.t if I is not None else bv(0)
            ft = F.t if F is not None else bv(0)
            flv = fl or 0
            mag = it * bv(base ** flv) + ft
            onum = mag * bv(b ** exv) if exv >= 0 else mag
            oden = base ** flv * (b ** (-exv) if exv < 0 else 1)
            if sign == '-':
                onum = -onum
            zero = mag == 0
            okq = isinstance(q, SymFrac) and _scaled_equal(q.n, q.d, onum, oden)
            if isinstance(q, SymFrac) and not (isinstance(q.d, int) and q.d > 0):
                okq = False
            if isinstance(r, Float):
                e.cover('sci-negative-zero', True)
                post = z3.And(okq, zero, z3.BoolVal(sign == '-' and bool(r.s) and r.c == 0 and not r.isnan and not r.isinf))
            else:
                e.cover('sci-value', True)
                okr = isinstance(r, SymFrac) and _scaled_equal(r.n, r.d, onum, oden)
                post = z3.And(okq, okr, z3.Not(z3.And(zero, z3.BoolVal(sign == '-'))))
            ok = e.require(post, info={'spelling shape': text})
            if len(samples) < 2:
                samples.append({'task': task['name'], 'template': text, 'example': e.model_inputs(), 'proved': ok})
        eng = explore(run, setup, W=W, bl_max=W - 8)

    elif kind == 'digits':
        b, exv = task['b'], task['ex']

        def setup(e):
            return (e.fresh('m', -(1 << 20), 1 << 20),)

        def run(e, m):
            import fpy2.ast.fpyast as A
            SymFrac = _install_digit_shims(None, None, 10)
            node = A.Digits(None, m, exv, b, None)
            try:
                q = node.as_rational(); r = node.as_real()
            except Exception as ex_:  # noqa
                e.require(False, info={'raised': repr(ex_)[:160]}); return
            onum = m.t * bv(b ** exv) if exv >= 0 else m.t
            oden = b ** (-exv) if exv < 0 else 1
            e.cover('digits-value', True)
            post = z3.And(z3.BoolVal(isinstance(q, SymFrac) and isinstance(r, SymFrac)), _scaled_equal(q.n, q.d, onum, oden), _scaled_equal(r.n, r.d, onum, oden))
            ok = e.require(post, info={'digits': (b, exv)})
            if len(samples) < 2:
                samples.append({'task': task['name'], 'example': e.model_inputs(), 'proved': ok})
        eng = explore(run, setup, W=W, bl_max=W - 8)

    elif kind == 'rational':
        def setup(e):
            return (e.fresh('p', -(1 << 12), 1 << 12), e.fresh('q', -(1 << 12), 1 << 12))

        def run(e, p, q):
            import fpy2.ast.fpyast as A
            SymFrac = _install_digit_shims(None, None, 10)
            node = A.Rational(None, p, q, None)
            try:
                v = node.as_rational()
            except ZeroDivisionError:
                e.cover('rational-zero-denominator', True)
                e.require(q.t == 0, info={'raised ZeroDivisionError'}); return
            except Exception as ex_:  # noqa
                e.require(False, info={'raised': repr(ex_)[:160]}); return
            e.cover('rational-value', True)
            post = z3.And(q.t != 0, bv(v.n) * q.t == p.t * bv(v.d), bv(v.d) > 0)
            ok = e.require(post, info={})
            if len(samples) < 2:
                samples.append({'task': task['name'], 'example': e.model_inputs(), 'proved': ok})
        eng = explore(run, setup, W=64, bl_max=56)

    else:
        raise ValueError(kind)

    cexs = []
    for cx in eng.cex:
        if cx.get('unknown') or cx.get('inputs') is None:
            cexs.append({'case': None})
        else:
            tt = {k: v for k, v in task.items() if k not in ('name', 'cost')}
            cexs.append({'case': {'task': tt, 'inputs': cx['inputs'], 'info': str(cx.get('info'))}, 'failed_obligations': cx.get('failed_obligations')})
    return dict(paths=eng.paths, decisions=eng.decisions, queries=eng.checks, unsat=eng.unsat, sat=eng.sat, unknown=eng.unknown,
                solve_s=eng.solve_s, requires=eng.requires, aborted=eng.aborted, witness=eng.witness, notes=eng.notes, cex=cexs, samples=samples)


# ---- concrete end-to-end table ---------------------------------------------------------------------------------------
def gen_spelling(rng):
    """(source expression, kind, payload for the oracle)"""
    def digs(n, first_nonzero=False):
        s = ''.join(rng.choice('0123456789') for _ in range(n))
        if first_nonzero and s[0] == '0':
            s = rng.choice('123456789') + s[1:]
        return s
    k = rng.choice(['int', 'dec', 'dec', 'decexp', 'decexp', 'bigexp', 'long', 'long', 'hex', 'hex', 'rational', 'digits', 'negzero', 'poszero', 'odd'])
    if k == 'int':
        t = digs(rng.choice([1, 3, 17, 25]), True)
        return t, 'dec', t
    if k == 'dec':
        t = digs(rng.choice([1, 2, 5])) + '.' + digs(rng.choice([1, 3, 8, 19]))
        t = t.lstrip('0') if not t.startswith('0.') and rng.random() < 0.5 else t
        if t.startswith('.'):
            t = '0' + t
        return t, 'dec', t
    if k == 'decexp':
        t = digs(rng.choice([1, 2]), True) + ('.' + digs(rng.choice([1, 4, 18])) if rng.random() < 0.7 else '') + 'e' + rng.choice(['', '-', '+']) + str(rng.randint(0, 30))
        return t, 'dec', t
    if k == 'bigexp':
        t = digs(1, True) + '.' + digs(rng.choice([1, 5])) + 'e' + rng.choice(['', '-']) + str(rng.randint(300, 420))
        return t, 'dec', t
    if k == 'long':
        t = digs(rng.choice([16, 17, 18, 20]), True) + rng.choice(['.0', '.5', '.25', 'e0', 'e3', '.0e1'])
        return t, 'dec', t
    if k == 'hex':
        hd = lambda n: ''.join(rng.choice('0123456789abcdef') for _ in range(n))  # noqa
        t = rng.choice(['', '-', '+']) + '0x' + hd(rng.choice([1, 2, 15])) + ('.' + hd(rng.choice([1, 3, 14])) if rng.random() < 0.7 else '') + ('p' + rng.choice(['', '-', '+']) + str(rng.randint(0, 1100)) if rng.random() < 0.8 else '')
        return "fp.hexfloat('%s')" % t, 'hex', t
    if k == 'rational':
        p = rng.randint(-10 ** rng.choice([1, 5, 20]), 10 ** rng.choice([1, 5, 20])); q = rng.choice([1, 2, 3, 7, 10, 1 << 60, 10 ** 19 + 1, -3])
        return 'fp.rational(%d, %d)' % (p, q), 'rational', (p, q)
    if k == 'digits':
        m = rng.randint(-10 ** rng.choice([1, 6, 18]), 10 ** rng.choice([1, 6, 18])); ex = rng.randint(-40, 40); b = rng.choice([2, 10, 16, 3])
        return 'fp.digits(%d, %d, %d)' % (m, ex, b), 'digits', (m, ex, b)
    if k == 'negzero':
        t = rng.choice(['-0.0', '-0', '-0e5', '-0.000', '-(0.0)', "fp.hexfloat('-0x0.0p3')", '-0.0e-400', '-0e400'])
        return t, 'negzero', t
    if k == 'poszero':
        t = rng.choice(['-(-0.0)', '-(-0)', "-fp.hexfloat('-0x0p0')", '-(-(0.0))', '-(-0e3)', '0.0', "fp.hexfloat('0x0p0')"])
        return t, 'poszero', t
    t = rng.choice(['1_000.5', '1E3', '1.5E-2', '5.', '.5', '5.e2', '0_1.2_5e0_2', '00.5', '0e0', '1e+05', '1e-07', '1e16', '123456789.123456789e-9'])
    return t, 'dec', t


def expected_of(kind, payload):
    from fractions import Fraction
    from .c06_common import exact_decimal, exact_hex
    if kind == 'dec':
        return exact_decimal(payload)[1], False
    if kind == 'hex':
        neg, v = exact_hex(payload)
        return v, (neg and v == 0)
    if kind == 'rational':
        return Fraction(payload[0]) / payload[1], False
    if kind == 'digits':
        m, ex, b = payload
        return (Fraction(m * b ** ex) if ex >= 0 else Fraction(m, b ** (-ex))), False
    if kind == 'negzero':
        return Fraction(0), True
    if kind == 'poszero':
        return Fraction(0), 'pos'        # the negation of a negative-zero literal: the sign must be +
    raise ValueError(kind)


SP_CTX = [('MPFloatContext(3)', 3, 'RNE'), ('MPFloatContext(8, fp.RM.RTZ)', 8, 'RTZ'), ('MPFloatContext(24, fp.RM.RAZ)', 24, 'RAZ'), ('MPFloatContext(53)', 53, 'RNE'), ('MPFloatContext(11, fp.RM.RTP)', 11, 'RTP'),
          ('MPFloatContext(5, fp.RM.RTN)', 5, 'RTN')]


def check_spelling(expr, kind, payload, ci, want_override=None):
    """runs the real front end + interpreter; returns list of problems (strings)"""
    import fpy2 as fp
    from fractions import Fraction
    from fpy2 import Float
    from . import progs
    from .c06_common import round_frac, show
    want, negzero = expected_of(kind, payload)
    if want_override is not None:
        want, negzero = want_override
    cexpr, p, rm = SP_CTX[ci]
    src = ('@fp.fpy\ndef bare():\n    return %s\n\n@fp.fpy\ndef rounded():\n    with fp.%s:\n        return fp.round(%s)\n\n'
           '@fp.fpy\ndef used():\n    with fp.%s:\n        return %s + 0\n' % (expr, cexpr, expr, cexpr, expr))
    g = progs.load(src)
    problems = []

    def val(v):
        if isinstance(v, Float):
            if v.isnan or v.isinf:
                return 'special', None
            return v.as_rational(), bool(v.s)
        if isinstance(v, (int, Fraction)):
            return Fraction(v), False
        if isinstance(v, float):
            return Fraction(v), (str(v).startswith('-'))
        return 'other', None
    for label, call in (('REAL', lambda: g['bare'](ctx=fp.REAL)), ('no context', lambda: g['bare']()), ('narrow caller context', lambda: g['bare'](ctx=eval('fp.' + cexpr, {'fp': fp})))):  # noqa: S307
        try:
            r = call()
        except Exception as ex:  # noqa
            problems.append('%s: return %s raised %r' % (label, expr, ex)); continue
        v, s = val(r)
        if label == 'no context':
            # the Python boundary: exact, or the value as an IEEE double (CPython's int / int is correctly rounded)
            try:
                d = want.numerator / want.denominator
            except OverflowError:
                d = float('inf') if want > 0 else float('-inf')
            if d in (float('inf'), float('-inf')):
                okv = v == want or (isinstance(r, (Float, float)) and (r.isinf if isinstance(r, Float) else r == d))
            else:
                okv = v == want or v == Fraction(d)
        else:
            okv = v == want or (label != 'REAL' and want != 0 and v == round_frac(want, p, rm))
        if not okv:
            problems.append('%s: return %s gave %s, the spelling denotes %s' % (label, expr, show(r), want))
        elif want == 0 and negzero is True and not s:
            problems.append('%s: return %s lost the sign of zero' % (label, expr))
        elif want == 0 and negzero == 'pos' and s:
            problems.append('%s: return %s is negative zero, the expression denotes +0' % (label, expr))
    for fn in ('rounded', 'used'):
        try:
            r = g[fn]()
        except Exception as ex:  # noqa
            problems.append('%s(%s) under %s raised %r' % (fn, expr, cexpr, ex)); continue
        v, s = val(r)
        exp_v = round_frac(want, p, rm)
        if v != exp_v:
            problems.append('%s(%s) under %s gave %s, expected the exact value rounded once = %s' % (fn, expr, cexpr, show(r), exp_v))
        elif want == 0 and negzero is True and fn == 'rounded' and not s:
            problems.append('%s(%s) under %s lost the sign of zero' % (fn, expr, cexpr))
        elif want == 0 and negzero == 'pos' and fn == 'rounded' and s:
            problems.append('%s(%s) under %s is negative zero, the expression denotes +0' % (fn, expr, cexpr))
    return problems, want, negzero


PAIRS = [("fp.hexfloat('0x0p0')", '-0.0'), ('-0.0', "fp.hexfloat('0x0p0')"), ('fp.rational(0, 3)', '-0.0'), ("fp.hexfloat('-0x0p0')", 'fp.digits(0, 2, 2)'), ('-0.0', 'fp.rational(0, 7)'),
         ('0.0', '-0.0'), ('-0.0', '0.0'), ("fp.hexfloat('-0x0.0p3')", "fp.hexfloat('0x0.0p3')"), ('fp.digits(0, 0, 2)', "fp.hexfloat('-0x0p0')"), ('-0', 'fp.rational(0, 2)')]


def check_pair(k):
    """two zero literals of opposite sign in ONE function keep their own signs (a literal is not confused with an equal-valued one)"""
    import fpy2 as fp
    from fpy2 import Float
    from . import progs
    a, b = PAIRS[k]
    src = '@fp.fpy\ndef pair():\n    u = %s\n    v = %s\n    return (u, v)\n# pair %d\n' % (a, b, k)
    g = progs.load(src)
    problems = []
    for label, call in (('REAL', lambda: g['pair'](ctx=fp.REAL)), ('no context', lambda: g['pair']())):
        try:
            r = call()
        except Exception as ex:  # noqa
            problems.append('%s: (%s, %s) raised %r' % (label, a, b, ex)); continue
        for expr, v in zip((a, b), r):
            neg = expr.startswith('-') or "'-" in expr
            s = (v.s if isinstance(v, Float) else str(v).startswith('-')) if isinstance(v, (Float, float)) else False
            z = (v.as_rational() == 0) if isinstance(v, Float) else v == 0
            if not z or bool(s) != neg:
                problems.append('%s: in (%s, %s) the literal %s evaluated to %s%s' % (label, a, b, expr, '-' if s else '+', '0' if z else 'nonzero'))
    return problems


def run_spelling(task):
    import random
    rng = random.Random(task['seed'])
    cex = []; wit = {'spelling-real': 0, 'spelling-rounded': 0, 'spelling-negzero': 0}
    samples = []
    n = 0
    todo = []
    if task.get('fixed'):
        from .c06_common import exact_decimal
        for i, sp in enumerate(PARSE_SPELLINGS):
            lit = sp[2:-1] if sp.startswith('-(') else sp.lstrip('-')
            isz = exact_decimal(lit)[1] == 0 and sp.startswith('-')
            todo.append((sp, 'negzero' if isz else 'dec', sp if not sp.startswith('-(') else '-' + lit, i % len(SP_CTX)))
        for i, sp in enumerate(['-(-0.0)', '-(-0)', "-fp.hexfloat('-0x0p0')", '-(-(0.0))']):
            todo.append((sp, 'poszero', sp, i % len(SP_CTX)))
    for _ in range(task['count']):
        todo.append(gen_spelling(rng) + (rng.randrange(len(SP_CTX)),))
    if task.get('fixed'):
        for k in range(len(PAIRS)):
            problems = check_pair(k)
            n += 1
            if problems:
                cex.append({'case': {'task': {'kind': 'spelling'}, 'inputs': {'expr': 'pair', 'kind': 'pair', 'payload': k, 'ctx': 0}, 'info': problems[0][:200]}})
    for expr, kind, payload, ci in todo:
        problems, want, negzero = check_spelling(expr, kind, payload, ci)
        n += 1
        wit['spelling-real'] += 1; wit['spelling-rounded'] += 1
        if negzero is True:
            wit['spelling-negzero'] += 1
        if problems:
            cex.append({'case': {'task': {'kind': 'spelling'}, 'inputs': {'expr': expr, 'kind': kind, 'payload': payload, 'ctx': ci}, 'info': problems[0][:200]}})
        elif len(samples) < 2:
            samples.append({'task': task['name'], 'spelling': expr, 'denotes': str(want)[:60], 'concrete': True})
    return dict(paths=0, requires=0, cex=cex, samples=samples, witness=wit, extra={'diff_runs': n, 'concrete_spellings_checked': n})


def describe(tier):
    R = '/repo/fpy2/'
    return dict(
        functions=['utils.fractions.decnum_to_fraction / hexnum_to_fraction / _sci_to_fraction / digits_to_fraction', 'ast.fpyast.Decnum/Hexnum/Integer/Rational/Digits.as_rational / as_real',
                   'frontend.parser.Parser._parse_constant / _parse_unaryop (concrete table)', 'interpret.byte.BytecodeCompiler._rational_to_ast (concrete table)', 'ops.round / + on literals (concrete table)'],
        files=[R + 'frontend/parser.py', R + 'ast/fpyast.py', R + 'utils/fractions.py', R + 'interpret/byte.py', R + 'ops.py'],
        bounds=dict(digit_group_lengths=LENS[tier], fraction_lengths=FLENS[tier], decimal_exponents=DEC_EXPS[tier], hex_exponents=HEX_EXPS[tier], digits_m='|m| <= 2^20', digits_e='enumerated', digits_b=[2, 3, 10, 16],
                    rational='|p|,|q| <= 4096', fixed_concrete_spellings=len(PARSE_SPELLINGS), concrete_spellings_per_run=16 * (40 if tier == 'quick' else 400)),
        outside=['that the regular expression splits a spelling by its shape only, independently of the digit values (the template digits are 1 and 2); exercised, not decided, by the concrete table',
                 'digit groups longer than the bound', 'ast.parse (CPython) and the front end consuming its double: concrete table only', 'ops.digits / ops.rational / ops.hexfloat called from Python rather than written in FPy source'],
        stubs=['int(<digit group>, base) -> symbolic integer below base^len', 'Fraction -> unreduced symbolic (numerator, denominator)'],
        assumptions=['a bare literal under a narrow context may evaluate to its exact value (documented E-Val) or to that value rounded once; fp.round(<literal>) and <literal> + 0 must be the exact value rounded once'],
        rule='one case = one feasible path of the real code for one spelling shape, decided for every digit value; concrete spellings are counted separately',
        explanation='symbolic digit values through the real regex/assembly code; the parser receives the literal already rounded to a double by CPython (ast.parse), a C boundary no symbolic value crosses, so the path from spelling to parser is covered by the concrete end-to-end table only',
    )
