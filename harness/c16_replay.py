"""Concrete judge for C16 on the unpatched code."""
from fractions import Fraction
from . import ctxgrid as G

ENCODABLE = ('EFloat', 'IEEE', 'Fixed', 'SMFixed', 'Exp')


def _val(x):
    if x.isnan:
        return ('nan', bool(x.s))
    if x.isinf:
        return ('inf', bool(x.s))
    return ('fin', bool(x.s), Fraction(int(x.c)) * Fraction(2) ** int(x.exp))


def _spec(desc):
    from spec import formats as F
    if desc['fam'] == 'Exp':
        nb, eo = desc['nbits'], desc.get('eoffset', 0)
        bias = (1 << (nb - 1)) - 1 - eo
        sp = F.FormatSpec(1, None, Fraction(2) ** ((1 << nb) - 2 - bias), Fraction(0), True, False, False)
        sp.exp_min = -bias
        return sp
    return F.spec_of(desc)


def _member(desc, sp, s, v):
    """v: non-negative Fraction magnitude"""
    if desc['fam'] == 'Exp':
        if s or v == 0:
            return False
        n, d = v.numerator, v.denominator
        if n & (n - 1) or d & (d - 1):
            return False
        e = n.bit_length() - d.bit_length()
        return sp.exp_min <= e and v <= sp.pos_max
    if v == 0:
        return (not s) or sp.has_neg_zero
    return sp.contains(-v if s else v)


def replay(case):
    from fpy2 import Float
    from spec import formats as F
    t = case['task']; inp = case['inputs']; desc = t['desc']
    fmt = G.build(desc).format()
    sp = _spec(desc)
    problems = []
    kind = t['kind']
    try:
        if kind == 'codec':
            b = inp['b']
            L = F.layout_concrete(desc, b, 0)
            x = fmt.decode(b)
            v = _val(x)
            exp_v = ('nan',) if L['nan'] else ('inf', L['neg']) if L['inf'] else ('fin', L['neg'], L['mag'])
            if (v[0] != exp_v[0]) or (v[0] == 'inf' and v[1] != exp_v[1]) or (v[0] == 'fin' and v[1:] != exp_v[1:]):
                problems.append(('decode != layout', str(v), str(exp_v)))
            if not fmt.representable_in(x):
                problems.append(('representable_in(decode(b)) is False', str(v)))
            else:
                b2 = fmt.encode(x)
                if v[0] == 'nan':
                    if not F.layout_concrete(desc, b2, 0)['nan']:
                        problems.append(('encode(NaN) is not a NaN code', b2))
                elif b2 != b:
                    problems.append(('encode(decode(b)) != b', b2))
            key = 'codec:' + (problems[0][0] if problems else 'ok') + ':' + v[0]
            if problems and not _has_nonzero(sp):
                key += ':format-without-nonzero-values'
        elif kind == 'value':
            s = bool(t['s']); c = inp['c']; exp = inp['exp']
            x = Float(s, exp, c)
            mag = Fraction(c) * Fraction(2) ** exp
            mem = _member(desc, sp, s, mag)
            rep = bool(fmt.representable_in(x))
            if rep != mem:
                problems.append(('representable_in != membership', rep, mem))
            if rep and mem:
                if desc['fam'] in ENCODABLE:
                    y = _val(fmt.decode(fmt.encode(x)))
                    if y != ('fin', s, mag):
                        problems.append(('decode(encode(v)) != v', str(y)))
                od = fmt.to_ordinal(x)
                y = _val(fmt.from_ordinal(od))
                if y[0] != 'fin' or y[2] != mag or (mag != 0 and y[1] != s) or ((od == 0) != (mag == 0)) or (mag != 0 and (od < 0) != s):
                    problems.append(('ordinal round trip', od, str(y)))
                nv = fmt.normalize(x)
                if _val(nv) != ('fin', s, mag) or not fmt.canonical_under(nv):
                    problems.append(('normalize', str(_val(nv))))
            key = 'value:' + (problems[0][0] if problems else 'ok')
        elif kind == 'order':
            s1, s2 = bool(t['s1']), bool(t['s2'])
            v = Float(s1, inp['e1'], inp['c1']); w = Float(s2, inp['e2'], inp['c2'])
            a = Fraction(-inp['c1'] if s1 else inp['c1']) * Fraction(2) ** inp['e1']
            b = Fraction(-inp['c2'] if s2 else inp['c2']) * Fraction(2) ** inp['e2']
            if not (_member(desc, sp, s1, abs(a)) and _member(desc, sp, s2, abs(b))):
                return {'violates': False, 'observed': 'not members (assumption)', 'key': 'order:precondition'}
            o1, o2 = fmt.to_ordinal(v), fmt.to_ordinal(w)
            if (a < b) != (o1 < o2) or (a == b) != (o1 == o2):
                problems.append(('order', str(a), str(b), o1, o2))
            key = 'order'
        else:
            if case.get('step') == 'extremes':
                return {'violates': True, 'observed': case.get('info'), 'key': 'extremes'}
            o = inp['o']
            sized = sp.bounded
            if sized:
                lo_o = int(fmt.to_ordinal(fmt.smallest())); hi_o = int(fmt.to_ordinal(fmt.largest()))
                if not (lo_o <= o <= hi_o):
                    try:
                        x = fmt.from_ordinal(o)
                        if not x.is_nar() or desc['fam'] == 'Exp':
                            problems.append(('from_ordinal accepted %d outside [%d, %d]' % (o, lo_o, hi_o), str(_val(x))))
                    except (ValueError, TypeError, OverflowError):
                        pass
                    return {'violates': bool(problems), 'observed': {'problems': [list(map(str, p)) for p in problems[:4]], 'format': repr(fmt)}, 'key': 'contig:outside-range'}
            x = fmt.from_ordinal(o)
            v = _val(x)
            if v[0] != 'fin' or not (v[2] == 0 or _member(desc, sp, v[1], v[2])):
                problems.append(('from_ordinal(o) not a member', str(v)))
            elif fmt.to_ordinal(x) != o:
                problems.append(('to_ordinal(from_ordinal(o)) != o', fmt.to_ordinal(x)))
            else:
                sized = sp.bounded
                lo_o = int(fmt.to_ordinal(fmt.smallest())) if sized else -10 ** 9
                hi_o = int(fmt.to_ordinal(fmt.largest())) if sized else 10 ** 9
                if desc['fam'] != 'Exp':
                    if o < hi_o and fmt.to_ordinal(fmt.next_up(x)) != o + 1:
                        problems.append(('next_up', fmt.to_ordinal(fmt.next_up(x))))
                    if o > lo_o and fmt.to_ordinal(fmt.next_down(x)) != o - 1:
                        problems.append(('next_down', fmt.to_ordinal(fmt.next_down(x))))
            key = 'contig:' + (problems[0][0] if problems else 'ok')
    except Exception as ex:  # noqa
        problems.append(('raised', repr(ex)[:200]))
        key = kind + ':raised'
        if not _has_nonzero(sp):
            key += ':format-without-nonzero-values'
    return {'violates': bool(problems), 'observed': {'problems': [list(map(str, p)) for p in problems[:4]], 'format': repr(fmt)}, 'key': key}


def _has_nonzero(sp):
    return (not sp.bounded) or sp.pos_max != 0 or sp.neg_max != 0
