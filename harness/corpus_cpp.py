"""
Program corpus for C11: FPy programs the C++ backend accepts (float / double contexts under the four hardware rounding modes,
integer contexts, exact arithmetic whose inferred format fits a machine type, loops, branches, tuples, lists).  Function names
start with zq_ so clang's AST dump can be filtered to them.  Fields as in harness/corpus.py plus
  ctx     source text of the context the entry is compiled / called under (default fp.FP64)
  argfmt  source text of the format context of the arguments (default fp.FP64)
"""

P = []


def prog(name, src, args, tags=(), ctx='fp.FP64', argfmt='fp.FP64'):
    P.append(dict(name=name, src=src, entry='zq_' + name, args=args, tags=set(tags), ctx=ctx, argfmt=argfmt))


def namespace():
    import fpy2 as fp
    return dict(D_RTZ=fp.FP64.with_params(rm=fp.RM.RTZ), D_RTP=fp.FP64.with_params(rm=fp.RM.RTP), D_RTN=fp.FP64.with_params(rm=fp.RM.RTN),
                S_RNE=fp.FP32, S_RTZ=fp.FP32.with_params(rm=fp.RM.RTZ), S_RTP=fp.FP32.with_params(rm=fp.RM.RTP), S_RTN=fp.FP32.with_params(rm=fp.RM.RTN))


prog('scalar_modes', '''
@fp.fpy
def zq_scalar_modes(x: fp.Real, y: fp.Real) -> fp.Real:
    with fp.FP64:
        a = x * y
        with D_RTZ:
            b = a * y + x
        with D_RTP:
            c = a * y + x
        with D_RTN:
            d = a * y + x
        r = (c - d) + (b - a)
    return r
''', ['real', 'real'], ['modes'])

prog('float_double_mix', '''
@fp.fpy
def zq_float_double_mix(x: fp.Real, y: fp.Real) -> fp.Real:
    with fp.FP64:
        a = x * y + x
        with fp.FP32:
            b = fp.round(a) * fp.round(y)
            c = b + fp.round(x)
        with S_RTZ:
            d = fp.round(a) * fp.round(a)
        r = a + c + d
    return r
''', ['real', 'real'], ['cast', 'modes'])

prog('nested_restore', '''
@fp.fpy
def zq_nested_restore(x: fp.Real, y: fp.Real) -> fp.Real:
    with fp.FP64:
        a = x * y
        with D_RTP:
            b = a * y
            with D_RTN:
                c = b * y
            d = c * y
        e = d * y
    return e
''', ['real', 'real'], ['modes', 'nested'])

prog('mode_in_branch', '''
@fp.fpy
def zq_mode_in_branch(x: fp.Real, y: fp.Real) -> fp.Real:
    with fp.FP32:
        t = x * y
        if x < y:
            with S_RTZ:
                t = t * y + x
            t = t * y
        else:
            with S_RTP:
                t = t * x + y
        r = t * y + t
    return r
''', ['real', 'real'], ['modes', 'branch'], ctx='fp.FP32', argfmt='fp.FP32')

prog('mode_in_loop', '''
@fp.fpy
def zq_mode_in_loop(xs: list[fp.Real], y: fp.Real) -> fp.Real:
    with fp.FP64:
        acc = y
        for x in xs:
            with D_RTN:
                t = acc * x + y
            acc = t * y
    return acc
''', [('list', [0, 1, 2]), 'real'], ['modes', 'loop', 'list'])

prog('early_return_under_mode', '''
@fp.fpy
def zq_early_return_under_mode(x: fp.Real, y: fp.Real) -> fp.Real:
    with fp.FP32:
        a = x * y
        with S_RTP:
            b = a * y + x
            if b > y:
                return b
        c = a * y + x
    return c
''', ['real', 'real'], ['modes', 'branch'], ctx='fp.FP32', argfmt='fp.FP32')

prog('entry_rtz', '''
@fp.fpy
def zq_entry_rtz(x: fp.Real, y: fp.Real) -> fp.Real:
    a = x * y + x
    with fp.FP64:
        b = a * y + x
    c = b * y + a
    return c
''', ['real', 'real'], ['modes'], ctx='D_RTZ')

prog('fma_neg_abs', '''
@fp.fpy
def zq_fma_neg_abs(x: fp.Real, y: fp.Real, z: fp.Real) -> fp.Real:
    with fp.FP64:
        a = fp.fma(x, y, z)
        b = -(x * y)
        c = abs(b + z)
        with S_RTP:
            d = fp.fma(fp.round(a), fp.round(b), fp.round(c))
        r = a + b + c + d
    return r
''', ['real', 'real', 'real'], ['ops'])

prog('phi_and_while', '''
@fp.fpy
def zq_phi_and_while(x: fp.Real, y: fp.Real) -> fp.Real:
    with fp.FP32:
        t = x
        k = 0
        while k < 3:
            if t < y:
                t = t * 2 + y
            else:
                t = t - y
            k = k + 1
    return t
''', ['real', 'real'], ['loop', 'branch'], ctx='fp.FP32', argfmt='fp.FP32')

prog('minmax_scalar', '''
@fp.fpy
def zq_minmax_scalar(x: fp.Real, y: fp.Real) -> tuple[fp.Real, fp.Real]:
    with fp.FP32:
        a = min(x - y, y - x)
        b = max(x * 2, y * 3, x)
    return a, b
''', ['real', 'real'], ['minmax', 'tuple'], ctx='fp.FP32', argfmt='fp.FP32')

prog('list_sum_loop', '''
@fp.fpy
def zq_list_sum_loop(xs: list[fp.Real], y: fp.Real) -> fp.Real:
    with fp.FP64:
        s = y
        for x in xs:
            s = s + x * y
        t = sum(xs) + s
    return t
''', [('list', [0, 1, 2, 3]), 'real'], ['list', 'loop', 'reduce'])

prog('list_build_and_update', '''
@fp.fpy
def zq_list_build_and_update(xs: list[fp.Real], y: fp.Real) -> list[fp.Real]:
    with fp.FP64:
        ys = [x * y for x in xs]
        ys[0] = ys[0] + y
        zs = ys
        zs[len(xs) - 1] = zs[0] * y
        for i in range(len(ys)):
            ys[i] = ys[i] + i
    return zs
''', [('list', [1, 2, 3]), 'real'], ['list', 'alias', 'update'])

prog('list_copy_vs_alias', '''
@fp.fpy
def zq_list_copy_vs_alias(xs: list[fp.Real], y: fp.Real) -> tuple[fp.Real, fp.Real]:
    with fp.FP64:
        a = [x + y for x in xs]
        b = a
        b[0] = y * y
        c = [v for v in a]
        c[0] = y + 1
        r = a[0] + b[0]
        s = c[0] + a[0]
    return r, s
''', [('list', [1, 2]), 'real'], ['list', 'alias'])

prog('list_minmax', '''
@fp.fpy
def zq_list_minmax(xs: list[fp.Real], y: fp.Real) -> tuple[fp.Real, fp.Real]:
    with fp.FP32:
        ys = [x - y for x in xs]
        lo = min(ys)
        hi = max(ys)
    return lo, hi
''', [('list', [1, 2, 3]), 'real'], ['list', 'minmax', 'reduce'], ctx='fp.FP32', argfmt='fp.FP32')

prog('helper_mutates_list', '''
@fp.fpy
def zq_bump(ys: list[fp.Real], v: fp.Real) -> fp.Real:
    with fp.FP64:
        ys[0] = ys[0] + v
    return ys[0]

@fp.fpy
def zq_helper_mutates_list(xs: list[fp.Real], y: fp.Real) -> fp.Real:
    with fp.FP64:
        zs = [x * y for x in xs]
        t = zq_bump(zs, y)
        r = zs[0] + t
    return r
''', [('list', [1, 2]), 'real'], ['list', 'call', 'alias'])

prog('integer_context', '''
@fp.fpy
def zq_integer_context(x: fp.Real, y: fp.Real) -> fp.Real:
    with fp.FP64:
        a = x + y
        with fp.INTEGER:
            n = fp.round(a)
            m = n + 3
        with fp.FP64:
            r = fp.round(m) * y
    return r
''', ['real', 'real'], ['integer', 'cast'])

prog('real_exact_small', '''
@fp.fpy
def zq_real_exact_small(x: fp.Real, y: fp.Real) -> fp.Real:
    with fp.FP32:
        a = fp.round(x)
        b = fp.round(y)
        with fp.REAL:
            e = a * b
        with fp.FP64:
            r = fp.round(e) + fp.round(a)
    return r
''', ['real', 'real'], ['real', 'cast'])

prog('bool_result', '''
@fp.fpy
def zq_bool_result(x: fp.Real, y: fp.Real) -> bool:
    with fp.FP32:
        a = x * y
        with S_RTN:
            b = a * y + x
    return (a < b or a == y) and not (b != b)
''', ['real', 'real'], ['bool'], ctx='fp.FP32', argfmt='fp.FP32')

# reported by a seeding agent on the unmodified tree: a callee specialised under an integer context keeps the caller's
# hardware rounding mode for its own `with fp.FP64` block
prog('call_from_integer_block_under_mode', '''
@fp.fpy
def zq_helper_own_ctx(x: fp.Real, y: fp.Real) -> fp.Real:
    with fp.FP64:
        return x * y + x

@fp.fpy
def zq_call_from_integer_block_under_mode(x: fp.Real, y: fp.Real) -> tuple[fp.Real, fp.Real]:
    with D_RTP:
        a = x * y + x
        with fp.SINT32:
            b = zq_helper_own_ctx(x, y)
        return a, b
''', ['real', 'real'], ['modes', 'call', 'integer'])
