"""
C03 — Elementary functions and constants are correctly rounded.

Decided symbolically: the MPFR glue lemma (see harness/c02.py, harness/glue.py) for every precision 1..P, every
mode, with/without subnormals, fixed-point targets (two-pass precision selection) and stochastic-widened
round_params: *whatever* real value the C call approximates, mpfr_call -> _round_odd -> ctx.round returns its
single correct rounding and flags exact results exact.

Checked on concrete tables with the real MPFR (labelled concrete in the evidence): every engine wrapper calls
the function it is named after with the operands unchanged and round_params()+2 digits (or the two-pass
sequence); exactly representable true results are returned exactly and not flagged; every constant against a
3000-bit reference for p = 1..P_ref; every function at sampled operands against a 2000-bit reference.
"""
import os

PROPERTY = 'C03'
LEVEL = 'model_checking'
BUDGET_S = {'quick': 3600, 'thorough': 14400}

from . import ctxgrid as G
from . import c02

UNARY = {'acos': 'acos', 'acosh': 'acosh', 'asin': 'asin', 'asinh': 'asinh', 'atan': 'atan', 'atanh': 'atanh', 'cos': 'cos', 'cosh': 'cosh',
         'erf': 'erf', 'erfc': 'erfc', 'exp': 'exp', 'exp2': 'exp2', 'exp10': 'exp10', 'expm1': 'expm1', 'lgamma': '_gmp_lgamma', 'log': 'log',
         'log10': 'log10', 'log1p': 'log1p', 'log2': 'log2', 'sin': 'sin', 'sinh': 'sinh', 'tan': 'tan', 'tanh': 'tanh', 'tgamma': 'gamma',
         'sqrt': 'sqrt', 'cbrt': 'cbrt'}
BINARY = {'pow': '_gmp_pow', 'atan2': 'atan2', 'hypot': 'hypot'}
CONSTS = ['const_pi', 'const_e', 'const_ln2', 'const_log2e', 'const_log10e', 'const_pi_2', 'const_pi_4', 'const_1_pi', 'const_2_pi', 'const_2_sqrt_pi',
          'const_sqrt2', 'const_sqrt1_2']


def glue_ctxs(tier):
    pmax = 5 if tier == 'quick' else 8
    ds = [dict(fam='MPFloat', pmax=p) for p in range(1, pmax + 1)]
    ds += [dict(fam='MPSFloat', pmax=p, emin=e) for p, e in ((1, 0), (2, -1), (4, 1))]
    ds += [dict(fam='IEEE', es=3, nbits=6), dict(fam='MPFixed', nmin=-3), dict(fam='MPFixed', nmin=0), dict(fam='MPFixed', nmin=2),
           dict(fam='Fixed', signed=False, scale=-2, nbits=5, ov='SATURATE'), dict(fam='EFloat', es=2, nbits=5, enable_inf=False, nan_kind='NEG_ZERO', eoffset=-1)]
    return ds


def tasks(tier, seed):
    ts = []
    for d in glue_ctxs(tier):
        for rm in G.MODES:
            for neg in (0, 1):
                for sticky in (0, 1):
                    dd = dict(d, rm=rm)
                    ts.append(dict(kind='glue', name='glue/%s/neg%d/st%d' % (G.name_of(dd), neg, sticky), desc=dd, neg=neg, sticky=sticky))
    for d in [dict(fam='MPFloat', pmax=3), dict(fam='MPFixed', nmin=-2), dict(fam='MPSFloat', pmax=3, emin=-1),
              # bounded families have their own round_params (IEEE / EFloat go through MPBFloatContext.round_params)
              dict(fam='IEEE', es=3, nbits=6), dict(fam='MPBFloat', pmax=2, emin=-4, maxval=[0, 3, 3], ov='SATURATE'), dict(fam='MPBFixed', nmin=-2, maxval=[0, 3, 5], ov='SATURATE')]:
        for k in (1, 2):
            for rm in ('RNE', 'RTZ', 'RAZ'):
                for neg in (0, 1):
                    for sticky in (0, 1):
                        dd = dict(d, rm=rm)
                        ts.append(dict(kind='glue', name='glue-stoch/%s/k%d/neg%d/st%d' % (G.name_of(dd), k, neg, sticky), desc=dd, neg=neg, sticky=sticky, k=k))
    ts.append(dict(kind='c03_structural', name='concrete/structural'))
    ts.append(dict(kind='c03_exact', name='concrete/exact-results'))
    P = 80 if tier == 'quick' else 400
    for i, cname in enumerate(CONSTS):
        ts.append(dict(kind='c03_const', name='concrete/const/%s' % cname, const=cname, pmax=P))
    fns = sorted(UNARY) + sorted(BINARY)
    for fn in fns:
        ts.append(dict(kind='c03_sample', name='concrete/sample/%s' % fn, fn=fn, seed=seed, pmax=64 if tier == 'quick' else 300))
    return ts


def required_witnesses(tier):
    return ['glue-tie-excluded', 'glue-inexact', 'glue-exact', 'glue-two-pass', 'glue-two-pass-recompute', 'glue-subnormal', 'glue-overflow', 'stoch-away', 'stoch-toward']


def describe(tier):
    d = c02.describe(tier)
    R = '/repo/fpy2/'
    d.update(
        functions=['gmputils.mpfr_call (prec branch and two-pass n branch)', 'gmputils._round_odd', 'gmputils.mpfr_value', '*Context.round_params', '*Context.round',
                   'MPFREngine.<every elementary/special function wrapper>, _mpfr_eval, _mpfr_constant, _constant_exprs (call structure, concrete)', 'ops.<fn> / ops.const_* / ops._normalize'],
        files=[R + 'ops.py', R + 'number/engine/gmp.py', R + 'number/gmputils.py', R + 'number/context/context.py'],
        bounds=dict(glue_Y_bits=c02.TIER[tier]['YW'], glue_precisions='1..%d' % (5 if tier == 'quick' else 8), constants_reference_bits=3000,
                    constants_precisions='1..%d, 8 modes, plus subnormal and fixed-point targets' % (80 if tier == 'quick' else 400), sample_reference_bits=2000),
        outside=['whether gmpy2.<f> is the mathematical function f (the MPFR contract; the concrete tables compare against MPFR itself at much higher precision)',
                 'precisions above the stated bound for the symbolic lemma (the lemma is parametric in the function, not in the precision)',
                 'the composite constants use two MPFR operations: their correctness for *all* precisions is a statement about digits of transcendental numbers; they are checked for the stated precisions only'],
        explanation='glue lemma by bounded model checking; wrappers, exact results, constants and samples by concrete tables against high-precision MPFR',
    )
    return d


def run_task(task):
    k = task['kind']
    if k == 'glue':
        return c02.run_task(task)
    from . import c03_replay as RP
    n, bad, samples = getattr(RP, 'table_' + k)(task)
    cex = [{'case': {'task': {'kind': k}, 'inputs': {'row': b}}} for b in bad]
    return dict(paths=0, requires=0, cex=cex, samples=samples[:2], extra={'concrete_%s_cases' % k: n}, witness={})
