"""Concrete judge for C18: the same isolation / history checks on concrete arguments with the real operations."""


def replay(case):
    import fpy2 as fp
    from . import c18, tv
    from fpy2.interpret import byte, interpreter as interp_mod
    t = case['task']; inp = case['inputs']
    if t.get('kind') == 'sched':
        from . import c18_sched
        return c18_sched.replay_sched(c18, case)
    p, f, ns = c18.load(t['prog'])
    shape = [tuple(c) for c in t['shape']]
    problems = []
    for cname, csrc in c18.CONTEXTS.items():
        C = None if csrc is None else eval(csrc, {'fp': fp})  # noqa: S307
        interp_mod._default_interpreter = byte.BytecodeInterpreter()
        args = list(tv.concrete_args(shape, inp))
        before = [c18.snapshot(a) for a in args]
        arg_lists = []
        for a in args:
            c18.containers(a, arg_lists)
        try:
            r0 = f(*args, ctx=C)
        except Exception:  # noqa
            continue
        if before != [c18.snapshot(a) for a in args]:
            problems.append(('argument-modified', cname))
        if any(rl is al for rl in c18.containers(r0, []) for al in arg_lists):
            problems.append(('result-aliases-argument', cname))
        interp_mod._default_interpreter = byte.BytecodeInterpreter()
        labs = c18.history(f, ns, lambda: list(tv.concrete_args(shape, inp)), lambda g, a, c: g(*a, ctx=c))
        try:
            r1 = f(*list(tv.concrete_args(shape, inp)), ctx=C)
            if not tv.conc_eq(c18._norm(r0), c18._norm(r1)):
                problems.append(('history', '%s: fresh %s, after history %s' % (cname, tv._show(r0), tv._show(r1))))
        except Exception as ex:  # noqa
            problems.append(('history', '%s: raised %r after the history' % (cname, ex)))
    want = case.get('variant')
    mine = [q for q in problems if q[0] == want] or problems
    return {'violates': bool(mine), 'observed': {'arguments': [tv._show(a) for a in tv.concrete_args(shape, inp)], 'problems': [list(map(str, q)) for q in mine[:3]]}, 'key': '%s:%s' % (t['prog'], mine[0][0]) if mine else 'ok'}
