"""
C18 (the part a solver can range over) — evaluation is pure and isolated from the caller, and independent of what was evaluated before.

Through the PUBLIC call `f(*args, ctx=C)` (Function.__call__ -> default interpreter, boundary conversion both ways) on argument
structures with SYMBOLIC leaves, for every feasible path:
  isolation   after the call every argument container is the object it was, holds the same leaf objects in the same places
              (also when the function writes its list parameters), and no list inside the result is one of the argument lists
              or shared with them;
  history     the call is repeated (a) on a fresh interpreter and (b) on an interpreter that has a HISTORY behind it — other
              functions, the same function under other contexts, transformed copies of the same function (simplify, unroll,
              monomorphize) evaluated first, in the orders listed — and z3 decides that both return the same value.
  schedules   two concurrent public calls on one interpreter with the interleaving a symbolic bit-vector (harness/c18_sched.py):
              preemption at every access to shared interpreter state and between rounded operations, bounded number of preemptions.
"""
PROPERTY = 'C18'
LEVEL = 'model_checking'
BUDGET_S = {'quick': 3600, 'thorough': 14400}

from . import tv, corpus

EXTRA = []


def prog(name, src, entry, args, tags):
    EXTRA.append(dict(name=name, src=src, entry=entry, args=args, tags=set(tags)))


prog('returns_its_parameter', '''
@fp.fpy
def f(xs: list[fp.Real], y: fp.Real) -> list[fp.Real]:
    xs[0] = xs[0] + y
    return xs
''', 'f', [('list', [1, 2]), 'real'], ['isolation'])

prog('returns_nest_of_parameters', '''
@fp.fpy
def f(xs: list[fp.Real], ys: list[fp.Real]) -> tuple[list[fp.Real], list[list[fp.Real]]]:
    ys[0] = xs[0]
    return (xs, [ys, xs])
''', 'f', [('list', [1, 2]), ('list', [1])], ['isolation'])

prog('writes_through_alias_of_parameter', '''
@fp.fpy
def f(xs: list[fp.Real], y: fp.Real) -> fp.Real:
    zs = xs
    for i in range(len(zs)):
        zs[i] = zs[i] * y
    return sum(xs)
''', 'f', [('list', [0, 1, 2]), 'real'], ['isolation'])

prog('helper_writes_parameter', '''
@fp.fpy
def bump(ys: list[fp.Real], v: fp.Real) -> fp.Real:
    ys[0] = ys[0] + v
    return ys[0]

@fp.fpy
def f(xs: list[fp.Real], y: fp.Real) -> tuple[fp.Real, list[fp.Real]]:
    t = bump(xs, y)
    return (t, xs)
''', 'f', [('list', [1, 2]), 'real'], ['isolation'])

prog('branch_then_write', '''
@fp.fpy
def f(xs: list[fp.Real], y: fp.Real) -> list[fp.Real]:
    if y > xs[0]:
        xs[0] = y
    else:
        xs[0] = xs[0] - y
    t = [v for v in xs]
    return t
''', 'f', [('list', [1, 2]), 'real'], ['isolation', 'history'])

prog('context_sensitive', '''
@fp.fpy
def f(x: fp.Real, y: fp.Real) -> fp.Real:
    a = x * y + x
    with C3UP:
        b = a * y
    return a + b
''', 'f', ['real', 'real'], ['history'])

prog('helper_inherits_context', '''
@fp.fpy
def g(a: fp.Real, b: fp.Real) -> fp.Real:
    return a * b + a

@fp.fpy
def f(x: fp.Real, y: fp.Real) -> fp.Real:
    u = g(x, y)
    with C3DN:
        v = g(x, y)
    return u - v
''', 'f', ['real', 'real'], ['history'])


prog('captured_list_written', '''
TABLE = [1.0, 2.0, 3.0]

@fp.fpy
def f(x: fp.Real, y: fp.Real) -> fp.Real:
    TABLE[0] = TABLE[0] + x
    return TABLE[0] * y
''', 'f', ['real', 'real'], ['history', 'captured'])

prog('captured_list_returned', '''
TABLE = [1.0, 2.0, 3.0]

@fp.fpy
def f(x: fp.Real, y: fp.Real) -> tuple[fp.Real, list[fp.Real]]:
    return (x + y, TABLE)
''', 'f', ['real', 'real'], ['history', 'captured'])

prog('captured_list_read_only', '''
TABLE = [1.0, 2.0, 3.0]

@fp.fpy
def f(x: fp.Real, y: fp.Real) -> fp.Real:
    t = [v * x for v in TABLE]
    t[0] = t[0] + y
    return t[0] + TABLE[0]
''', 'f', ['real', 'real'], ['history', 'captured'])


prog('list_inside_tuple_argument', '''
@fp.fpy
def f(p: tuple[list[fp.Real], fp.Real]) -> list[fp.Real]:
    xs, k = p
    for i in range(len(xs)):
        xs[i] = xs[i] * k
    return xs
''', 'f', [('pair', [1, 2])], ['isolation'])


def _programs(tier):
    names = ('helper_mutates_list', 'loop_carried_tuple', 'sem_callee_contexts', 'copy_across_loop', 'const_under_contexts', 'sem_minmax_literal_zero', 'copy_in_branch', 'shortcircuit')
    base = [p for p in corpus.P if p['name'] in names or ('alias' in p['tags'] and 'no_ref' not in p['tags'] and 'list' in p['tags'])][:10]
    return EXTRA + base


def tasks(tier, seed):
    ts = []
    for p in _programs(tier):
        for shape in tv.arg_shapes(p, tier):
            if sum(c[1] for c in shape if c[0] in ('list', 'pair')) > 3:
                continue
            ts.append(dict(kind='pure', name='pure/%s/%s' % (p['name'], '-'.join(str(c[-1]) if len(c) > 1 else 'r' for c in shape)), prog=p['name'], shape=[list(c) for c in shape], cost=2))
    import sys
    from . import c18_sched
    ts += c18_sched.sched_tasks(sys.modules[__name__], tier)
    return ts


def required_witnesses(tier):
    return ['returns', 'argument-written-by-callee', 'result-contains-list', 'history-replayed', 'transformed-copy-in-history', 'same-named-function-in-history',
            'preempted', 'preempted-twice', 'preempted-between-operations', 'preempted-at-cache-access']


CONTEXTS = {'mps4': 'fp.MPSFloatContext(4, -3)', 'mp2up': 'fp.MPFloatContext(2, fp.RM.RTP)', 'none': None}


def snapshot(v):
    """structure of a host argument: containers by identity, leaves by identity"""
    if isinstance(v, (list, tuple)):
        return (id(v), type(v).__name__, [snapshot(x) for x in v])
    return ('leaf', id(v))


def containers(v, out):
    if isinstance(v, (list, tuple)):
        if isinstance(v, list):
            out.append(v)
        for x in v:
            containers(x, out)
    return out


def history(f, ns, args_builder, rt_call0):
    """things evaluated before the call under test; returns labels"""
    import fpy2 as fp
    from fpy2 import strategies as st
    labs = []
    others = [v for k, v in ns.items() if isinstance(v, fp.Function) and v is not f]

    def rt_call(g, a, c):
        # a loop counter can stall under a narrow context: an evaluation of the history that does not finish is skipped
        return tv.with_timeout(lambda: rt_call0(g, a, c), 10)
    # functions of OTHER programs that carry the same name (every corpus entry is called `f`): a cache keyed by name would hand
    # their code to the call under test
    for q in _programs('quick'):
        if q['src'].strip() == getattr(f, '_verif_src', '').strip() or len(labs) > 8:
            continue
        if len(q['args']) != len(f.args) or [a if isinstance(a, str) else a[0] for a in q['args']] != [a if isinstance(a, str) else a[0] for a in getattr(f, '_verif_args', [])]:
            continue
        try:
            g, _ns = tv.load_program(q)
            if g.name != f.name:
                continue
            rt_call(g, args_builder(), fp.MPSFloatContext(4, -3)); labs.append('same-named function of program %s' % q['name'])
        except (Exception, tv.TransformTimeout):  # noqa
            pass
    for C in (fp.MPFloatContext(3, fp.RM.RTP), fp.MPSFloatContext(3, -2, fp.RM.RTN)):
        try:
            r = rt_call(f, args_builder(), C); labs.append('same function under %r' % (C,))
            # what the caller does with a result is its own business: overwrite the elements of every list in it
            for lst in containers(r, []):
                for i in range(len(lst)):
                    if not isinstance(lst[i], (list, tuple)):
                        lst[i] = fp.Float.from_int(99)
                        if 'caller overwrote the lists of an earlier result' not in labs:
                            labs.append('caller overwrote the lists of an earlier result')
        except (Exception, tv.TransformTimeout):  # noqa
            pass
    for g in others[:2]:
        try:
            rt_call(g, args_builder()[:len(g.args)], fp.MPFloatContext(2, fp.RM.RTZ)); labs.append('other function %s' % g.name)
        except (Exception, tv.TransformTimeout):  # noqa
            pass
    for nm, th in (('simplify', lambda: st.simplify(f)), ('unroll_for', lambda: st.unroll_for(f, None, 1)), ('monomorphize', lambda: st.monomorphize(f, fp.MPSFloatContext(3, -2)))):
        try:
            h = th()
            rt_call(h, args_builder(), None if nm == 'monomorphize' else fp.MPFloatContext(3)); labs.append('transformed copy: ' + nm)
        except (Exception, tv.TransformTimeout):  # noqa
            pass
    return labs


def load(pname):
    p = next(q for q in _programs('quick') if q['name'] == pname)
    f, ns = tv.load_program(p)
    try:
        f._verif_src = p['src']; f._verif_args = p['args']
    except AttributeError:
        pass
    return p, f, ns


def run_task(task):
    from pysym.core import explore
    from pysym import shims
    import fpy2 as fp
    from fpy2.interpret import byte, interpreter as interp_mod
    if task.get('kind') == 'sched':
        import sys
        from . import c18_sched
        return c18_sched.run_sched(sys.modules[__name__], task)
    tier = task.get('tier', 'quick'); t = tv.TIER[tier]
    p, f, ns = load(task['prog'])
    shape = [tuple(c) for c in task['shape']]
    tv.install_runtime()
    samples = []

    def fresh_rt():
        rt = byte.BytecodeInterpreter()
        shims.patch(interp_mod, '_default_interpreter', rt)
        return rt

    def setup(e):
        return (tv.SymArgs(e, shape, t['CW'], None),)

    def run(e, sa):
        for cname, csrc in CONTEXTS.items():
            C = None if csrc is None else eval(csrc, {'fp': fp})  # noqa: S307
            # (1) the call under test on a fresh interpreter, through the public boundary
            fresh_rt()
            args = list(sa.build())
            before = [snapshot(a) for a in args]
            arg_lists = []
            for a in args:
                containers(a, arg_lists)
            try:
                r0 = tv.with_timeout(lambda: f(*args, ctx=C), 30)
            except Exception as ex:  # noqa   the function does not return here (raises, or a counter stalls under this context): nothing to compare
                continue
            e.cover('returns', True)
            after = [snapshot(a) for a in args]
            e.require(before == after, info={'context': cname, 'an argument was modified by the call': True}, tag='argument-modified')
            res_lists = containers(r0, [])
            if res_lists:
                e.cover('result-contains-list', True)
            if 'xs[' in p['src'] or 'ys[' in p['src'] or 'zs[' in p['src']:
                e.cover('argument-written-by-callee', True)
            shared = [1 for rl in res_lists for al in arg_lists if rl is al]
            e.require(not shared, info={'context': cname, 'the result shares a list with an argument': True}, tag='result-aliases-argument')
            # (2) the same call after a history on ONE interpreter
            fresh_rt()
            labs = history(f, ns, lambda: list(sa.build()), lambda g, a, c: g(*a, ctx=c))
            if labs:
                e.cover('history-replayed', True)
            if any(x.startswith('transformed') for x in labs):
                e.cover('transformed-copy-in-history', True)
            if any(x.startswith('same-named') for x in labs):
                e.cover('same-named-function-in-history', True)
            try:
                r1 = tv.with_timeout(lambda: f(*list(sa.build()), ctx=C), 60)
            except Exception as ex:  # noqa
                e.require(False, info={'context': cname, 'after the history the call raised': repr(ex)[:120], 'history': labs}, tag='history'); continue
            try:
                post = tv.eqv(_norm(r0), _norm(r1))
            except NotImplementedError as ex:
                e.require(False, info={'harness': str(ex)}, tag='harness'); continue
            e.require(post, info={'context': cname, 'history': labs}, tag='history')
        if len(samples) < 2:
            samples.append({'task': task['name'], 'example_arguments': e.model_inputs()})
    W = 96
    eng = explore(run, setup, W=W, bl_max=W - 6, max_paths=2000)
    cexs = []
    for cx in eng.cex:
        if cx.get('unknown') or cx.get('inputs') is None:
            cexs.append({'case': None})
        else:
            tt = {k: v for k, v in task.items() if k not in ('name', 'cost')}
            cexs.append({'case': {'task': tt, 'inputs': cx['inputs'], 'variant': cx.get('tag'), 'info': str(cx.get('info'))[:300]}, 'failed_obligations': cx.get('failed_obligations')})
    return dict(paths=eng.paths, decisions=eng.decisions, queries=eng.checks, unsat=eng.unsat, sat=eng.sat, unknown=eng.unknown, solve_s=eng.solve_s, requires=eng.requires,
                aborted=eng.aborted, witness=eng.witness, notes=eng.notes, cex=cexs, samples=samples, extra={'programs': 1})


def _norm(v):
    if isinstance(v, (list, tuple)):
        return tuple(_norm(x) for x in v)
    return v


def describe(tier):
    R = '/repo/fpy2/'
    return dict(
        functions=['harness/c18_sched.py: two real threads under a hand-off scheduler, preemption decided by a symbolic schedule', 'function.Function.__call__', 'interpret.interpreter (default interpreter, func_cache, _func_ctx)', 'interpret.value.to_value / from_value (boundary conversion)', 'interpret.byte.BytecodeInterpreter.eval(convert=True) and the compiled functions',
                   'strategies.simplify / unroll_for / monomorphize (to build the transformed copies of the history)'],
        files=[R + 'interpret/byte.py', R + 'interpret/interpreter.py', R + 'interpret/value.py', R + 'function.py', R + 'number/globals.py'],
        bounds=dict(programs=len(_programs(tier)), caller_contexts=list(CONTEXTS.values()), history='same function under 2 other contexts, up to 2 other functions of the program, same-named entry functions of other corpus programs with the same argument kinds, 3 transformed copies; one order',
                    argument_significand_bits=tv.TIER[tier]['CW'], list_lengths='0..3',
                    schedules=dict(threads=2, preemptions_at_most=__import__('harness.c18_sched', fromlist=['x']).PREEMPTIONS[tier], schedule_bits=120,
                                   yield_points='Function.__call__, BytecodeInterpreter.eval, every func_cache access, _func_ctx, get_default_interpreter, _call_fpy, to_value / from_value at the boundary, every rounded operation' + ('; every Python-level call inside fpy2/interpret/*.py and fpy2/function.py' if tier == 'thorough' else ''),
                                   partners='the same function under another context; a same-named entry function of another program; simplify(f)', context_pairs=__import__('harness.c18_sched', fromlist=['x']).PAIR_CONTEXTS,
                                   programs=list(__import__('harness.c18_sched', fromlist=['x']).SCHED_PROGRAMS))),
        outside=['preemption between two yield points (code there is assumed to touch only objects owned by the running evaluation)', 'more than two threads, more preemptions than the bound', 'the real MPFR calls under concurrency (gmpy2 contexts are thread-local in C; the operations are summaries here; the replay uses the real ones)', 'histories other than the listed one', 'MPFR / gmpy2 global state (the operations are the validated summaries here)', 'programs outside the corpus'],
        stubs=['ops.add/sub/mul/fma/neg/fabs/round -> validated summaries', 'int / Fraction proxies, number formatting'],
        assumptions=['a deterministic context (no stochastic rounding)', 'CPython switches threads only between bytecodes; state shared between evaluations is reached only through the listed yield points'],
        rule='one case = one feasible path of a corpus program called through Function.__call__ on symbolic argument structures, under each caller context, fresh and after the history',
        explanation='bounded model checking of the public call boundary: argument isolation, result freshness and history independence per feasible path',
    )
