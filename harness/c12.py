"""
C12 — Translation to and from FPCore preserves meaning.

The translators run concretely on the real code (they are compilers: FPCoreCompiler.compile with its bundling passes,
Function.from_fpcore / frontend.fpc.fpcore_to_fpy, FPCoreContext.to_context / from_context).  What is symbolic is the
argument vector: for one program the solver decides, on every joint path, that

  fwd   the FPy function f, run by the real interpreter, returns what the reference FPCore evaluator (spec/fpcore_ref.py,
        written from the FPCore standard) computes for the *printed text* of compile(f);
  rt    Function.from_fpcore(compile(f)) — the core object as handed back by the compiler, and the re-parsed text — run
        by the real interpreter returns the same (compiling and re-reading does not change behaviour);
  core  for FPCore texts written from the standard: from_fpcore(core) run by the real interpreter returns what the
        reference evaluator computes for the core; and compile(from_fpcore(core)) evaluates to the same again.

Both sides call the same primitive rounded operations (validated summaries), so the claim is about everything around
them: which operation runs on which values under which rounding properties — in particular the scope of `!` versus `with`.
Concrete replays are judged a second time by titanfp's own interpreter where it can evaluate the core.
"""
PROPERTY = 'C12'
LEVEL = 'translation_validation'
FPY_RUN_LIMIT_S = 8      # corpus programs evaluate in milliseconds; a re-read function still running after this long counts as not returning
BUDGET_S = {'quick': 3600, 'thorough': 14400}

from . import tv, corpus_fpc

CW = {'quick': 4, 'thorough': 5}


def _shape_name(shape):
    return '-'.join(str(c[-1]) if len(c) > 1 else 'r' for c in shape)


def tasks(tier, seed):
    ts = []
    for p in corpus_fpc.P:
        for shape in tv.arg_shapes(p, tier):
            ts.append(dict(kind='prog', name='prog/%s/%s' % (p['name'], _shape_name(shape)), prog=p['name'], shape=[list(c) for c in shape],
                           cost=2 + sum(c[1] if c[0] == 'list' else 1 for c in shape)))
    for c in corpus_fpc.CORES:
        for shape in tv.arg_shapes(c, tier):
            ts.append(dict(kind='core', name='core/%s/%s' % (c['name'], _shape_name(shape)), prog=c['name'], shape=[list(x) for x in shape],
                           cost=2 + sum(x[1] if x[0] == 'list' else 1 for x in shape)))
    ts.append(dict(kind='special', name='concrete/special-arguments-vs-titanfp', cost=8))
    return ts


def required_witnesses(tier):
    return ['fwd-returns', 'rt-returns', 'core-returns', 'nested-annotation', 'continuation-after-inner-block', 'loop', 'tensor', 'concrete-special']


# ---- building the objects under test (real code, concrete) --------------------------------------------------------------------------------
def load_prog(p, shape):
    """returns dict: f (entry Function), funcs (all Functions of the program text), sized for this argument shape"""
    import fpy2 as fp
    from . import progs
    from fpy2.ast.fpyast import ListTypeAnn, RealTypeAnn
    ns = dict(corpus_fpc.namespace())
    g = progs.load(p['src'] + '# c12 ' + p['name'] + _shape_name(shape), ns)
    funcs = {k: v for k, v in g.items() if isinstance(v, fp.Function)}
    f = g[p['entry']]
    k = 0
    for arg, c in zip(f.ast.args, shape):
        if c[0] == 'list':
            arg.type = ListTypeAnn(RealTypeAnn(None, None), c[1], None)
    return dict(f=f, funcs=funcs)


def compile_prog(p, L):
    """real FPCoreCompiler on the entry and on every other function of the program; returns (entry core object, {ident: core object})"""
    from fpy2 import FPCoreCompiler
    comp = FPCoreCompiler(unsafe_int_cast=bool(p.get('uic', True)))
    cores = {}
    for name, fn in L['funcs'].items():
        cores[name] = comp.compile(fn)
    return cores[p['entry']], cores


def reparse(core):
    """the core as FPCore text, read back by titanfp's parser (a core *is* its text; the object graph may hold raw strings)"""
    from titanfp.fpbench import fpcparser
    c = fpcparser.compile1(core_text(core))
    c.ident = core.ident
    return c


def core_text(core):
    """S-expression of a core (titanfp's own `sexp` prints a tensor argument `(xs 3)` as `(xs3)`)"""
    from titanfp.fpbench.fpcast import sexp_to_string

    def arg(a):
        name, props, shape = a
        s = name if not shape else '(%s %s)' % (name, ' '.join(str(d) for d in shape))
        if props:
            s = '(! %s %s)' % (' '.join(':%s %s' % (k, sexp_to_string(v)) for k, v in props.items()), s)
        return s
    return '(FPCore (%s) %s%s)' % (' '.join(arg(a) for a in core.inputs), ''.join(':%s %s ' % (k, sexp_to_string(v)) for k, v in core.props.items()), str(core.e))


def reread(core, cores=None):
    """Function.from_fpcore with the program's other cores re-read first and visible by name"""
    import fpy2 as fp
    from fpy2 import Function
    from fpy2.env import ForeignEnv
    env = None
    if cores and len(cores) > 1:
        d = {}
        for name, c in cores.items():
            if c is not core and name != core.ident:
                d[name] = Function.from_fpcore(c, ignore_unknown=True)
        env = ForeignEnv(d, {}, {}) if d else None
    if env is not None:
        return Function.from_fpcore(core, env=env, ignore_unknown=True)
    return Function.from_fpcore(core)


def make_context(kind, params, rm):
    import fpy2 as fp
    if kind == 'real':
        return fp.REAL
    if kind == 'integer':
        # the integers have neither NaN, infinities nor a signed zero
        return fp.MPFixedContext(-1, getattr(fp.RM, rm), enable_nan=False, enable_inf=False, enable_neg_zero=False)
    if kind == 'ieee':
        return fp.IEEEContext(params[0], params[1], getattr(fp.RM, rm))
    if kind == 'fixed':
        scale, nbits = params
        if nbits < 1:
            raise ValueError('fixed: nbits = %d' % nbits)
        return fp.FixedContext(True, scale, nbits, getattr(fp.RM, rm), fp.OV.SATURATE)
    raise ValueError(kind)


def num_helpers():
    from . import c04
    from fractions import Fraction
    from fpy2 import Float
    from spec.fpcore_ref import Stuck, Unsupported
    base = c04.num_helpers()

    def as_index(v):
        from pysym.core import SymInt
        if isinstance(v, Float):
            if type(v.c) is SymInt or type(v.exp) is SymInt or type(v.s) is SymInt:
                raise Unsupported('symbolic index')
            if v.is_nar():
                raise Stuck('index is not a number')
            q = v.as_rational()
        else:
            q = Fraction(v)
        if q.denominator != 1:
            raise Stuck('non-integer index')
        return int(q)
    d = dict(base)
    d.update(as_index=as_index, from_int=lambda n: Float.from_int(n), from_rational=lambda q: Float.from_rational(q),
             nan=lambda: Float(isnan=True), inf=lambda: Float(isinf=True))
    return d


def make_ref(cores_text, S):
    from spec.fpcore_ref import FPCoreRef
    prim = dict(add=S['add'], sub=S['sub'], mul=S['mul'], fma=S['fma'], neg=S['neg'], abs=S['fabs'], round=S['round'])
    return FPCoreRef(cores_text, prim, num_helpers(), make_context)


def norm(v):
    """lists and tuples are both FPCore tensors"""
    if isinstance(v, (list, tuple)):
        return tuple(norm(x) for x in v)
    return v


def _prims():
    import fpy2.ops as ops
    return dict(add=ops.add, sub=ops.sub, mul=ops.mul, fma=ops.fma, neg=ops.neg, fabs=ops.fabs, round=ops.round)


def build_variants(task):
    """everything concrete for a task: reference cores (re-parsed text), and the FPy functions to compare against the reference.
    returns dict(ref_cores, entry, variants=[(label, Function or ('raise', text))], witness)"""
    wit = {}
    if task['kind'] == 'prog':
        p = next(q for q in corpus_fpc.P if q['name'] == task['prog'])
        shape = [tuple(c) for c in task['shape']]
        L = load_prog(p, shape)
        core, cores = compile_prog(p, L)
        text = {name: reparse(c) for name, c in cores.items()}
        variants = [('fwd', L['f'])]
        # a re-read function that calls another core has no binding for the callee (from_fpcore produces no free variables):
        # the re-reading direction is claimed for self-contained cores only
        rts = () if len(cores) > 1 else (('rt-object', lambda: reread(core, cores)), ('rt-text', lambda: reread(text[p['entry']], text)))
        for lab, thunk in rts:
            try:
                variants.append((lab, thunk()))
            except Exception as ex:  # noqa
                variants.append((lab, ('raise', repr(ex)[:200])))
        s = core_text(core)
        if s.count('(!') > 1:
            wit['nested-annotation'] = 1
        if 'nested' in p['tags']:
            wit['continuation-after-inner-block'] = 1
        if 'loop' in p['tags']:
            wit['loop'] = 1
        if 'tensor' in p['tags']:
            wit['tensor'] = 1
        return dict(ref_cores=text, entry=p['entry'], variants=variants, witness=wit, sexp=s)
    c = next(q for q in corpus_fpc.CORES if q['name'] == task['prog'])
    from titanfp.fpbench import fpcparser
    cores = {}
    for k in fpcparser.compile(c['text']):
        cores[k.ident] = k
    entry = c['entry'] or list(cores)[-1]
    variants = []
    try:
        g = reread(cores[entry], cores)
        variants.append(('core', g))
    except Exception as ex:  # noqa
        g = None
        variants.append(('core', ('raise', repr(ex)[:200])))
    if 'loop' in c['tags']:
        wit['loop'] = 1
    if 'tensor' in c['tags']:
        wit['tensor'] = 1
    if c['text'].count('(!') > 1 or ('(!' in c['text'] and ':precision' in c['text'].split('(!')[0]):
        wit['nested-annotation'] = 1
    return dict(ref_cores=cores, entry=entry, variants=variants, witness=wit, sexp=c['text'], reread=g)


def second_core(task, B):
    """compile(from_fpcore(core)) for the hand-written cores: the reference evaluates it too"""
    from fpy2 import FPCoreCompiler
    g = B.get('reread')
    if g is None:
        return None
    try:
        c2 = FPCoreCompiler(unsafe_int_cast=True).compile(g)
        return reparse(c2)
    except Exception:  # noqa   the compiler may decline a re-read function (unrounded constants ...): nothing to compare
        return None


def width_for(task, B):
    s = B['sexp']
    amb = 'binary64' in s or ('prog' == task['kind'] and 'ambient' in next(q for q in corpus_fpc.P if q['name'] == task['prog'])['tags']) or \
          (task['kind'] == 'core' and 'ambient' in next(q for q in corpus_fpc.CORES if q['name'] == task['prog'])['tags'])
    return 96 if amb else int(B.get('W', 40))


def run_task(task):
    if task['kind'] == 'special':
        return run_special(task)
    from pysym.core import explore
    from spec.fpcore_ref import Unsupported, Stuck
    tier = task.get('tier', 'quick')
    shape = [tuple(c) for c in task['shape']]
    B = build_variants(task)
    core2 = second_core(task, B) if task['kind'] == 'core' else None
    rt = tv.install_runtime()
    S = _prims()                      # the summaries (install_runtime rebinds fpy2.ops)
    ref = make_ref(B['ref_cores'], S)
    ref2 = make_ref({B['entry']: core2}, S) if core2 is not None else None
    samples = []; notes = []
    wit = dict(B['witness'])
    kindtag = 'core' if task['kind'] == 'core' else None

    def setup(e):
        return (tv.SymArgs(e, shape, CW[tier], None),)

    def run(e, sa):
        try:
            want = ('ok', norm(ref.run(B['entry'], [norm(a) for a in sa.build()])))
        except Unsupported as ex:
            if not notes:
                notes.append('outside the reference evaluator: %s' % ex)
            return
        except Stuck as ex:
            want = ('stuck', str(ex))
        for lab, g in B['variants']:
            if isinstance(g, tuple):
                if want[0] == 'ok':
                    e.require(False, info={'variant': lab, 'reading the core back raised': g[1]}, tag=lab)
                continue
            try:
                got = ('ok', norm(tv.with_timeout(lambda: rt.eval(g, sa.build(), None, convert=False), FPY_RUN_LIMIT_S)))
            except tv.TransformTimeout:
                # the core has a value on this path (the reference returned); the FPy side is still running
                if want[0] == 'ok':
                    e.require(False, info={'variant': lab, 'FPy side did not return within %d s on this path' % FPY_RUN_LIMIT_S: True}, tag=lab)
                continue
            except Exception as ex:  # noqa
                got = ('raise', ex)
            if want[0] == 'stuck':
                e.require(got[0] == 'raise', info={'variant': lab, 'reference is stuck': want[1]}, tag=lab + ':stuck')
                continue
            if got[0] == 'raise':
                e.require(False, info={'variant': lab, 'FPy side raised': repr(got[1])[:160]}, tag=lab)
                continue
            try:
                post = tv.eqv(want[1], got[1])
            except NotImplementedError as ex:
                e.require(False, info={'harness': str(ex)}, tag='harness'); continue
            e.cover({'fwd': 'fwd-returns', 'core': 'core-returns'}.get(lab, 'rt-returns'), True)
            e.require(post, info={'variant': lab}, tag=lab)
        if ref2 is not None and want[0] == 'ok':
            try:
                w2 = norm(ref2.run(B['entry'], [norm(a) for a in sa.build()]))
                e.require(tv.eqv(want[1], w2), info={'variant': 'core-recompiled'}, tag='core-recompiled')
            except Unsupported:
                pass
            except Stuck as ex:
                e.require(False, info={'variant': 'core-recompiled', 'recompiled core is stuck': str(ex)}, tag='core-recompiled')
        if len(samples) < 2:
            samples.append({'task': task['name'], 'core': B['sexp'][:300], 'example_arguments': e.model_inputs()})
    W = width_for(task, B)
    eng = explore(run, setup, W=W, bl_max=W - 6, max_paths=4000)
    for k, v in wit.items():
        eng.witness[k] = eng.witness.get(k, 0) + v
    cexs = []
    for cx in eng.cex:
        if cx.get('unknown') or cx.get('inputs') is None:
            cexs.append({'case': None})
        else:
            tt = {k: v for k, v in task.items() if k not in ('name', 'cost')}
            cexs.append({'case': {'task': tt, 'inputs': cx['inputs'], 'variant': cx.get('tag'), 'info': str(cx.get('info'))}, 'failed_obligations': cx.get('failed_obligations')})
    return dict(paths=eng.paths, decisions=eng.decisions, queries=eng.checks, unsat=eng.unsat, sat=eng.sat, unknown=eng.unknown, solve_s=eng.solve_s, requires=eng.requires,
                aborted=eng.aborted, witness=eng.witness, notes=eng.notes + notes, cex=cexs, samples=samples,
                extra={'programs': 1, 'outside_reference': 1 if notes else 0, 'variants_checked': [v[0] for v in B['variants']] + (['core-recompiled'] if ref2 else [])})


# ---- concrete judge (replay and the special-argument table): real operations, no shims, plus titanfp's interpreter -------------------------
def titanfp_eval(cores, entry, args):
    """titanfp's MPMF interpreter on the core; returns ('ok', value) / ('raise', text) / ('skip', why)"""
    try:
        from titanfp.arithmetic.mpmf import MPMF, Interpreter
        from titanfp.arithmetic import ndarray
    except Exception as ex:  # noqa
        return ('skip', 'titanfp unavailable: %r' % ex)
    from fpy2 import Float

    def to_m(x):
        if isinstance(x, (list, tuple)):
            return [to_m(v) for v in x]
        return MPMF(negative=bool(x.s), exp=int(x.exp), c=int(x.c), isinf=bool(x.isinf), isnan=bool(x.isnan))

    def from_m(v):
        if isinstance(v, bool):
            return v
        if isinstance(v, ndarray.NDArray) or hasattr(v, 'to_list'):
            return from_m(v.to_list())
        if isinstance(v, (list, tuple)):
            return tuple(from_m(x) for x in v)
        if v.isnan:
            return Float(isnan=True)
        if v.isinf:
            return Float(isinf=True, s=bool(v.negative))
        return Float(bool(v.negative), int(v.exp), int(v.c))
    try:
        it = Interpreter()
        for k, c in cores.items():
            if k != entry:
                it.register_function(c)
        r = it.interpret(cores[entry], [to_m(a) for a in args])
        return ('ok', from_m(r))
    except Exception as ex:  # noqa
        return ('raise', '%s: %s' % (type(ex).__name__, str(ex)[:120]))


def judge_concrete(task, args):
    """returns (problems, info): problems = list of (variant label, description)"""
    from fpy2.interpret import byte
    from spec.fpcore_ref import Unsupported, Stuck
    B = build_variants(task)
    S = _prims()
    ref = make_ref(B['ref_cores'], S)
    info = {}
    try:
        want = ('ok', norm(ref.run(B['entry'], [norm(a) for a in args])))
    except Unsupported as ex:
        return [], {'outside the reference evaluator': str(ex)}
    except Stuck as ex:
        want = ('stuck', str(ex))
    except Exception as ex:  # noqa   an operation itself raised (a context that cannot hold the result)
        want = ('stuck', 'operation raised %r' % ex)
    info['reference'] = tv._show(want[1]) if want[0] == 'ok' else 'stuck: ' + want[1]
    # second opinion on the reference: titanfp's interpreter on the same core.  The arguments of the claim are representable
    # in every precision used, so titanfp's rounding of inputs on entry does not matter.
    tf = titanfp_eval(B['ref_cores'], B['entry'], args)
    info['titanfp'] = tv._show(tf[1]) if tf[0] == 'ok' else '%s: %s' % tf
    if tf[0] == 'ok' and want[0] == 'ok' and not tv.conc_eq(want[1], tf[1]):
        info['reference-disagrees-with-titanfp'] = True
    problems = []
    for lab, g in B['variants']:
        if isinstance(g, tuple):
            if want[0] == 'ok':
                problems.append((lab, 'reading the core back raised %s' % g[1]))
            continue
        try:
            got = ('ok', norm(tv.with_timeout(lambda: byte.BytecodeInterpreter().eval(g, tuple(args), None, convert=False), FPY_RUN_LIMIT_S)))
        except tv.TransformTimeout:
            if want[0] == 'ok':
                problems.append((lab, 'reference %s, the FPy side did not return within %d s' % (tv._show(want[1]), FPY_RUN_LIMIT_S)))
            continue
        except Exception as ex:  # noqa
            got = ('raise', repr(ex)[:160])
        if want[0] == 'stuck':
            if got[0] != 'raise':
                problems.append((lab + ':stuck', 'reference is stuck (%s), FPy returned %s' % (want[1], tv._show(got[1]))))
        elif got[0] == 'raise':
            problems.append((lab, 'reference %s, FPy raised %s' % (tv._show(want[1]), got[1])))
        elif not tv.conc_eq(want[1], got[1]):
            problems.append((lab, 'reference %s, FPy %s' % (tv._show(want[1]), tv._show(got[1]))))
    if task['kind'] == 'core' and want[0] == 'ok':
        c2 = second_core(task, B)
        if c2 is not None:
            try:
                w2 = norm(make_ref({B['entry']: c2}, S).run(B['entry'], [norm(a) for a in args]))
                if not tv.conc_eq(want[1], w2):
                    problems.append(('core-recompiled', 'core %s, compile(from_fpcore(core)) %s' % (tv._show(want[1]), tv._show(w2))))
            except Unsupported:
                pass
            except Stuck as ex:
                problems.append(('core-recompiled', 'recompiled core is stuck: %s' % ex))
    info['core'] = B['sexp'][:400]
    return problems, info


def special_values():
    from fpy2 import Float
    return [Float(isnan=True), Float(isinf=True), Float(isinf=True, s=True), Float(s=True, exp=0, c=0), Float(exp=0, c=0), Float(exp=-1, c=5), Float(s=True, exp=-1, c=15), Float(exp=0, c=1), Float(s=True, exp=0, c=2)]


def build_concrete(idx_args):
    vals = special_values()
    from fpy2 import Float
    out = []
    for a in idx_args:
        if isinstance(a, (tuple, list)) and len(a) == 2 and a[0] == 'int':
            out.append(Float.from_int(a[1]))
        elif isinstance(a, list):
            out.append([vals[i] for i in a])
        else:
            out.append(vals[a])
    return out


def run_special(task):
    import random
    rng = random.Random(2024)
    nv = len(special_values())
    cex = []; n = 0; skipped = 0; disagree = 0
    for kind, coll in (('prog', corpus_fpc.P), ('core', corpus_fpc.CORES)):
        for p in coll:
            shapes = tv.arg_shapes(p, 'quick')
            for _ in range(6):
                shape = rng.choice(shapes)
                idx = []
                for c in shape:
                    if c[0] == 'real':
                        idx.append(rng.randrange(nv))
                    elif c[0] == 'list':
                        idx.append([rng.randrange(nv) for _ in range(c[1])])
                    else:
                        idx.append(['int', c[1]])
                t = dict(kind=kind, prog=p['name'], shape=[list(c) for c in shape])
                try:
                    problems, info = judge_concrete(t, build_concrete(idx))
                except Exception as ex:  # noqa
                    problems, info = [], {'outside the reference evaluator': 'harness: %r' % ex}
                if 'outside the reference evaluator' in info:
                    skipped += 1; continue
                n += 1
                if info.get('reference-disagrees-with-titanfp'):
                    disagree += 1
                if problems:
                    cex.append({'case': {'task': dict(t, special=True), 'inputs': {'args': idx}, 'variant': problems[0][0], 'info': problems[0][1][:200]}})
    return dict(paths=0, requires=0, cex=cex, samples=[{'task': task['name'], 'concrete_cases': n, 'concrete': True}], witness={'concrete-special': n},
                extra={'diff_runs': n, 'concrete_special_cases': n, 'concrete_cases_outside_reference': skipped, 'concrete_reference_vs_titanfp_disagreements': disagree})


def describe(tier):
    R = '/repo/fpy2/'
    return dict(
        functions=['backend.fpc.FPCoreCompiler.compile / compile_module / _FPCoreCompileInstance (_visit_block, _visit_context, _visit_if/_if1/_while/_for, list reductions, tuple bindings, functional list update)',
                   'transform.ForBundling / WhileBundling / IfBundling / ForUnpack / FreeVarElim / ConstFold(enable_op=False) as run by _apply_fpc_passes',
                   'fpc_context.FPCoreContext.from_context / to_context', 'function.Function.from_fpcore', 'frontend.fpc._FPCore2FPy (_visit_ctx, _visit_let, _visit_while*, _visit_for*, _visit_tensor*, _visit_props, _visit_function)',
                   'interpret.byte.BytecodeCompiler + BytecodeInterpreter on f and on the re-read functions (symbolic arguments)'],
        files=[R + 'backend/fpc.py', R + 'frontend/fpc.py', R + 'fpc_context.py', R + 'transform/for_bundling.py', R + 'transform/while_bundling.py', R + 'transform/if_bundling.py', R + 'transform/for_unpack.py',
               R + 'function.py', R + 'interpret/byte.py', R + 'ops.py'],
        bounds=dict(fpy_programs=len(corpus_fpc.P), fpcore_texts=len(corpus_fpc.CORES), argument_significand_bits=CW[tier], argument_exponent=tv.EXP0, list_lengths='as listed per program (0..4)',
                    precisions='(float 5 8) (float 5 9) (float 5 10) integer real, binary64 for the default context; 6 rounding modes', loop_trip_limit=64,
                    concrete_special_values='NaN, +-inf, -0, +0, 2.5, -7.5, 1, -2'),
        outside=['programs / cores outside the corpus', 're-reading a core that calls another core (from_fpcore binds no callee)', 'division, sqrt, elementary functions, fmin/fmax (C99 minNum), range with a step (needs ceil and /)', 'fixed-point precisions (fixed n s) and posits',
                 'symbolic special operands (specials go through the concrete table, judged by the reference evaluator and by titanfp)', 'that titanfp\'s parser reads a core\'s text as the standard says',
                 'rounding of arguments on entry: the arguments of the claim are representable in every precision used, FPy never rounds arguments'],
        stubs=['ops.add/sub/mul/fma/neg/fabs/round -> validated summaries on both sides', 'int / Fraction proxies, number formatting'],
        assumptions=['the reference FPCore evaluator is written from the FPCore 2.0 standard; every reproduced disagreement is also evaluated by titanfp\'s interpreter and a replay whose reference value disagrees with titanfp is reported as a harness error, not as a violation',
                     'lists and tuples are both FPCore tensors: results are compared structurally', 'when the reference is stuck (no rule applies) the FPy side must raise'],
        rule='one case = one feasible joint path of (reference FPCore evaluator on the core, real interpreter on f / on each re-read function) for a (program or core, argument shape)',
        explanation='translation validation of FPy -> FPCore and FPCore -> FPy per program: differential symbolic execution against a reference FPCore evaluator',
    )
