"""Concrete replay judge for C01: runs the unpatched repository code on one concrete case and compares with the
oracle evaluated on Python ints."""
from fractions import Fraction
from . import ctxgrid as G
from .c01_common import outcome_of, concrete_denote, make_operand


def _pub(out):
    return {k: (str(v) if not isinstance(v, (bool, str, type(None), int)) else v) for k, v in out.items() if k != '_r'}


def replay(case):
    import fpy2 as fp
    from fpy2 import RealFloat, Float
    from spec import formats as F, ctxround as CR
    from spec.rounding import round_detail
    t = case['task']; inp = case['inputs']; K = case['K']
    den = concrete_denote(K)
    s = bool(t.get('s', 0))
    if t['kind'] == 'special':
        desc = t['desc']; spec = F.spec_of(desc); ctx = G.build(desc)
        x = Float(isnan=True, s=s) if t['cls'] == 'nan' else Float(isinf=True, s=s)
        out = outcome_of(lambda: ctx.round(x), K, den)
        ok = CR.post_special(desc, spec, K, t['cls'], s, out)
        if ok and out['raised'] is None:
            ok = bool(ctx.representable_under(out['_r']))
        return {'violates': not ok, 'observed': _pub(out), 'key': 'special:' + desc['fam']}
    if t['kind'] == 'glue':
        from .c02_replay import replay as r2
        return r2(dict(case, task=dict(t, kind='glue')))
    if t['kind'] == 'exp':
        nb, eo, rm = t['nbits'], t['eoffset'], t['rm']
        ctx = fp.ExpContext(nb, eo, fp.RM[rm], fp.OV[t['ov']])
        bias = (1 << (nb - 1)) - 1 - eo
        emin, emax = -bias, (1 << nb) - 2 - bias
        c = inp['c']; exp = inp['exp']
        X = den(c, exp)
        out = outcome_of(lambda: ctx.round(RealFloat(False, exp, c)), K, den)
        d = round_detail(X, False, 1, None, rm, K)
        R = d['R']; lo, hi = 1 << (emin + K), 1 << (emax + K)
        inr = lo <= R <= hi
        if out['raised'] is not None:
            ok = (not inr) and out['raised'] in ('ValueError', 'OverflowError')
        elif out['kind'] == 'nan':
            ok = (not inr) and not (R < lo and rm in ('RTP', 'RAZ') and t['ov'] == 'OVERFLOW')
        elif out['kind'] == 'fin' and R < lo and rm in ('RTZ', 'RTN') and t['ov'] == 'OVERFLOW':
            ok = False
        elif out['kind'] == 'fin':
            ok = out['sign'] is False and ((out['D'] == R and bool(out['inexact']) == bool(d['inexact'])) if inr else ((out['D'] == hi and out['inexact'] and out['overflow']) if R > hi else (out['D'] == lo and out['inexact'])))
        else:
            ok = False
        return {'violates': not ok, 'observed': _pub(out), 'key': 'exp:' + ('in-range' if inr else ('above-range' if R > hi else 'below-range')), 'operand': '%d*2^%d' % (c, exp), 'context': repr(ctx)}
    c = inp['c']; exp = inp.get('exp', 0)
    if t['kind'] == 'kernel':
        p = inp.get('p'); n = inp.get('n')
        X = den(c, exp)
        try:
            r = RealFloat(s, exp, c).round(max_p=p, min_n=n, rm=fp.RM[t['rm']])
            D = den(r.c, r.exp)
            d = round_detail(X, s, p, n, t['rm'], K)
            ok = (D == d['R'] and bool(r.s) == s and bool(r.inexact) == bool(d['inexact']))
            obs = {'c': r.c, 'exp': r.exp, 's': r.s, 'inexact': r.inexact, 'expected_scaled': d['R'], 'got_scaled': str(D)}
        except Exception as ex:  # noqa
            ok = False; obs = {'raised': repr(ex)}
        return {'violates': not ok, 'observed': obs, 'key': 'kernel'}
    desc = t['desc']
    if t.get('symparams'):
        desc = dict(desc)
        for k in ('pmax', 'emin', 'nmin'):
            if k in inp:
                desc[k] = inp[k]
    spec = F.spec_of(desc)
    ctx = G.build(desc)
    opk = t['op']
    if opk == 'int':
        exp = 0
    xo = make_operand(opk, s, exp, c)
    X = den(c, exp)
    meth = t['meth']; exact = t.get('exact', False)
    if meth == 'round':
        call = (lambda: ctx.round(xo, exact=True)) if exact else (lambda: ctx.round(xo)); na = None
    elif meth == 'round_at':
        na = inp['n_at']; call = lambda: ctx.round_at(xo, na)
    else:
        na = -1; call = lambda: ctx.round_integer(xo)
    out = outcome_of(call, K, den)
    ok = bool(CR.post_finite(desc, spec, K, s, X, na, out, exact=exact))
    rep = None
    if ok and out['raised'] is None and desc['fam'] != 'Real':
        rep = bool(ctx.representable_under(out['_r']))
        ok = rep
    return {'violates': not ok, 'observed': _pub(out), 'representable_under': rep, 'key': classify(desc, t, inp, out, spec, K, s, X),
            'operand': repr(xo), 'context': repr(ctx)}


def classify(desc, t, inp, out, spec, K, s, X):
    """stable identification of *which* behaviour failed (for the known-findings list)"""
    fam = desc['fam']
    ov = desc.get('ov')
    if spec.bounded:
        from spec import ctxround as CR
        from spec.rounding import round_detail
        d = round_detail(X, s, spec.p, spec.n, desc.get('rm', 'RNE'), K)
        maxS = CR.scaled(spec.neg_max if s else spec.pos_max, K)
        if d['R'] > maxS:
            arm = 'overflow-arm'
            if out['raised'] is not None:
                return '%s:%s:%s:raises-%s' % (fam, ov, arm, out['raised'])
            if out.get('overflow') is False or out.get('inexact') is False:
                return '%s:%s:%s:flags-not-set' % (fam, ov, arm)
            return '%s:%s:%s:value' % (fam, ov, arm)
    return '%s:normal-arm' % fam
