"""
C18, schedule part — concurrent evaluations on ONE interpreter, with the interleaving a symbolic variable.

Two logical threads (real `threading.Thread`s under a deterministic hand-off scheduler: exactly one runs at a time) each make a
public call `g(*args, ctx=C)` on the shared default interpreter.  A running thread can be preempted only at a *yield point*;
yield points are placed in front of every access to state the two evaluations share and between any two rounded operations:

    Function.__call__ entry                         BytecodeInterpreter.eval entry
    func_cache  __contains__ / __getitem__ / __setitem__ / get / setdefault
    Interpreter._func_ctx, get_default_interpreter, byte._call_fpy (FPy -> FPy calls)
    value.to_value / from_value as bound in interpret.byte (boundary conversion of each argument / the result)
    every rounded operation of the operator tables (add, sub, mul, fma, neg, fabs, round)
    (thorough: additionally every Python-level call of a function defined in fpy2/interpret/*.py or fpy2/function.py)

Whether the thread is preempted at the k-th yield point of the run is bit k of a symbolic bit-vector `sched` (an input of the
path like the argument leaves) with popcount(sched) <= PREEMPTIONS; the engine forks on the bit exactly as it forks on a
comparison of the arguments, the solver prunes the side the bound forbids, and a counterexample carries the schedule, which
the replay re-enacts with real threads and the real operations.  Code between two yield points touches only objects owned by
the evaluation that runs it (fresh argument structures, locals of the compiled function) — that is the reduction argument for
restricting preemption to these points, and it is an assumption of the claim (listed in the evidence).

Decided per feasible (input path x schedule): each thread's result equals the result of the same call made alone on a fresh
interpreter, and its arguments are untouched.
"""
import threading


class _Kill(BaseException):
    pass


class Sched:
    """deterministic cooperative scheduler; `decide(label)` -> bool is asked at every yield point while another thread can run"""
    current = None     # the active scheduler (module-wide; worker threads find it here)

    def __init__(self, decide):
        self.decide = decide
        self.sems = []
        self.done = []
        self.results = []
        self.started = []
        self.threads = []
        self.bodies = []
        self.running = None
        self.main_sem = threading.Semaphore(0)
        self.fatal = None
        self.killed = False
        self.trace = []       # (thread, label, preempted)
        self.ident = {}

    # -- worker side --------------------------------------------------------------------------
    def _me(self):
        return self.ident.get(threading.get_ident())

    def yield_point(self, label):
        i = self._me()
        if i is None or self.running != i:
            return
        if self.killed:
            raise _Kill()
        others = [j for j in range(len(self.bodies)) if j != i and not self.done[j]]
        if not others:
            return
        pre = bool(self.decide(label))
        self.trace.append((i, label, pre))
        if pre:
            self._switch_to(others[0])
            self.sems[i].acquire()
            if self.killed:
                raise _Kill()

    def _switch_to(self, j):
        self.running = j
        if not self.started[j]:
            self.started[j] = True
            self.threads[j].start()
        else:
            self.sems[j].release()

    def _body(self, i):
        self.ident[threading.get_ident()] = i
        try:
            try:
                self.yield_point('thread-start')
                self.results[i] = ('ok', self.bodies[i]())
            except _Kill:
                raise
            except Exception as ex:  # noqa  the evaluation raised: that is its result
                self.results[i] = ('raise', ex)
        except _Kill:
            pass
        except BaseException as ex:  # noqa  engine control flow (Abort / Inconclusive / divergence): ends the whole run
            if self.fatal is None:
                self.fatal = ex
            self.killed = True
        finally:
            self.done[i] = True
            nxt = [j for j in range(len(self.bodies)) if not self.done[j]]
            if self.killed:
                # wake every thread that waits so it can unwind; threads never started stay unstarted
                for j in nxt:
                    if self.started[j]:
                        self.running = j
                        self.sems[j].release()
                    else:
                        self.done[j] = True
                if not [j for j in nxt if self.started[j]]:
                    self.main_sem.release()
            elif nxt:
                self._switch_to(nxt[0])
            else:
                self.main_sem.release()

    # -- main side ----------------------------------------------------------------------------
    def run(self, bodies):
        n = len(bodies)
        self.bodies = bodies
        self.sems = [threading.Semaphore(0) for _ in range(n)]
        self.done = [False] * n
        self.started = [False] * n
        self.results = [None] * n
        self.threads = [threading.Thread(target=self._body, args=(i,), daemon=True) for i in range(n)]
        prev = Sched.current
        Sched.current = self
        try:
            self._switch_to(0)
            try:
                self.main_sem.acquire()
            except BaseException:   # noqa  (alarm in the main thread): unwind the workers at their next yield point
                self.killed = True
                raise
            # a killed run: wait until every started thread has unwound
            for t, st in zip(self.threads, self.started):
                if st:
                    t.join(5)
        finally:
            Sched.current = prev
        if self.fatal is not None:
            raise self.fatal
        return self.results


def yp(label):
    s = Sched.current
    if s is not None:
        s.yield_point(label)


class YDict(dict):
    """func_cache with a yield point in front of every access"""
    def __contains__(self, k):
        yp('func_cache.__contains__'); return dict.__contains__(self, k)

    def __getitem__(self, k):
        yp('func_cache.__getitem__'); return dict.__getitem__(self, k)

    def __setitem__(self, k, v):
        yp('func_cache.__setitem__'); return dict.__setitem__(self, k, v)

    def get(self, k, d=None):
        yp('func_cache.get'); return dict.get(self, k, d)

    def setdefault(self, k, d=None):
        yp('func_cache.setdefault'); return dict.setdefault(self, k, d)


def _wrap(fn, label):
    def w(*a, **k):
        yp(label)
        return fn(*a, **k)
    w.__name__ = getattr(fn, '__name__', label)
    w.__wrapped__ = fn
    return w


def install_yield_points(patch, patch_item, patch_attr):
    """rebinds (harness side, restored by shims.reset_all) the shared-state touch points to yielding wrappers; call AFTER the
    operation tables have their final entries (summaries or real operations) and BEFORE any function is compiled"""
    from fpy2.interpret import byte, interpreter as interp_mod
    from fpy2 import function as function_mod
    from fpy2.ast import fpyast as A
    for tab, keys in ((byte._BINARY_TABLE, (A.Add, A.Sub, A.Mul)), (byte._TERNARY_TABLE, (A.Fma,)), (byte._UNARY_TABLE, (A.Neg, A.Abs, A.Round))):
        for k in keys:
            if k in tab and not hasattr(tab[k], '__wrapped__'):
                patch_item(tab, k, _wrap(tab[k], 'op:' + k.__name__))
    patch(byte, '_call_fpy', _wrap(byte._call_fpy, 'byte._call_fpy'))
    patch(byte, 'to_value', _wrap(byte.to_value, 'to_value'))
    patch(byte, 'from_value', _wrap(byte.from_value, 'from_value'))
    patch(byte, 'get_default_interpreter', _wrap(byte.get_default_interpreter, 'get_default_interpreter'))
    patch(interp_mod, 'get_default_interpreter', _wrap(interp_mod.get_default_interpreter, 'get_default_interpreter'))
    patch_attr(byte.BytecodeInterpreter, 'eval', _wrap(byte.BytecodeInterpreter.eval, 'BytecodeInterpreter.eval'))
    patch_attr(interp_mod.Interpreter, '_func_ctx', _wrap(interp_mod.Interpreter._func_ctx, 'Interpreter._func_ctx'))
    patch_attr(function_mod.Function, '__call__', _wrap(function_mod.Function.__call__, 'Function.__call__'))


def shared_interpreter(patch):
    from fpy2.interpret import byte, interpreter as interp_mod
    rt = byte.BytecodeInterpreter()
    rt.func_cache = YDict()
    patch(interp_mod, '_default_interpreter', rt)
    return rt


class Profiler:
    """thorough tier: a yield point at every Python-level call of a function defined in the interpreter / function modules"""
    def __init__(self):
        import fpy2.interpret.byte as b, fpy2.interpret.interpreter as i, fpy2.interpret.value as v, fpy2.function as f
        self.files = {m.__file__ for m in (b, i, v, f)}

    def __call__(self, frame, event, arg):
        if event == 'call' and frame.f_code.co_filename in self.files:
            yp('call:' + frame.f_code.co_name)


def popcount_le(z3, v, nb, bound):
    return z3.Sum([z3.ZeroExt(7, z3.Extract(i, i, v)) for i in range(nb)]) <= bound if nb <= 200 else True


# ---------------------------------------------------------------------------------------------------------------------
# the check

PREEMPTIONS = {'quick': 2, 'thorough': 3}
NB = 120          # schedule bits: yield points beyond NB are never preempted (counted, reported as a bound, witness `schedule-bits-suffice`)
PAIR_CONTEXTS = [('fp.MPSFloatContext(4, -3)', 'fp.MPFloatContext(2, fp.RM.RTP)'), ('fp.MPFloatContext(3, fp.RM.RTN)', 'None')]
SCHED_PROGRAMS = ('context_sensitive', 'helper_inherits_context', 'helper_writes_parameter', 'branch_then_write', 'sem_callee_contexts', 'const_under_contexts')


def pairs(c18, p, f, ns, tv):
    """what runs next to f: f itself under another context; a same-named entry function of another program; a transformed copy"""
    import fpy2 as fp
    from fpy2 import strategies as st
    out = [('same function, other context', f)]
    for q in c18._programs('quick'):
        if q['name'] == p['name'] or len(q['args']) != len(p['args']):
            continue
        if [a if isinstance(a, str) else a[0] for a in q['args']] != [a if isinstance(a, str) else a[0] for a in p['args']]:
            continue
        try:
            g, _ = tv.load_program(q)
        except Exception:  # noqa
            continue
        if g.name == f.name:
            out.append(('same-named function of program %s' % q['name'], g)); break
    try:
        out.append(('transformed copy: simplify', tv.with_timeout(lambda: st.simplify(f), 60)))
    except (Exception, tv.TransformTimeout):  # noqa
        pass
    return out


QUICK_SCHED = {('context_sensitive', 'r-r', 0, 0), ('context_sensitive', 'r-r', 1, 1), ('helper_inherits_context', 'r-r', 0, 1), ('helper_inherits_context', 'r-r', 2, 0),
               ('helper_writes_parameter', '1-r', 0, 0), ('branch_then_write', '1-r', 1, 0)}


def sched_tasks(c18, tier):
    """quick: six (program, partner, context pair) combinations; thorough: every combination, one more preemption"""
    from . import tv
    ts = []
    for p in c18._programs(tier):
        if p['name'] not in SCHED_PROGRAMS:
            continue
        for shape in tv.arg_shapes(p, tier):
            if sum(c[1] for c in shape if c[0] == 'list') > 2 or any(c[0] == 'list' and c[1] == 0 for c in shape):
                continue
            sh = '-'.join(str(c[-1]) if len(c) > 1 else 'r' for c in shape)
            for pi in range(3):
                for ci in range(len(PAIR_CONTEXTS)):
                    if tier == 'quick' and (p['name'], sh, pi, ci) not in QUICK_SCHED:
                        continue
                    ts.append(dict(kind='sched', name='sched/%s/%s/pair%d/ctx%d' % (p['name'], sh, pi, ci), prog=p['name'], shape=[list(c) for c in shape], pair=pi, ctxpair=ci, cost=6))
    return ts


def run_sched(c18, task):
    import z3
    import fpy2 as fp
    from pysym.core import explore
    from pysym import shims
    from . import tv
    tier = task.get('tier', 'quick'); t = tv.TIER[tier]
    p, f, ns = c18.load(task['prog'])
    shape = [tuple(c) for c in task['shape']]
    tv.install_runtime()
    install_yield_points(shims.patch, shims.patch_item, shims.patch_attr)
    prs = pairs(c18, p, f, ns, tv)
    if task['pair'] >= len(prs):
        return dict(paths=0, requires=0, cex=[], samples=[], witness={}, notes=['no such pair for this program'], extra={'programs': 0})
    plabel, g = prs[task['pair']]
    CA, CB = [None if s == 'None' else eval(s, {'fp': fp}) for s in PAIR_CONTEXTS[task['ctxpair']]]  # noqa: S307
    bound = PREEMPTIONS[tier]
    samples = []
    stats = {'max_yield_points': 0, 'schedules': 0}
    prof = Profiler() if tier == 'thorough' else None

    def setup(e):
        v = z3.BitVec('sched', NB)
        e.inputs['sched'] = v
        e.solver.add(popcount_le(z3, v, NB, bound))
        return (tv.SymArgs(e, shape, t['CW'], None), v)

    def run(e, sa, sv):
        # the two calls alone, each on a fresh interpreter
        alone = []
        for h, C in ((f, CA), (g, CB)):
            shared_interpreter(shims.patch)
            try:
                alone.append(('ok', h(*list(sa.build()), ctx=C)))
            except Exception as ex:  # noqa
                alone.append(('raise', ex))
        if alone[0][0] != 'ok' or alone[1][0] != 'ok':
            return           # nothing to compare on this input path (C04 / C18-history cover raising programs)
        # the two calls together on one fresh interpreter, under the symbolic schedule
        shared_interpreter(shims.patch)
        k = [0]

        def decide(label):
            i = k[0]; k[0] += 1
            if i >= NB:
                return False
            return e.branch(z3.Extract(i, i, sv) == z3.BitVecVal(1, 1))
        argsA, argsB = list(sa.build()), list(sa.build())
        before = [[c18.snapshot(a) for a in argsA], [c18.snapshot(a) for a in argsB]]

        def body(h, a, C):
            def go():
                import sys
                if prof is not None:
                    sys.setprofile(prof)
                try:
                    return h(*a, ctx=C)
                finally:
                    if prof is not None:
                        sys.setprofile(None)
            return go
        s = Sched(decide)
        res = s.run([body(f, argsA, CA), body(g, argsB, CB)])
        stats['max_yield_points'] = max(stats['max_yield_points'], k[0]); stats['schedules'] += 1
        if k[0] > NB:
            e.cover('yield-points-beyond-schedule-bits', True)     # reported: those points are never preempted (a bound of the claim)
        npre = sum(1 for x in s.trace if x[2])
        if npre:
            e.cover('preempted', True)
        if npre >= 2:
            e.cover('preempted-twice', True)
        if any(x[2] and x[1].startswith('op:') for x in s.trace):
            e.cover('preempted-between-operations', True)
        if any(x[2] and x[1].startswith('func_cache') for x in s.trace):
            e.cover('preempted-at-cache-access', True)
        info = {'pair': plabel, 'contexts': PAIR_CONTEXTS[task['ctxpair']], 'preempted at': [(x[0], x[1]) for x in s.trace if x[2]]}
        for i, nm in ((0, 'A'), (1, 'B')):
            if res[i] is None or res[i][0] != 'ok':
                e.require(False, info=dict(info, **{'thread %s raised under this schedule' % nm: repr(res[i])[:160]}), tag='schedule'); continue
            try:
                post = tv.eqv(c18._norm(alone[i][1]), c18._norm(res[i][1]))
            except NotImplementedError as ex:
                e.require(False, info={'harness': str(ex)}, tag='harness'); continue
            e.cover('returns', True)
            e.require(post, info=dict(info, thread=nm), tag='schedule')
        after = [[c18.snapshot(a) for a in argsA], [c18.snapshot(a) for a in argsB]]
        e.require(before == after, info=dict(info, **{'an argument was modified': True}), tag='schedule')
        if len(samples) < 2:
            samples.append({'task': task['name'], 'example_arguments': e.model_inputs(), 'yield_points': k[0]})
    W = 96
    eng = explore(run, setup, W=W, bl_max=W - 6, max_paths=6000)
    cexs = []
    for cx in eng.cex:
        if cx.get('unknown') or cx.get('inputs') is None:
            cexs.append({'case': None})
        else:
            tt = {k2: v for k2, v in task.items() if k2 not in ('name', 'cost')}
            inp = dict(cx['inputs']); inp['sched'] = inp.get('sched', 0) & ((1 << NB) - 1)
            cexs.append({'case': {'task': tt, 'inputs': inp, 'variant': cx.get('tag'), 'info': str(cx.get('info'))[:400]}, 'failed_obligations': cx.get('failed_obligations')})
    return dict(paths=eng.paths, decisions=eng.decisions, queries=eng.checks, unsat=eng.unsat, sat=eng.sat, unknown=eng.unknown, solve_s=eng.solve_s, requires=eng.requires,
                aborted=eng.aborted, witness=eng.witness, notes=eng.notes, cex=cexs, samples=samples, extra={'programs': 1, 'schedules_explored': stats['schedules'], 'max_yield_points': stats['max_yield_points']})


def replay_sched(c18, case):
    """re-enacts the schedule with real threads, the REAL operations and concrete arguments"""
    import fpy2 as fp
    from . import tv
    from pysym import shims
    t = case['task']; inp = case['inputs']
    p, f, ns = c18.load(t['prog'])
    shape = [tuple(c) for c in t['shape']]
    try:
        install_yield_points(shims.patch, shims.patch_item, shims.patch_attr)
        plabel, g = pairs(c18, p, f, ns, tv)[t['pair']]
        CA, CB = [None if s == 'None' else eval(s, {'fp': fp}) for s in PAIR_CONTEXTS[t['ctxpair']]]  # noqa: S307
        alone = []
        for h, C in ((f, CA), (g, CB)):
            shared_interpreter(shims.patch)
            alone.append(h(*list(tv.concrete_args(shape, inp)), ctx=C))
        shared_interpreter(shims.patch)
        sv = int(inp.get('sched', 0)); k = [0]

        def decide(label):
            i = k[0]; k[0] += 1
            return bool((sv >> i) & 1) if i < NB else False
        argsA, argsB = list(tv.concrete_args(shape, inp)), list(tv.concrete_args(shape, inp))
        before = [[c18.snapshot(a) for a in argsA], [c18.snapshot(a) for a in argsB]]
        s = Sched(decide)
        res = s.run([lambda: f(*argsA, ctx=CA), lambda: g(*argsB, ctx=CB)])
        problems = []
        for i, nm in ((0, 'A'), (1, 'B')):
            if res[i][0] != 'ok':
                problems.append('thread %s raised %r (alone: %s)' % (nm, res[i][1], tv._show(alone[i])))
            elif not tv.conc_eq(c18._norm(alone[i]), c18._norm(res[i][1])):
                problems.append('thread %s returned %s, alone %s' % (nm, tv._show(res[i][1]), tv._show(alone[i])))
        if before != [[c18.snapshot(a) for a in argsA], [c18.snapshot(a) for a in argsB]]:
            problems.append('an argument was modified')
        pre = [(x[0], x[1]) for x in s.trace if x[2]]
    finally:
        shims.reset_all()
    return {'violates': bool(problems), 'observed': {'arguments': [tv._show(a) for a in tv.concrete_args(shape, inp)], 'pair': plabel, 'preempted at': pre, 'problems': problems[:3]},
            'key': '%s:schedule' % t['prog'] if problems else 'ok'}
