"""Shared between the symbolic harness and the concrete replay judge for C01 (no pysym import)."""
from fractions import Fraction


def outcome_of(fn, K, denote):
    """run fn() on the real code and summarise the outcome. `denote(c, exp)` -> scaled magnitude"""
    try:
        r = fn()
    except Exception as ex:  # noqa: BLE001 - the property speaks about which errors are allowed
        return {'raised': type(ex).__name__, 'msg': str(ex)[:200]}
    out = {'raised': None}
    if r.isnan:
        out.update(kind='nan', sign=bool(r.s), D=0)
    elif r.isinf:
        out.update(kind='inf', sign=bool(r.s), D=0)
    else:
        out.update(kind='fin', sign=bool(r.s), D=denote(r.c, r.exp))
    out['inexact'] = bool(r.inexact)
    out['overflow'] = bool(r.overflow)
    out['_r'] = r
    return out


def concrete_denote(K):
    def d(c, exp):
        v = Fraction(int(c)) * Fraction(2) ** (int(exp) + K)
        if v.denominator != 1:
            return v          # not an integer at this scale: compared as a Fraction (never equal to an int oracle value unless equal)
        return int(v)
    return d


def make_operand(kind, s, exp, c):
    """operand object of the given kind from concrete fields"""
    from fpy2 import Float, RealFloat
    if kind == 'RealFloat':
        return RealFloat(bool(s), exp, c)
    if kind == 'Float':
        return Float(bool(s), exp, c)
    if kind == 'FloatFlagged':
        return Float(bool(s), exp, c, overflow=True, inexact=True, invalid=True, divzero=True, carry=True, tiny_pre=True, tiny_post=True)
    v = Fraction(-c if s else c) * Fraction(2) ** exp
    if kind == 'int':
        assert v.denominator == 1
        return int(v)
    if kind == 'Fraction':
        return v
    if kind == 'float':
        f = float(v)
        assert Fraction(f) == v
        if c == 0 and s:
            f = -0.0
        return f
    raise ValueError(kind)
