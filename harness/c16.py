"""
C16 — Encodings and ordinals are order-preserving bijections.

Real `encode/decode`, `to_ordinal/from_ordinal`, `next_up/next_down`, `normalize`, `representable_in`,
`minval/maxval` of every format family are executed on a *symbolic bit pattern*, a *symbolic value*
(including redundant encodings) or a *symbolic ordinal*; an independently written layout decoder and the
set definition of the format are the oracle.
"""
import os
import time

PROPERTY = 'C16'
LEVEL = 'model_checking'
BUDGET_S = {'quick': 3600, 'thorough': 14400}

from . import ctxgrid as G

TIER = {'quick': dict(CW=6, W=32, WO=48, nb_ef=5, nb_fx=5, nb_exp=3),
        'thorough': dict(CW=8, W=48, WO=64, nb_ef=8, nb_fx=8, nb_exp=5)}


def formats(tier, seed):
    import random
    rnd = random.Random(seed)
    t = TIER[tier]
    out = []
    from fpy2.number.context.efloat import EFloatFormat, EFloatNanKind
    for nbits in range(1, t['nb_ef'] + 1):
        for es in range(0, nbits):
            for inf in (False, True):
                for nk in G.NAN_KINDS:
                    try:
                        EFloatFormat(es, nbits, inf, EFloatNanKind[nk], 0)
                    except ValueError:
                        continue
                    offs = [0] if tier == 'quick' and (nbits + es) % 2 else [0, rnd.choice([-1, 2])]
                    for eo in offs:
                        out.append(dict(fam='EFloat', es=es, nbits=nbits, enable_inf=inf, nan_kind=nk, eoffset=eo))
    out += [dict(fam='IEEE', es=2, nbits=4), dict(fam='IEEE', es=3, nbits=5)]
    if tier == 'thorough':
        out += [dict(fam='IEEE', es=4, nbits=8), dict(fam='IEEE', es=5, nbits=8)]
    for nb in range(1, t['nb_fx'] + 1):
        for signed in (False, True):
            if signed and nb < 2:
                continue
            for sc in ([0, -2] if nb % 2 else [1]):
                out.append(dict(fam='Fixed', signed=signed, scale=sc, nbits=nb))
        if nb >= 2:
            out.append(dict(fam='SMFixed', scale=rnd.choice([-1, 0, 2]), nbits=nb))
    for nb in range(1, t['nb_exp'] + 1):
        for eo in (0, 2):
            out.append(dict(fam='Exp', nbits=nb, eoffset=eo))
    # non-encodable ordinal formats
    out += [dict(fam='MPSFloat', pmax=3, emin=-1), dict(fam='MPSFloat', pmax=1, emin=0), dict(fam='MPSFloat', pmax=2, emin=2),
            dict(fam='MPBFloat', pmax=3, emin=-2, maxval=[0, 1, 5]), dict(fam='MPBFloat', pmax=2, emin=0, maxval=[0, 2, 3], neg_maxval=[1, 0, 3]),
            dict(fam='MPFixed', nmin=-2), dict(fam='MPFixed', nmin=1, enable_neg_zero=False),
            dict(fam='MPBFixed', nmin=-1, maxval=[0, 0, 9], neg_maxval=[1, 0, 4]), dict(fam='MPBFixed', nmin=0, maxval=[0, 1, 7])]
    return out


ENCODABLE = ('EFloat', 'IEEE', 'Fixed', 'SMFixed', 'Exp')


def tasks(tier, seed):
    ts = []
    for d in formats(tier, seed):
        nm = G.name_of(d)
        if d['fam'] in ENCODABLE:
            ts.append(dict(kind='codec', name='codec/' + nm, desc=d))
        if d['fam'] == 'Exp':
            ts.append(dict(kind='contig', name='contig/' + nm, desc=d))
        if d['fam'] != 'Exp':
            for s in (0, 1):
                ts.append(dict(kind='value', name='value/%s/s%d' % (nm, s), desc=d, s=s))
            ts.append(dict(kind='contig', name='contig/' + nm, desc=d))
            big = d.get('nbits', 0) >= 5
            for s1 in (0, 1):
                for s2 in (0, 1):
                    if tier == 'quick' and big and (s1, s2) not in ((0, 0), (1, 0)):
                        continue
                    ts.append(dict(kind='order', name='order/%s/s%d%d' % (nm, s1, s2), desc=d, s1=s1, s2=s2))
    return ts


def required_witnesses(tier):
    return ['decode-nan', 'decode-inf', 'decode-subnormal', 'decode-normal', 'decode-negzero', 'roundtrip-bits', 'member', 'non-member',
            'redundant-encoding', 'ordinal-roundtrip', 'order-less', 'order-equal', 'contig-interior', 'next-up', 'next-down', 'extremes', 'ordinal-outside-rejected']


def describe(tier):
    t = TIER[tier]
    R = '/repo/fpy2/number/context/'
    return dict(
        functions=['EFloatFormat.encode/decode/representable_in/normalize/to_ordinal/from_ordinal/minval/maxval/largest/smallest (+_ext_to_mpb_fmt/_binade_max/_has_nonzero run concretely per format)',
                   'IEEEFormat', 'FixedFormat.encode/decode', 'SMFixedFormat.encode/decode', 'ExpFormat.encode/decode/from_ordinal/to_ordinal',
                   'MPSFloatFormat._to_ordinal/to_ordinal/from_ordinal/normalize/representable_in', 'MPBFloatFormat.*', 'MPFixedFormat._to_ordinal/from_ordinal/normalize', 'MPBFixedFormat.*',
                   'OrdinalFormat.next_up/next_down/_next_towards'],
        files=[R + f for f in ('efloat.py', 'ieee754.py', 'fixed.py', 'sm_fixed.py', 'exponential.py', 'format.py', 'mps_float.py', 'mpb_float.py', 'mp_fixed.py', 'mpb_fixed.py', 'context.py')],
        bounds=dict(efloat_nbits_max=t['nb_ef'], fixed_nbits_max=t['nb_fx'], exp_nbits_max=t['nb_exp'], value_significand_bits=t['CW'],
                    eoffsets='0 and one of {-1, 2}', engine_width=t['W']),
        outside=['formats wider than the stated bit counts (binary16/32/64 are not enumerated)', 'to_fractional_ordinal (uses Fraction arithmetic)', 'NaN payloads'],
        stubs=['module-level `int` pass-through in reals.py', 'number formatting stubbed'],
        assumptions=['the published layout: sign | exponent | mantissa, special codes per NaN kind as in the Small-Floats description; two\'s complement / sign-magnitude / all-ones-NaN exponential layouts',
                     'sign of the value and the format parameters are enumerated, not symbolic'],
        rule='one case = one feasible path of the real codec/ordinal code for a (format, check kind, sign) configuration',
        explanation='bounded model checking with symbolic bit patterns, values and ordinals',
    )


def _spec(desc):
    from spec import formats as F
    from fractions import Fraction
    if desc['fam'] == 'Exp':
        nb, eo = desc['nbits'], desc.get('eoffset', 0)
        bias = (1 << (nb - 1)) - 1 - eo
        sp = F.FormatSpec(1, None, Fraction(2) ** ((1 << nb) - 2 - bias), Fraction(0), True, False, False)
        sp.exp_min = -bias
        return sp
    return F.spec_of(desc)


def run_task(task):
    import z3
    from pysym.core import explore, SymInt, bv
    from pysym import shims
    from pysym.values import denote_mag
    import spec.dsl as dsl
    from spec.dsl import lift
    from spec import formats as F, ctxround as CR
    from spec.rounding import is_member
    import fpy2.number.number.reals as reals
    from fpy2 import Float, RealFloat
    from fractions import Fraction
    tier = task.get('tier', 'quick')
    t = TIER[tier]
    W = t['W']; dsl.WO = t['WO']; CW = t['CW']
    shims.install_int_pass(reals)
    shims.stub_formatting()
    desc = task['desc']
    fam = desc['fam']
    fmt = G.build(desc).format()
    sp = _spec(desc)
    # scale: everything in the format is an integer at 2^-K
    if fam == 'Exp':
        lowpos = sp.exp_min
        hi_e = sp.exp_min + (1 << desc['nbits'])
    else:
        lowpos = sp.n + 1
        hi_e = (sp.pos_max.numerator.bit_length() - sp.pos_max.denominator.bit_length() + 2) if sp.bounded else lowpos + 10
        if sp.bounded and sp.neg_max:
            hi_e = max(hi_e, sp.neg_max.numerator.bit_length() - sp.neg_max.denominator.bit_length() + 2)
    E_lo = lowpos - 3           # values may carry digits below the format's lsb (non-members)
    K = -E_lo
    E_hi = hi_e + 1
    assert CW + (E_hi - E_lo) + 4 < dsl.WO, 'oracle width too small'
    samples = []; kind = task['kind']

    def den(c, exp):
        return denote_mag(c, exp, K, W=dsl.WO)

    def member(D, neg):
        """independent membership of the finite value (-1)^neg * D * 2^-K (sign of zero handled by caller)"""
        if fam == 'Exp':
            lo_ = 1 << (sp.exp_min + K)
            return z3.And(z3.BoolVal(not neg), D >= lo_, D <= CR.scaled(sp.pos_max, K), (D & (D - 1)) == 0)
        m = is_member(D, sp.p, sp.n, K)
        if sp.bounded:
            m = z3.And(m, D <= CR.scaled(sp.neg_max if neg else sp.pos_max, K))
        return m

    def out_of(x):
        if x.isnan:
            return dict(kind='nan', sign=bool(x.s), D=z3.BitVecVal(0, dsl.WO))
        if x.isinf:
            return dict(kind='inf', sign=bool(x.s), D=z3.BitVecVal(0, dsl.WO))
        D = den(x.c, x.exp)
        if not isinstance(D, z3.ExprRef):
            D = z3.BitVecVal(D, dsl.WO)
        return dict(kind='fin', sign=bool(x.s), D=D)

    # ------------------------------------------------------------------------------------------------
    if kind == 'codec':
        nb = desc['nbits']

        def setup(e):
            return (e.fresh('b', 0, (1 << nb) - 1),)

        def run(e, b):
            L = F.layout_terms(desc, lift(b), K)
            try:
                x = fmt.decode(b)
            except Exception as ex:  # noqa
                e.require(False, info={'decode raised': repr(ex)[:150]}); return
            o = out_of(x)
            # 1. decode gives the value the layout assigns
            same = z3.And(z3.BoolVal(o['kind'] == 'nan') == L['nan'], z3.BoolVal(o['kind'] == 'inf') == L['inf'],
                          z3.Implies(z3.Not(L['nan']), z3.BoolVal(o['sign']) == L['neg']),
                          z3.Implies(z3.And(z3.Not(L['nan']), z3.Not(L['inf'])), o['D'] == L['mag']))
            e.cover('decode-nan', L['nan']); e.cover('decode-inf', L['inf'])
            if fam in ('EFloat', 'IEEE') and o['kind'] == 'fin':
                m = desc['nbits'] - desc['es'] - 1
                ef = z3.LShR(lift(b), m) & ((1 << desc['es']) - 1)
                e.cover('decode-subnormal', z3.And(ef == 0, L['mag'] != 0)); e.cover('decode-normal', ef != 0)
                e.cover('decode-negzero', z3.And(L['mag'] == 0, L['neg']))
            ok1 = e.require(same, info={'step': 'decode == layout', 'decoded': o['kind']}, tag='decode')
            # 2. the decoded value is representable, and encodes back to the same bits (up to NaN payload)
            try:
                rep = bool(fmt.representable_in(x))
            except Exception as ex:  # noqa
                e.require(False, info={'representable_in raised': repr(ex)[:150]}); return
            if not rep:
                e.require(False, info={'step': 'representable_in(decode(b)) is False', 'decoded': o['kind']}, tag='rep'); return
            try:
                b2 = fmt.encode(x)
            except Exception as ex:  # noqa
                e.require(False, info={'step': 'encode(decode(b)) raised', 'err': repr(ex)[:150], 'decoded': o['kind']}, tag='encode'); return
            if o['kind'] == 'nan':
                L2 = F.layout_terms(desc, lift(b2), K)
                e.require(L2['nan'], info={'step': 'encode(NaN) decodes to NaN'}, tag='nan-code')
            else:
                e.cover('roundtrip-bits', True)
                e.require(lift(b2) == lift(b), info={'step': 'encode(decode(b)) == b', 'decoded': o['kind']}, tag='bits')
            if len(samples) < 2:
                samples.append({'task': task['name'], 'example_pattern': e.model_inputs(), 'decoded_kind': o['kind'], 'proved': ok1})
        eng = explore(run, setup, W=W, bl_max=W - 6)

    # ------------------------------------------------------------------------------------------------
    elif kind == 'value':
        s = bool(task['s'])

        def setup(e):
            return e.fresh('c', 0, (1 << CW) - 1), e.fresh('exp', E_lo, E_hi)

        def run(e, c, x):
            v = Float(s, x, c)
            D = den(c, x)
            if not isinstance(D, z3.ExprRef):
                D = z3.BitVecVal(D, dsl.WO)
            mem = member(D, s)
            # zero: -0 is a member only when the format has a negative zero
            mem = z3.If(D == 0, z3.BoolVal((not s) or sp.has_neg_zero), mem)
            try:
                rep = bool(fmt.representable_in(v))
            except Exception as ex:  # noqa
                e.require(False, info={'representable_in raised': repr(ex)[:150]}); return
            e.cover('member', mem); e.cover('non-member', z3.Not(mem))
            e.cover('redundant-encoding', z3.And(mem, (lift(c) & 1) == 0, lift(c) != 0))
            ok = e.require(z3.BoolVal(rep) == mem, info={'step': 'representable_in == set membership', 'rep': rep}, tag='rep')
            if len(samples) < 2:
                samples.append({'task': task['name'], 'example_value': e.model_inputs(), 'representable_in': rep, 'proved': ok})
            if not rep:
                return
            # encode / decode round trip
            if fam in ENCODABLE:
                try:
                    y = fmt.decode(fmt.encode(v))
                except Exception as ex:  # noqa
                    e.require(False, info={'step': 'decode(encode(v)) raised', 'err': repr(ex)[:150]}, tag='enc'); return
                o = out_of(y)
                e.require(z3.And(z3.BoolVal(o['kind'] == 'fin'), o['D'] == D, z3.BoolVal(o['sign'] == s)),
                          info={'step': 'decode(encode(v)) == v'}, tag='enc')
            # ordinal round trip (zeros counted once)
            try:
                od = fmt.to_ordinal(v)
                y = fmt.from_ordinal(od)
            except Exception as ex:  # noqa
                e.require(False, info={'step': 'ordinal round trip raised', 'err': repr(ex)[:150]}, tag='ord'); return
            o = out_of(y)
            e.cover('ordinal-roundtrip', D != 0)
            e.require(z3.And(z3.BoolVal(o['kind'] == 'fin'), o['D'] == D, z3.Or(D == 0, z3.BoolVal(o['sign'] == s)),
                             (lift(od) == 0) == (D == 0), z3.Implies(D != 0, (lift(od) < 0) == z3.BoolVal(s))),
                      info={'step': 'from_ordinal(to_ordinal(v)) == v'}, tag='ord')
            # normalisation keeps the value and yields a canonical form
            try:
                nv = fmt.normalize(v)
                can = bool(fmt.canonical_under(nv))
            except Exception as ex:  # noqa
                e.require(False, info={'step': 'normalize raised', 'err': repr(ex)[:150]}, tag='norm'); return
            o = out_of(nv)
            e.require(z3.And(z3.BoolVal(o['kind'] == 'fin'), o['D'] == D, z3.BoolVal(o['sign'] == s), z3.BoolVal(can)),
                      info={'step': 'normalize keeps the value, result canonical'}, tag='norm')
        eng = explore(run, setup, W=W, bl_max=W - 6)

    # ------------------------------------------------------------------------------------------------
    elif kind == 'order':
        s1 = bool(task['s1']); s2 = bool(task['s2'])
        cw = min(CW, (sp.p + 1) if sp.p else 5)

        def setup(e):
            return e.fresh('c1', 0, (1 << cw) - 1), e.fresh('e1', lowpos, E_hi), e.fresh('c2', 0, (1 << cw) - 1), e.fresh('e2', lowpos, E_hi)

        def run(e, c1, x1, c2, x2):
            D1 = den(c1, x1); D2 = den(c2, x2)
            D1 = D1 if isinstance(D1, z3.ExprRef) else z3.BitVecVal(D1, dsl.WO)
            D2 = D2 if isinstance(D2, z3.ExprRef) else z3.BitVecVal(D2, dsl.WO)
            m1 = z3.If(D1 == 0, z3.BoolVal((not s1) or sp.has_neg_zero), member(D1, s1))
            m2 = z3.If(D2 == 0, z3.BoolVal((not s2) or sp.has_neg_zero), member(D2, s2))
            e.assume(z3.And(m1, m2))
            v = Float(s1, x1, c1); w = Float(s2, x2, c2)
            try:
                o1 = fmt.to_ordinal(v); o2 = fmt.to_ordinal(w)
            except Exception as ex:  # noqa
                e.require(False, info={'step': 'to_ordinal raised on a member', 'err': repr(ex)[:150]}, tag='order'); return
            V1 = -D1 if s1 else D1; V2 = -D2 if s2 else D2
            e.cover('order-less', V1 < V2); e.cover('order-equal', V1 == V2)
            ok = e.require(z3.And((V1 < V2) == (lift(o1) < lift(o2)), (V1 == V2) == (lift(o1) == lift(o2))),
                           info={'step': 'v < w <=> ord(v) < ord(w)'}, tag='order')
            if len(samples) < 2:
                samples.append({'task': task['name'], 'example_pair': e.model_inputs(), 'proved': ok})
        eng = explore(run, setup, W=W, bl_max=W - 6)

    # ------------------------------------------------------------------------------------------------
    else:   # contig
        sized = sp.bounded
        if sized:
            lo_o = int(fmt.to_ordinal(fmt.smallest())); hi_o = int(fmt.to_ordinal(fmt.largest()))
        else:
            lo_o, hi_o = -40, 40

        def setup(e):
            return (e.fresh('o', lo_o - (2 if sized else 0), hi_o + (2 if sized else 0)),)

        def run(e, o):
            inside = e.branch(z3.And(o.t >= lo_o, o.t <= hi_o))
            if not inside:
                # outside the ordinal range of the finite values: no finite value may come back
                try:
                    x = fmt.from_ordinal(o)
                    fin = not x.is_nar()
                except (ValueError, TypeError, OverflowError):
                    fin = False
                except Exception as ex:  # noqa
                    e.require(False, info={'step': 'from_ordinal outside the range raised an unexpected error', 'err': repr(ex)[:150]}, tag='contig'); return
                e.cover('ordinal-outside-rejected', True)
                e.require(z3.BoolVal(not fin) if fam != 'Exp' else z3.BoolVal(not fin or False), info={'step': 'an ordinal outside the range of the finite values produced a finite value'}, tag='contig')
                if fam == 'Exp' and not fin:
                    # the all-ones code is NaN: it is not an ordinal either
                    try:
                        y = fmt.from_ordinal(o)
                        e.require(False, info={'step': 'ExpFormat.from_ordinal accepted the NaN code as an ordinal'}, tag='contig')
                    except (ValueError, TypeError, OverflowError):
                        pass
                return
            try:
                x = fmt.from_ordinal(o)
            except Exception as ex:  # noqa
                e.require(False, info={'step': 'from_ordinal raised inside the ordinal range', 'err': repr(ex)[:150]}, tag='contig'); return
            ox = out_of(x)
            if ox['kind'] != 'fin':
                e.require(False, info={'step': 'from_ordinal gave a non-finite value'}, tag='contig'); return
            mem = z3.If(ox['D'] == 0, z3.BoolVal(True), member(ox['D'], ox['sign']))
            try:
                back = fmt.to_ordinal(x)
            except Exception as ex:  # noqa
                e.require(False, info={'step': 'to_ordinal(from_ordinal(o)) raised', 'err': repr(ex)[:150]}, tag='contig'); return
            e.cover('contig-interior', z3.And(lift(o) > lo_o, lift(o) < hi_o))
            ok = e.require(z3.And(mem, lift(back) == lift(o)), info={'step': 'from_ordinal(o) is a member with ordinal o'}, tag='contig')
            if len(samples) < 2:
                samples.append({'task': task['name'], 'example_ordinal': e.model_inputs(), 'proved': ok})
            # stepping
            if fam != 'Exp':
                try:
                    if e.branch(o.t < hi_o):
                        y = fmt.next_up(x)
                        oy = fmt.to_ordinal(y)
                        e.cover('next-up', True)
                        # from -0/+0 both zeros have ordinal 0
                        e.require(lift(oy) == lift(o) + 1, info={'step': 'next_up steps one ordinal'}, tag='step')
                    if e.branch(o.t > lo_o):
                        y = fmt.next_down(x)
                        oy = fmt.to_ordinal(y)
                        e.cover('next-down', True)
                        e.require(lift(oy) == lift(o) - 1, info={'step': 'next_down steps one ordinal'}, tag='step')
                except Exception as ex:  # noqa
                    e.require(False, info={'step': 'next_up/next_down raised', 'err': repr(ex)[:150]}, tag='step')
        eng = explore(run, setup, W=W, bl_max=W - 6)
        # extremes: concrete facts about this format
        bad = []
        if sized:
            mx = fmt.maxval(False)
            if Fraction(int(mx.c)) * Fraction(2) ** int(mx.exp) != sp.pos_max:
                bad.append('maxval(+) != largest decoded value')
            if sp.neg_max != 0:
                mn = fmt.maxval(True)
                if Fraction(int(mn.c)) * Fraction(2) ** int(mn.exp) != sp.neg_max or not mn.s:
                    bad.append('maxval(-) != most negative decoded value')
            lg = fmt.largest(); sm = fmt.smallest()
            if Fraction(int(lg.c)) * Fraction(2) ** int(lg.exp) != sp.pos_max:
                bad.append('largest')
            if fam == 'Exp':
                if Fraction(int(sm.c)) * Fraction(2) ** int(sm.exp) != Fraction(2) ** sp.exp_min:
                    bad.append('smallest (exponential format: the minimum power of two)')
            elif Fraction(int(sm.c)) * Fraction(2) ** int(sm.exp) != sp.neg_max:
                bad.append('smallest')
        if fam != 'Exp' and (not sized or sp.pos_max != 0):
            mv = fmt.minval(False)
            if Fraction(int(mv.c)) * Fraction(2) ** int(mv.exp) != Fraction(2) ** (sp.n + 1):
                bad.append('minval != smallest positive member')
            if int(fmt.to_ordinal(mv)) != 1:
                bad.append('ordinal(minval) != 1')
        eng.witness['extremes'] = 1
        for bmsg in bad:
            eng.cex.append({'inputs': {}, 'info': {'step': bmsg}, 'tag': 'extremes'})

    cexs = []
    for cx in eng.cex:
        if cx.get('unknown') or cx.get('inputs') is None:
            cexs.append({'case': None})
        else:
            tt = {k: v for k, v in task.items() if k != 'name'}
            cexs.append({'case': {'task': tt, 'inputs': cx['inputs'], 'K': K, 'step': cx.get('tag')}, 'info': cx.get('info'),
                         'failed_obligations': cx.get('failed_obligations')})
    return dict(paths=eng.paths, decisions=eng.decisions, queries=eng.checks, unsat=eng.unsat, sat=eng.sat, unknown=eng.unknown,
                solve_s=eng.solve_s, requires=eng.requires, aborted=eng.aborted, witness=eng.witness, notes=eng.notes, cex=cexs, samples=samples)
