"""
C14 — Format inference bounds every run-time value.

Part 1 (abstract arithmetic, fully symbolic): the real `AbstractFormat.__add__/__sub__/__mul__/__neg__/__abs__/__or__/
__and__/__le__/format()` and `round_is_identity` run on formats whose parameters (prec, exp, bounds) are symbolic,
for every shape of the infinity sentinels; two *members* x, y are symbolic as well and the solver is asked for
members whose exact result lies outside the computed format (by the independent set definition).
Special-value flags are a finite boolean table and are enumerated exhaustively (concrete).

Part 2 (whole programs): see harness/c14_prog (tracing compiler) — tasks of kind 'prog'.
"""
import itertools
import os

PROPERTY = 'C14'
LEVEL = 'model_checking'
BUDGET_S = {'quick': 3600, 'thorough': 14400}

TIER = {'quick': dict(P=2, E=1, BW=2, W=32, WO=32), 'thorough': dict(P=3, E=2, BW=3, W=48, WO=40)}
SHAPES = ['fb', 'fu', 'mp', 'xb', 'xu', 'real']
C14_PROG_WITNESSES = ['prog-format-fact', 'prog-set-fact', 'prog-narrow-float-format']
# fb: float, bounded (prec, exp, bounds)     fu: float, unbounded range (prec, exp, inf)     mp: (prec, -inf, inf)
# xb: fixed, bounded (inf, exp, bounds)      xu: fixed, unbounded (inf, exp, inf)            real: (inf, -inf, inf)


def tasks(tier, seed):
    ts = []
    for op in ('add', 'sub', 'mul'):
        for s1 in SHAPES:
            for s2 in SHAPES:
                if tier == 'quick' and op == 'sub' and (s1, s2) not in (('fb', 'fb'), ('xb', 'fb'), ('fb', 'fu'), ('mp', 'xb'), ('xu', 'xb'), ('real', 'fb'), ('xb', 'xb'), ('fu', 'mp')):
                    continue
                if tier == 'quick' and op == 'mul' and (s1, s2) not in (('fb', 'fb'), ('fb', 'xb'), ('xb', 'xb'), ('xb', 'fu'), ('mp', 'xb'), ('fu', 'fu'), ('real', 'xb'), ('fb', 'mp')):
                    continue
                ts.append(dict(kind='binop', name='binop/%s/%s/%s' % (op, s1, s2), op=op, s1=s1, s2=s2, cost=(20 if op == 'mul' else 6) if (s1 in ('fb', 'xb') and s2 in ('fb', 'xb')) else 1))
    for op in ('or', 'and', 'le'):
        for s1 in SHAPES:
            for s2 in SHAPES:
                ts.append(dict(kind='lattice', name='lattice/%s/%s/%s' % (op, s1, s2), op=op, s1=s1, s2=s2))
    for op in ('neg', 'abs', 'pos', 'format'):
        for s1 in SHAPES:
            ts.append(dict(kind='unop', name='unop/%s/%s' % (op, s1), op=op, s1=s1))
    for s1 in SHAPES:
        for ci in range(6):
            ts.append(dict(kind='identity', name='identity/%s/ctx%d' % (s1, ci), s1=s1, ci=ci))
    ts.append(dict(kind='flags', name='concrete/flags'))
    ts.append(dict(kind='from_format', name='concrete/from_format', seed=seed))
    from . import c14_prog
    ts += c14_prog.tasks(tier, seed)
    return ts


def required_witnesses(tier):
    return ['member-pair', 'result-at-bound', 'carry-into-new-digit', 'le-true', 'le-false', 'identity-true', 'identity-false', 'format-float', 'format-fixed'] + C14_PROG_WITNESSES


def describe(tier):
    t = TIER[tier]
    R = '/repo/fpy2/analysis/'
    return dict(
        functions=['AbstractFormat.__add__/__sub__/__mul__/__neg__/__abs__/__pos__/__or__/__and__/__le__/_is_contained_in/effective_prec/_prec_constrains/format/from_format/specials_contained_in',
                   '_maxval_precision', 'round_is_identity', 'FormatInfer.analyze (by_expr/by_def/ret_fmt) on the program corpus', 'RealFloat.normalize/compare/__add__/__mul__'],
        files=[R + 'format_infer/format.py', R + 'format_infer/analysis.py', R + 'format_infer/__init__.py', R + 'context_use.py', R + 'array_size.py', '/repo/fpy2/number/context/format.py'],
        bounds=dict(prec='1..%d' % t['P'], exp='-%d..%d' % (t['E'], t['E']), bound_significand_bits=t['BW'], shapes=SHAPES, engine_width=t['W']),
        outside=['formats with parameters beyond the bounds', 'programs outside the corpus grammar (part 2)', 'SetFormat (finite value sets) arithmetic is exercised only through the program corpus'],
        stubs=['module-level int pass-through in reals.py', 'number formatting'],
        assumptions=['a format\'s bounds are members of the format and pos_bound >= 0 >= neg_bound (class invariant stated in the docstrings)',
                     'membership: x is 0, or a multiple of 2^exp with at most prec significant digits inside [neg_bound, pos_bound]; specials by the four flags'],
        rule='one case = one feasible path of the real abstract operation for a (operation, shape, shape) configuration, with formats and members symbolic',
        explanation='bounded model checking of the abstract domain against its concretisation; whole-program facts checked on symbolic executions of traced programs',
    )


def run_task(task):
    k = task['kind']
    if k in ('flags', 'from_format'):
        from . import c14_replay as RP
        n, bad, samples = getattr(RP, 'table_' + k)(task)
        cex = [{'case': {'task': {'kind': k}, 'inputs': {'row': b}}} for b in bad]
        return dict(paths=0, requires=0, cex=cex, samples=samples[:2], extra={'concrete_%s_cases' % k: n}, witness={})
    if k == 'prog':
        from . import c14_prog
        return c14_prog.run_task(task)
    return _run_symbolic(task)


def _run_symbolic(task):
    import z3
    from pysym.core import explore, SymInt, cur as cur_engine
    from pysym import shims
    from pysym.values import denote_mag
    import spec.dsl as dsl
    from spec.dsl import lift
    from spec.rounding import is_member
    import fpy2.number.number.reals as reals
    import fpy2.number.number.floats as floats
    import fpy2.number.context.context as cctx
    from fpy2 import RealFloat, Float
    from fpy2.analysis.format_infer.format import AbstractFormat
    tier = task.get('tier', 'quick')
    t = TIER[tier]
    P, E, BW, W = t['P'], t['E'], t['BW'], t['W']
    if task['kind'] == 'binop' and task['op'] == 'mul':
        P, E, BW = 2, 1, 2      # symbolic x symbolic products: narrower operands
    dsl.WO = t['WO']; WO = dsl.WO
    shims.install_int_pass(reals, floats, cctx)
    shims.stub_formatting()
    kind = task['kind']
    mulk = kind == 'binop' and task['op'] == 'mul'
    K = E + 1
    INF = float('inf')
    samples = []

    def c_(v):
        return z3.BitVecVal(v, WO)

    class Params:
        pass

    def mkfmt(e, shape, tag):
        """symbolic parameters of an AbstractFormat of the given sentinel shape (the object is built inside run:
        its constructor compares prec with 0)"""
        P_ = Params()
        P_.prec = e.fresh('p' + tag, 1, P) if shape in ('fb', 'fu', 'mp') else INF
        P_.exp = e.fresh('x' + tag, -E, E) if shape in ('fb', 'fu', 'xb', 'xu') else -INF
        if shape in ('fb', 'xb'):
            P_.b = (e.fresh('pc' + tag, 0, (1 << (BW + 2)) - 1), None, e.fresh('nc' + tag, 0, (1 << (BW + 2)) - 1), None)
        else:
            P_.b = None
        return P_, shape

    def build(P_):
        """prec and exp are enumerated (deterministic choose): every shift in the code and in the oracle becomes a constant;
        the bounds keep symbolic significands at the format's own exponent"""
        e = cur_engine()
        prec = P_.prec if isinstance(P_.prec, float) else e.choose(P_.prec.t)
        exp = P_.exp if isinstance(P_.exp, float) else e.choose(P_.exp.t)
        if P_.b is not None:
            pc, pe, nc, ne = P_.b
            be = exp if not isinstance(exp, float) else 0
            pb = RealFloat(False, be, pc); nb = RealFloat(True, be, nc)
        else:
            pb, nb = INF, -INF
        return AbstractFormat(prec, exp, pb, neg_bound=nb)

    def spec_terms(F, scale):
        """oracle view of a (possibly computed) AbstractFormat: python None for the sentinels"""
        p = None if isinstance(F.prec, float) else lift(F.prec)
        x = None if isinstance(F.exp, float) else lift(F.exp)
        def bnd(b):
            if isinstance(b, float):
                return None
            D = denote_mag(b.c, b.exp, scale, W=WO)
            return D if isinstance(D, z3.ExprRef) else c_(D)
        return p, x, bnd(F.pos_bound), bnd(F.neg_bound)

    def mem(V, F, scale):
        """is the finite signed scaled value V a member of F (set definition)?"""
        p, x, pb, nb = spec_terms(F, scale)
        mag = z3.If(V < 0, -V, V)
        n = None if x is None else x - 1
        if p is None and n is None:
            digits = z3.BoolVal(True)
        else:
            digits = is_member(mag, p, n, scale)
        inb = z3.BoolVal(True)
        if pb is not None:
            inb = z3.And(inb, z3.Or(V < 0, mag <= pb))
        if nb is not None:
            inb = z3.And(inb, z3.Or(V >= 0, mag <= nb))
        return z3.Or(V == 0, z3.And(digits, inb))

    def wellformed(e, F, scale):
        """class invariant: bounds are members; (signs are by construction)"""
        p, x, pb, nb = spec_terms(F, scale)
        cs = []
        if pb is not None:
            cs.append(mem(pb, F, scale)); cs.append(mem(-nb, F, scale))
        if cs:
            e.assume(z3.And(*cs))

    def member_var(e, name, scale):
        lim = (1 << (BW + 2 * E + scale - E)) if False else (1 << (BW + E + 2 + scale))
        return lift(e.fresh(name, -lim, lim)) if lim < (1 << (W - 2)) else z3.BitVec(name, WO)

    # oracle-only variables (members) live at oracle width: declare them as raw z3 variables with bounds
    def oracle_var(e, name, bits):
        v = z3.BitVec(name, WO)
        e.inputs[name] = v
        if not e.setup_replay:
            e.solver.add(v > -(1 << bits), v < (1 << bits))
        return v

    if kind == 'binop':
        op = task['op']
        sc = K
        vb = BW + 2 * E + 3 + sc

        def setup(e):
            F1, _ = mkfmt(e, task['s1'], '1'); F2, _ = mkfmt(e, task['s2'], '2')
            if op == 'mul' and tier == 'quick':
                # the enumerated factor: exponent 0..1 (quick), bounds below 4 quanta
                if not isinstance(F2.exp, float):
                    e.assume(F2.exp.t >= 0)
                if F2.b is not None:
                    e.assume(z3.Or(*[z3.And(F2.b[0].t == a_, F2.b[2].t == b_) for a_, b_ in ((3, 3), (3, 0), (0, 2), (1, 2))]))
                if F1.b is not None:
                    e.assume(z3.And(F1.b[0].t < 6, F1.b[2].t < 6))
            return F1, F2, oracle_var(e, 'mx', vb), oracle_var(e, 'my', vb)

        def run(e, F1, F2, mx, my):
            if op == 'mul' and F2.b is not None:
                # symbolic x symbolic products are intractable for bit-blasting: the second format's bounds and the second
                # member are enumerated, so every product has one constant factor
                F2.b = (e.choose(F2.b[0].t), None, e.choose(F2.b[2].t), None)
            F1, F2 = build(F1), build(F2)
            wellformed(e, F1, sc); wellformed(e, F2, sc)
            if op == 'mul':
                e.assume(mem(my, F2, sc))
                myc = e.choose(z3.Extract(W - 1, 0, my))
                e.assume(my == myc)
                my = c_(myc)
            try:
                R = F1 + F2 if op == 'add' else F1 - F2 if op == 'sub' else F1 * F2
            except Exception as ex:  # noqa
                e.require(False, info={'raised': repr(ex)[:200]}); return
            if op == 'mul':
                ex = mx * my; rs = 2 * sc
            else:
                ex = mx + my if op == 'add' else mx - my; rs = sc
            pre = z3.And(mem(mx, F1, sc), mem(my, F2, sc))
            post = mem(ex, R, rs)
            e.cover('member-pair', z3.And(pre, mx != 0, my != 0))
            p, x, pb, nb = spec_terms(R, rs)
            if pb is not None:
                e.cover('result-at-bound', z3.And(pre, ex == pb, ex != 0))
            if op != 'mul':
                from spec.dsl import bitlen
                am = z3.If(ex < 0, -ex, ex)
                e.cover('carry-into-new-digit', z3.And(pre, bitlen(am) > bitlen(z3.If(mx < 0, -mx, mx)), bitlen(am) > bitlen(z3.If(my < 0, -my, my))))
            ok = e.require(z3.Implies(pre, post), info={'op': op, 'result_shape': [type(R.prec).__name__, type(R.exp).__name__, type(R.pos_bound).__name__]})
            if len(samples) < 2:
                samples.append({'task': task['name'], 'example_formats_and_members': e.model_inputs(), 'proved': ok})
        eng = explore(run, setup, W=W, bl_max=W - 6)

    elif kind == 'lattice':
        op = task['op']
        sc = K
        vb = BW + 2 * E + 3 + sc

        def setup(e):
            F1, _ = mkfmt(e, task['s1'], '1'); F2, _ = mkfmt(e, task['s2'], '2')
            return F1, F2, oracle_var(e, 'mx', vb)

        def run(e, F1, F2, mx):
            F1, F2 = build(F1), build(F2)
            wellformed(e, F1, sc); wellformed(e, F2, sc)
            try:
                if op == 'or':
                    R = F1 | F2
                    ok = e.require(z3.Implies(z3.Or(mem(mx, F1, sc), mem(mx, F2, sc)), mem(mx, R, sc)), info={'op': 'union contains both'})
                elif op == 'and':
                    R = F1 & F2
                    ok = e.require(z3.Implies(z3.And(mem(mx, F1, sc), mem(mx, F2, sc)), mem(mx, R, sc)), info={'op': 'intersection contains common members'})
                else:
                    le = bool(F1 <= F2)
                    e.cover('le-true' if le else 'le-false', True)
                    ok = True
                    if le:
                        ok = e.require(z3.Implies(mem(mx, F1, sc), mem(mx, F2, sc)), info={'op': 'F1 <= F2 implies members(F1) subset members(F2)'})
            except Exception as ex:  # noqa
                e.require(False, info={'raised': repr(ex)[:200]}); return
            if len(samples) < 2:
                samples.append({'task': task['name'], 'example': e.model_inputs(), 'proved': ok})
        eng = explore(run, setup, W=W, bl_max=W - 6)

    elif kind == 'unop':
        op = task['op']
        sc = K
        vb = BW + 2 * E + 3 + sc

        def setup(e):
            F1, _ = mkfmt(e, task['s1'], '1')
            xs = e.fresh('vc', 0, (1 << BW) - 1), e.fresh('ve', -E, E + 2)
            return F1, oracle_var(e, 'mx', vb), xs

        def run(e, F1, mx, xs):
            F1 = build(F1)
            wellformed(e, F1, sc)
            try:
                if op in ('neg', 'abs', 'pos'):
                    R = -F1 if op == 'neg' else abs(F1) if op == 'abs' else +F1
                    ex = -mx if op == 'neg' else z3.If(mx < 0, -mx, mx) if op == 'abs' else mx
                    ok = e.require(z3.Implies(mem(mx, F1, sc), mem(ex, R, sc)), info={'op': op})
                else:
                    # members(F) subset members(F.format()): a symbolic value object is offered to the real format
                    fmt = F1.format()
                    e.cover('format-float' if type(fmt).__name__ in ('MPBFloatFormat', 'MPSFloatFormat', 'MPFloatFormat') else 'format-fixed' if 'Fixed' in type(fmt).__name__ else 'format-real', True)
                    vc, ve = xs
                    for s in (False, True):
                        v = Float(s, ve, vc)
                        D = denote_mag(vc, ve, sc, W=WO)
                        V = -D if s else D
                        rep = bool(fmt.representable_in(v))
                        ok = e.require(z3.Implies(z3.And(mem(V, F1, sc), V != 0), z3.BoolVal(rep)), info={'op': 'format() superset', 'format': type(fmt).__name__, 'sign': s})
            except Exception as ex:  # noqa
                e.require(False, info={'raised': repr(ex)[:200]}); return
            if len(samples) < 2:
                samples.append({'task': task['name'], 'example': e.model_inputs(), 'proved': ok})
        eng = explore(run, setup, W=W, bl_max=W - 6)

    elif kind == 'identity':
        from . import ctxgrid as G
        from fpy2.analysis.format_infer.analysis import round_is_identity
        descs = [dict(fam='MPFloat', pmax=3), dict(fam='MPSFloat', pmax=2, emin=-1), dict(fam='IEEE', es=2, nbits=5), dict(fam='MPFixed', nmin=-2),
                 dict(fam='Fixed', signed=True, scale=-1, nbits=4, ov='SATURATE'), dict(fam='MPBFloat', pmax=2, emin=0, maxval=[0, 1, 3], enable_nan=False, enable_inf=False, ov='SATURATE')]
        desc = dict(descs[task['ci']], rm='RNE')
        ctx = G.build(desc)
        sc = K

        def setup(e):
            F1, _ = mkfmt(e, task['s1'], '1')
            return F1, e.fresh('vc', 0, (1 << BW) - 1), e.fresh('ve', -E, E + 2)

        def run(e, F1, vc, ve):
            F1 = build(F1)
            wellformed(e, F1, sc)
            try:
                ident = bool(round_is_identity(F1, ctx))
            except Exception as ex:  # noqa
                e.require(False, info={'raised': repr(ex)[:200]}); return
            e.cover('identity-true' if ident else 'identity-false', True)
            if not ident:
                return
            for s in (False, True):
                v = Float(s, ve, vc)
                D = denote_mag(vc, ve, sc, W=WO)
                V = -D if s else D
                try:
                    r = ctx.round(v)
                    same = (not r.is_nar())
                    Dr = denote_mag(r.c, r.exp, sc, W=WO) if same else None
                except Exception as ex:  # noqa
                    e.require(z3.Not(z3.And(mem(V, F1, sc))), info={'round raised on a member': repr(ex)[:120]}); continue
                if not same:
                    e.require(z3.Not(mem(V, F1, sc)), info={'op': 'identity but rounding gave a special'}); continue
                ok = e.require(z3.Implies(mem(V, F1, sc), z3.And(Dr == D, z3.Or(D == 0, z3.BoolVal(bool(r.s) == s)), z3.BoolVal(not r.inexact))),
                               info={'op': 'round_is_identity => round(x) == x', 'ctx': G.name_of(desc)})
            if len(samples) < 2:
                samples.append({'task': task['name'], 'example': e.model_inputs(), 'identity': ident})
        eng = explore(run, setup, W=W, bl_max=W - 6)
    else:
        raise ValueError(kind)

    cexs = []
    for cx in eng.cex:
        if cx.get('unknown') or cx.get('inputs') is None:
            cexs.append({'case': None})
        else:
            tt = {k: v for k, v in task.items() if k != 'name'}
            cexs.append({'case': {'task': tt, 'inputs': cx['inputs'], 'K': K, 'info': cx.get('info')}, 'failed_obligations': cx.get('failed_obligations')})
    return dict(paths=eng.paths, decisions=eng.decisions, queries=eng.checks, unsat=eng.unsat, sat=eng.sat, unknown=eng.unknown,
                solve_s=eng.solve_s, requires=eng.requires, aborted=eng.aborted, witness=eng.witness, notes=eng.notes, cex=cexs, samples=samples)
