"""
Program corpus for the program-level properties (C04, C07, C08, C09, C13, C14-2, C15, C19).
Each entry: name, src (python text with @fp.fpy functions), entry (function name), args: list of argument kinds
  'real'            symbolic real (sign, significand symbolic; fixed exponent)
  ('list', L)       list of L symbolic reals (L enumerated by the harness from the given lengths)
  ('int', [v..])    integer-valued real, enumerated concretely
and tags naming the mechanisms the program aims at.
C3 / C4 / CI are small contexts available in the module namespace.
"""

PRELUDE = ""

P = []


def prog(name, src, entry, args, tags):
    P.append(dict(name=name, src=src, entry=entry, args=args, tags=set(tags)))


# ---- simplify targets: copies, reassignments, constants under contexts, dead code, aliases --------------------
prog('copy_then_reassign', '''
@fp.fpy
def f(x: fp.Real, y: fp.Real) -> fp.Real:
    a = x
    b = a
    a = y + a
    return b + a
''', 'f', ['real', 'real'], ['simplify', 'copy'])

prog('copy_in_branch', '''
@fp.fpy
def f(x: fp.Real, y: fp.Real) -> fp.Real:
    a = x
    if y > 0:
        a = y
    b = a
    return b * 2
''', 'f', ['real', 'real'], ['simplify', 'copy', 'branch'])

prog('copy_across_loop', '''
@fp.fpy
def f(x: fp.Real, xs: list[fp.Real]) -> fp.Real:
    a = x
    b = a
    for v in xs:
        a = a + v
        b = a
    return b - x
''', 'f', ['real', ('list', [0, 1, 2])], ['simplify', 'copy', 'loop'])

prog('const_under_contexts', '''
@fp.fpy
def f(x: fp.Real) -> fp.Real:
    with C3:
        a = 1 + 0.1875
    with C4:
        b = 1 + 0.1875
    with fp.REAL:
        c = 1 + 0.1875
    return (a + b + c) * x
''', 'f', ['real'], ['simplify', 'constfold', 'context'])

prog('const_round_modes', '''
@fp.fpy
def f(x: fp.Real) -> fp.Real:
    with C3UP:
        a = fp.round(1.3125)
    with C3DN:
        b = fp.round(1.3125)
    t = a - b
    return t + x
''', 'f', ['real'], ['simplify', 'constfold', 'context'])

prog('dead_defs', '''
@fp.fpy
def f(x: fp.Real, y: fp.Real) -> fp.Real:
    d = x * y
    e = d + 1
    u = x
    u = y
    return u - x
''', 'f', ['real', 'real'], ['simplify', 'dead'])

prog('dead_in_loop', '''
@fp.fpy
def f(xs: list[fp.Real]) -> fp.Real:
    acc = 0
    junk = 0
    for v in xs:
        junk = junk + v * v
        acc = acc + v
    return acc
''', 'f', [('list', [0, 1, 3])], ['simplify', 'dead', 'loop'])

prog('alias_mutation', '''
@fp.fpy
def f(x: fp.Real, y: fp.Real) -> fp.Real:
    a = [x, y]
    b = a
    b[0] = y + 1
    c = a[0]
    return c + a[1]
''', 'f', ['real', 'real'], ['simplify', 'alias', 'list'])

prog('const_cond', '''
@fp.fpy
def f(x: fp.Real) -> fp.Real:
    k = 2
    if k > 1:
        r = x + k
    else:
        r = x - k
    return r
''', 'f', ['real'], ['simplify', 'constfold', 'branch'])

prog('tuple_copy', '''
@fp.fpy
def f(x: fp.Real, y: fp.Real) -> tuple[fp.Real, fp.Real]:
    t = (x, y)
    a, b = t
    a = a + b
    return (a, b)
''', 'f', ['real', 'real'], ['simplify', 'tuple', 'copy'])

prog('while_redefine', '''
@fp.fpy
def f(x: fp.Real) -> fp.Real:
    i = 0
    a = x
    while i < 3:
        b = a
        a = b + b
        i = i + 1
    return a
''', 'f', ['real'], ['simplify', 'loop', 'copy', 'unroll_while'])

prog('neg_zero_fold', '''
@fp.fpy
def f(x: fp.Real) -> fp.Real:
    z = -0.0
    w = z * 1
    return fp.copysign(x, w) if False else x + w
''', 'f', ['real'], ['simplify', 'constfold', 'zero'])

# ---- loop restructuring targets ---------------------------------------------------------------------------------
prog('sum_loop', '''
@fp.fpy
def f(xs: list[fp.Real]) -> fp.Real:
    acc = 0
    for v in xs:
        acc = acc + v
    return acc
''', 'f', [('list', [0, 1, 2, 3, 4, 5])], ['loop', 'unroll_for', 'split'])

prog('loop_outer_reassign', '''
@fp.fpy
def f(xs: list[fp.Real], x: fp.Real) -> fp.Real:
    t = x
    n = 0
    for v in xs:
        t = t * v + n
        n = n + 1
    return t + n
''', 'f', [('list', [0, 1, 2, 3, 4]), 'real'], ['loop', 'unroll_for', 'split', 'heavy'])

prog('loop_mutates_list', '''
@fp.fpy
def f(xs: list[fp.Real]) -> fp.Real:
    acc = 0
    for i in range(len(xs)):
        xs[i] = xs[i] + acc
        acc = acc + xs[i]
    return acc
''', 'f', [('list', [0, 1, 2, 3, 4])], ['loop', 'unroll_for', 'split', 'alias'])

prog('loop_early_return', '''
@fp.fpy
def f(xs: list[fp.Real]) -> fp.Real:
    acc = 0
    for v in xs:
        if v < 0:
            return acc
        acc = acc + v
    return acc + 1
''', 'f', [('list', [0, 1, 2, 3])], ['loop', 'unroll_for', 'early_return'])

prog('nested_loops', '''
@fp.fpy
def f(xs: list[fp.Real]) -> fp.Real:
    acc = 0
    for v in xs:
        for w in xs:
            acc = acc + v * w
    return acc
''', 'f', [('list', [0, 1, 2, 3])], ['loop', 'unroll_for', 'split', 'nested', 'heavy'])

prog('loop_temp_names', '''
@fp.fpy
def f(xs: list[fp.Real]) -> fp.Real:
    t = 1
    n = 2
    i = 3
    for v in xs:
        t = t + v * n
    return t + i
''', 'f', [('list', [0, 1, 2, 3, 4])], ['loop', 'unroll_for', 'split', 'names'])

prog('while_count', '''
@fp.fpy
def f(x: fp.Real, n: fp.Real) -> fp.Real:
    i = 0
    a = x
    while i < n:
        a = a + i
        i = i + 1
    return a
''', 'f', ['real', ('int', [0, 1, 2, 3, 4])], ['loop', 'unroll_while'])

prog('while_early_return', '''
@fp.fpy
def f(x: fp.Real, n: fp.Real) -> fp.Real:
    i = 0
    a = x
    while i < n:
        if a > 4:
            return a
        a = a + a
        i = i + 1
    return a - 1
''', 'f', ['real', ('int', [0, 1, 3])], ['loop', 'unroll_while', 'early_return'])

prog('zip_loop', '''
@fp.fpy
def f(xs: list[fp.Real], ys: list[fp.Real]) -> fp.Real:
    acc = 0
    for a, b in zip(xs, ys):
        acc = acc + a * b
    return acc
''', 'f', [('list', [0, 1, 2, 3]), ('list', 'same')], ['loop', 'zip', 'elim_iter'])

prog('enumerate_loop', '''
@fp.fpy
def f(xs: list[fp.Real]) -> fp.Real:
    acc = 0
    for i, v in enumerate(xs):
        acc = acc + i * v
    return acc
''', 'f', [('list', [0, 1, 2, 3])], ['loop', 'enumerate', 'elim_iter'])

prog('zip_mutating', '''
@fp.fpy
def f(xs: list[fp.Real], ys: list[fp.Real]) -> fp.Real:
    acc = 0
    for a, b in zip(xs, ys):
        xs[0] = b
        acc = acc + a
    return acc + xs[0]
''', 'f', [('list', [1, 2, 3]), ('list', 'same')], ['loop', 'zip', 'elim_iter', 'alias'])

prog('any_all_fuse', '''
@fp.fpy
def f(xs: list[fp.Real], t: fp.Real) -> bool:
    p = any([v > t for v in xs])
    q = all([v + t > 0 for v in xs])
    return p and not q
''', 'f', [('list', [0, 1, 2, 3]), 'real'], ['fuse', 'comprehension', 'heavy'])

prog('comprehension_sum', '''
@fp.fpy
def f(xs: list[fp.Real]) -> fp.Real:
    ys = [v * 2 for v in xs]
    return sum(ys)
''', 'f', [('list', [0, 1, 2, 3])], ['comprehension', 'loop'])

# ---- calls: inlining / monomorphize / close / lift_context -----------------------------------------------------
prog('call_simple', '''
@fp.fpy
def g(a: fp.Real, b: fp.Real) -> fp.Real:
    t = a * b
    return t + a

@fp.fpy
def f(x: fp.Real, y: fp.Real) -> fp.Real:
    t = x + 1
    r = g(t, y)
    return r - t
''', 'f', ['real', 'real'], ['inline', 'names'])

prog('call_own_context', '''
@fp.fpy(ctx=C3)
def g(a: fp.Real) -> fp.Real:
    return a * 1.3125

@fp.fpy
def f(x: fp.Real) -> fp.Real:
    with C4:
        r = g(x) + x
    return r
''', 'f', ['real'], ['inline', 'context'])

prog('call_in_nested_with', '''
@fp.fpy
def g(a: fp.Real, b: fp.Real) -> fp.Real:
    return a * b + a

@fp.fpy
def f(x: fp.Real, y: fp.Real) -> fp.Real:
    with C4:
        u = g(x, y)
        with C3:
            v = g(u, y)
    return u + v
''', 'f', ['real', 'real'], ['inline', 'context', 'nested'])

prog('call_in_loop', '''
@fp.fpy
def g(a: fp.Real, acc: fp.Real) -> fp.Real:
    return acc + a * a

@fp.fpy
def f(xs: list[fp.Real]) -> fp.Real:
    acc = 0
    for v in xs:
        acc = g(v, acc)
    return acc
''', 'f', [('list', [0, 1, 2, 3])], ['inline', 'loop'])

prog('call_mutates_list', '''
@fp.fpy
def g(zs: list[fp.Real], k: fp.Real) -> fp.Real:
    zs[0] = zs[0] + k
    return zs[0]

@fp.fpy
def f(xs: list[fp.Real], y: fp.Real) -> fp.Real:
    a = g(xs, y)
    b = g(xs, a)
    return xs[0] + b
''', 'f', [('list', [1, 2]), 'real'], ['inline', 'alias', 'list'])

prog('call_arg_order', '''
@fp.fpy
def g(a: fp.Real, b: fp.Real) -> fp.Real:
    return a - b

@fp.fpy
def h(zs: list[fp.Real]) -> fp.Real:
    zs[0] = zs[0] + 1
    return zs[0]

@fp.fpy
def f(xs: list[fp.Real]) -> fp.Real:
    return g(h(xs), h(xs))
''', 'f', [('list', [1, 2])], ['inline', 'order', 'alias'])

prog('call_chain', '''
@fp.fpy
def k(a: fp.Real) -> fp.Real:
    return a + 0.5

@fp.fpy
def g(a: fp.Real) -> fp.Real:
    t = k(a)
    return t * k(t)

@fp.fpy
def f(x: fp.Real) -> fp.Real:
    t = g(x)
    return t - k(x)
''', 'f', ['real'], ['inline', 'chain', 'names'])

prog('captured_values', '''
SCALE = 1.5
OFFS = [0.25, -2]

@fp.fpy
def f(x: fp.Real) -> fp.Real:
    return x * SCALE + OFFS[0] + OFFS[1]
''', 'f', ['real'], ['close'])

prog('ctx_in_loop', '''
@fp.fpy
def f(xs: list[fp.Real]) -> fp.Real:
    acc = 0
    for v in xs:
        with fp.MPSFloatContext(3, -2):
            acc = acc + v
        with fp.MPSFloatContext(4, -3, fp.RM.RTZ):
            acc = acc * 1.0625
    return acc
''', 'f', [('list', [0, 1, 2, 3])], ['lift_context', 'context', 'loop'])

prog('ctx_dynamic', '''
@fp.fpy
def f(x: fp.Real, p: fp.Real) -> fp.Real:
    with fp.MPSFloatContext(p, -2):
        a = x * 1.3125
    with fp.MPSFloatContext(3, -2):
        b = x * 1.3125
    return a + b
''', 'f', ['real', ('int', [2, 3, 4])], ['lift_context', 'context'])

# ---- semantics targets (C04) --------------------------------------------------------------------------------------
prog('with_sequential_nested', '''
@fp.fpy
def f(x: fp.Real, y: fp.Real) -> fp.Real:
    a = x * y
    with C3:
        b = x * y
        with fp.REAL:
            c = x * y
        d = b + c
    e = d * 1.0625
    return a + e
''', 'f', ['real', 'real'], ['semantics', 'context', 'nested'])

prog('early_return_in_with', '''
@fp.fpy
def f(x: fp.Real) -> fp.Real:
    with C3:
        if x > 1:
            return x * 1.3125
        y = x + 1.3125
    return y * 1.0625
''', 'f', ['real'], ['semantics', 'context', 'early_return'])

prog('minmax_chain', '''
@fp.fpy
def f(x: fp.Real, y: fp.Real, z: fp.Real) -> fp.Real:
    lo = min(x, y, z)
    hi = max(x, y)
    if lo <= y < hi or x == z:
        return hi - lo
    return lo
''', 'f', ['real', 'real', 'real'], ['semantics', 'compare'])

prog('slices_and_index', '''
@fp.fpy
def f(xs: list[fp.Real]) -> fp.Real:
    a = xs[1:3]
    b = xs[:2]
    a[0] = a[0] + b[1]
    return a[0] + xs[1] + sum(xs[2:])
''', 'f', [('list', [3, 4])], ['semantics', 'list', 'slice'])

prog('shortcircuit', '''
@fp.fpy
def f(xs: list[fp.Real], i: fp.Real) -> bool:
    return i < len(xs) and xs[i] > 0 or i > 5
''', 'f', [('list', [0, 1, 2]), ('int', [0, 1, 2, 6])], ['semantics', 'bool', 'list'])

prog('tuple_swap_loop', '''
@fp.fpy
def f(x: fp.Real, y: fp.Real, n: fp.Real) -> tuple[fp.Real, fp.Real]:
    a, b = x, y
    for _ in range(n):
        a, b = b, a + b
    return (a, b)
''', 'f', ['real', 'real', ('int', [0, 1, 2, 3])], ['semantics', 'tuple', 'loop', 'unroll_for'])

prog('caller_context_helper', '''
@fp.fpy
def g(a: fp.Real) -> fp.Real:
    return a * 1.3125

@fp.fpy
def f(x: fp.Real) -> fp.Real:
    u = g(x)
    with C3:
        v = g(x)
    with fp.REAL:
        w = g(x)
    return u + v + w
''', 'f', ['real'], ['semantics', 'inline', 'context'])


# ---- simplify: shapes that stress the fixpoints and the side conditions of the three passes ---------------------
prog('loop_tuple_carried', '''
@fp.fpy
def f(n: int, r: fp.Real) -> tuple[fp.Real, fp.Real]:
    s = 0.0
    last = 0.0
    for _ in range(n):
        a, b = (s, 1.0)
        last = a
        s = a + b + r
    return (s, last)
''', 'f', [('int', [0, 1, 2, 3]), 'real'], ['simplify', 'constfold', 'loop', 'tuple'])

prog('while_tuple_carried', '''
@fp.fpy
def f(r: fp.Real) -> tuple[fp.Real, fp.Real]:
    acc = 1.0
    last = 0.0
    i = 0
    while i < 3:
        prev, step = (acc, 2.0)
        last = prev
        acc = prev * step + r
        i = i + 1
    return (acc, last)
''', 'f', ['real'], ['simplify', 'constfold', 'loop', 'tuple'])

prog('saved_before_for', '''
@fp.fpy
def f(x: fp.Real, n: int) -> fp.Real:
    x0 = x
    for _ in range(n):
        x = x + 1.0
    return x - x0
''', 'f', ['real', ('int', [0, 1, 3])], ['simplify', 'copy', 'loop'])

prog('saved_before_while', '''
@fp.fpy
def f(x: fp.Real, y: fp.Real) -> tuple[fp.Real, fp.Real]:
    start = x
    i = 0
    while i < 2:
        x = x + y
        i = i + 1
    return (start, x)
''', 'f', ['real', 'real'], ['simplify', 'copy', 'loop'])

prog('saved_before_if', '''
@fp.fpy
def f(x: fp.Real, c: fp.Real) -> fp.Real:
    x0 = x
    if c > 0:
        x = x + 1.0
    return x - x0
''', 'f', ['real', 'real'], ['simplify', 'copy', 'branch'])

prog('signed_zero_table', '''
@fp.fpy
def f(i: int) -> fp.Real:
    xs = [-0.0, 1.0, 0.0]
    return xs[i]
''', 'f', [('int', [0, 1, 2])], ['simplify', 'constfold', 'list', 'negzero'])

prog('signed_zero_pair', '''
@fp.fpy
def f(x: fp.Real) -> tuple[fp.Real, fp.Real, fp.Real]:
    z = 0.0 * -1.0
    t = (z, 1.0 + 1.0)
    a, b = t
    return (a, b, x)
''', 'f', ['real'], ['simplify', 'constfold', 'tuple', 'negzero'])

prog('signed_zero_phi', '''
@fp.fpy
def f(c: fp.Real) -> fp.Real:
    z = 0.0
    if c > 0:
        z = -0.0
    return z
''', 'f', ['real'], ['simplify', 'constfold', 'branch', 'negzero'])

prog('signed_zero_loop_phi', '''
@fp.fpy
def f(n: int) -> fp.Real:
    z = 0.0
    for _ in range(n):
        z = -z
    return z
''', 'f', [('int', [0, 1, 2])], ['simplify', 'constfold', 'loop', 'negzero'])

prog('dead_phi_operand', '''
@fp.fpy
def f(z: fp.Real, c: fp.Real) -> fp.Real:
    x = z * 3
    y = x + 1
    if c > 0:
        x = 2
    return y
''', 'f', ['real', 'real'], ['simplify', 'dead', 'branch'])

prog('dead_phi_operand_loop', '''
@fp.fpy
def f(z: fp.Real, xs: list[fp.Real]) -> fp.Real:
    x = z + 1
    y = x * 2
    for v in xs:
        x = v
    return y
''', 'f', ['real', ('list', [0, 1, 2])], ['simplify', 'dead', 'loop'])

prog('const_list_alias', '''
@fp.fpy
def f(x: fp.Real) -> fp.Real:
    xs = [1, 2]
    ys = xs
    ys[0] = 5
    return xs[0] + x
''', 'f', ['real'], ['simplify', 'constfold', 'alias', 'list'])

prog('const_list_alias_loop', '''
@fp.fpy
def f(x: fp.Real, n: int) -> fp.Real:
    xs = [1, 2]
    ys = xs
    for i in range(n):
        ys[i] = x
    return xs[0] + xs[1]
''', 'f', ['real', ('int', [0, 1, 2])], ['simplify', 'constfold', 'alias', 'list', 'loop'])

prog('callee_mutates_alias', '''
@fp.fpy
def helper(xs: list[fp.Real]) -> fp.Real:
    ys = xs
    ys[0] = 7
    return 0

@fp.fpy
def f(x: fp.Real) -> fp.Real:
    xs = [x, x]
    t = helper(xs)
    return xs[0]
''', 'f', ['real'], ['simplify', 'dead', 'alias', 'list', 'inline'])

prog('callee_mutates_in_loop', '''
@fp.fpy
def helper(xs: list[fp.Real], v: fp.Real) -> fp.Real:
    for i in range(len(xs)):
        xs[i] = xs[i] + v
    return 0

@fp.fpy
def f(x: fp.Real, y: fp.Real) -> fp.Real:
    xs = [x, y]
    t = helper(xs, y)
    return xs[0] + xs[1]
''', 'f', ['real', 'real'], ['simplify', 'dead', 'alias', 'list', 'inline'])

prog('loop_target_shadows_const', '''
@fp.fpy
def f(xs: list[fp.Real]) -> fp.Real:
    x = 1.0
    for x in xs:
        pass
    return x
''', 'f', [('list', [0, 1, 2])], ['simplify', 'constfold', 'loop'])

prog('loop_target_shadows_copy', '''
@fp.fpy
def f(y: fp.Real, xs: list[fp.Real]) -> fp.Real:
    x = y
    for x in xs:
        y = y + x
    return x + y
''', 'f', ['real', ('list', [0, 1, 2])], ['simplify', 'copy', 'loop'])

prog('comp_target_shadows_const', '''
@fp.fpy
def f(xs: list[fp.Real]) -> fp.Real:
    x = 2.0
    ys = [x + 1 for x in xs]
    return sum(ys) + x
''', 'f', [('list', [0, 1, 2])], ['simplify', 'constfold', 'comprehension'])

prog('with_target_and_const', '''
@fp.fpy
def f(x: fp.Real) -> fp.Real:
    k = 0.1875
    with C3:
        a = k + 1
        k = x
    with C4:
        b = k + 1
    return a + b
''', 'f', ['real'], ['simplify', 'constfold', 'context', 'copy'])

prog('copy_of_list_then_rebind', '''
@fp.fpy
def f(x: fp.Real, y: fp.Real) -> fp.Real:
    a = [x, y]
    b = a
    a = [y, x]
    b[0] = b[0] + 1
    return a[0] + b[0]
''', 'f', ['real', 'real'], ['simplify', 'copy', 'alias', 'list'])

prog('nested_branch_consts', '''
@fp.fpy
def f(x: fp.Real, c: fp.Real) -> fp.Real:
    k = 1
    if c > 0:
        k = 2
        if x > 0:
            k = 3
    else:
        k = 2
    return x + k
''', 'f', ['real', 'real'], ['simplify', 'constfold', 'branch'])

prog('early_return_const', '''
@fp.fpy
def f(x: fp.Real) -> fp.Real:
    k = 1
    if x > 0:
        return k + x
    k = 2
    return k - x
''', 'f', ['real'], ['simplify', 'constfold', 'branch', 'return'])

# ---- loop restructuring: bodies that write the iterated list, variable split factors, narrow ambient contexts -----
prog('loop_lookahead_write', '''
@fp.fpy
def f(xs: list[fp.Real]) -> fp.Real:
    acc = 0.0
    i = 0
    for x in xs:
        acc = acc + x
        if i + 1 < len(xs):
            xs[i + 1] = x + 1.0
        i = i + 1
    return acc
''', 'f', [('list', [0, 1, 2, 3, 4, 5])], ['loop', 'unroll_for', 'split', 'alias'])

prog('loop_factor_var_reassigned', '''
@fp.fpy
def f(xs: list[fp.Real], k: fp.Real) -> fp.Real:
    acc = 0.0
    for x in xs:
        acc = acc + x * k
        k = k + 1.0
    return acc
''', 'f', [('list', [0, 1, 2, 3, 4]), ('int', [1, 2, 3])], ['loop', 'split', 'split_var', 'heavy'])

prog('loop_factor_var_plain', '''
@fp.fpy
def f(xs: list[fp.Real], k: fp.Real) -> fp.Real:
    acc = 0.0
    for x in xs:
        acc = acc + x + k
    return acc
''', 'f', [('list', [0, 1, 2, 3, 4]), ('int', [1, 2, 3])], ['loop', 'split', 'split_var'])

prog('loop_under_one_digit', '''
@fp.fpy
def f(xs: list[fp.Real]) -> fp.Real:
    with C1:
        last = 0
        for x in xs:
            last = x
        return last
''', 'f', [('list', [0, 1, 2, 3, 4, 5, 6, 7])], ['loop', 'unroll_for', 'split', 'context'])


prog('fuse_target_shadows', '''
@fp.fpy
def f(xs: list[fp.Real]) -> fp.Real:
    x = 5.0
    b = any([x < 0 for x in xs])
    if b:
        return x + 1
    return x
''', 'f', [('list', [0, 1, 2, 3])], ['fuse', 'comprehension', 'simplify'])

prog('fuse_in_while_condition', '''
@fp.fpy
def f(xs: list[fp.Real]) -> fp.Real:
    i = 0
    while i < 3 and any([v > i for v in xs]):
        i = i + 1
    return i
''', 'f', [('list', [0, 1, 2])], ['fuse', 'comprehension', 'loop'])

prog('fuse_sum_then_mutate', '''
@fp.fpy
def f(xs: list[fp.Real], y: fp.Real) -> fp.Real:
    s = sum([v + y for v in xs])
    t = sum([v * 2 for v in xs])
    return s - t
''', 'f', [('list', [0, 1, 2, 3]), 'real'], ['fuse', 'comprehension'])

prog('temporaries_vs_user_names', '''
@fp.fpy
def f(xs: list[fp.Real]) -> fp.Real:
    t = 0.0
    t4 = 1.0
    for x in xs:
        t = t + x + t4
    return t + t4
''', 'f', [('list', [0, 1, 2, 3])], ['loop', 'unroll_for', 'split', 'names'])

prog('temporaries_vs_user_names_i', '''
@fp.fpy
def f(xs: list[fp.Real]) -> fp.Real:
    i = 2.0
    i4 = 1.0
    for x in xs:
        i = i + x
    return i + i4
''', 'f', [('list', [0, 1, 2, 3])], ['loop', 'unroll_for', 'split', 'names'])

prog('fuse_guarded_operand', '''
@fp.fpy
def f(xs: list[fp.Real], ys: list[fp.Real], i: int) -> bool:
    return i < len(xs) and any([xs[i] < v for v in ys])
''', 'f', [('list', [0, 1]), ('list', [0, 1, 2]), ('int', [0, 1])], ['fuse', 'comprehension'])

# ---- semantics (C04): context scoping, callee contexts, strictness, selection, entry ---------------------------------
prog('sem_early_return_in_with', '''
@fp.fpy
def f(x: fp.Real, y: fp.Real) -> fp.Real:
    with C3:
        if x > 0:
            return x + y
        a = x * y
    return a + y
''', 'f', ['real', 'real'], ['semantics', 'context', 'early_return'])

prog('sem_nested_with_then_after', '''
@fp.fpy
def f(x: fp.Real, y: fp.Real) -> fp.Real:
    with C4:
        a = x + y
        with C3UP:
            b = a + y
            with fp.REAL:
                c = b * y
        d = c + x
    e = d + x
    return e
''', 'f', ['real', 'real'], ['semantics', 'context', 'nested'])

prog('sem_with_as_reused', '''
@fp.fpy
def f(x: fp.Real, y: fp.Real) -> fp.Real:
    with fp.MPSFloatContext(3, -2, fp.RM.RTZ) as c:
        a = x + y
    b = a + y
    with c:
        d = b + x
    return d
''', 'f', ['real', 'real'], ['semantics', 'context'])

prog('sem_callee_contexts', '''
@fp.fpy(ctx=C3)
def pinned(a: fp.Real, b: fp.Real) -> fp.Real:
    return a + b

@fp.fpy
def inherits(a: fp.Real, b: fp.Real) -> fp.Real:
    return a + b

@fp.fpy
def f(x: fp.Real, y: fp.Real) -> tuple[fp.Real, fp.Real, fp.Real]:
    with C4:
        u = pinned(x, y)
        v = inherits(x, y)
    w = inherits(x, y)
    return (u, v, w)
''', 'f', ['real', 'real'], ['semantics', 'context', 'inline'])

prog('sem_callee_ctx_then_back', '''
@fp.fpy
def helper(a: fp.Real) -> fp.Real:
    with C3DN:
        return a + a

@fp.fpy
def f(x: fp.Real, y: fp.Real) -> fp.Real:
    with C4:
        t = helper(x)
        u = t + y
    return u + helper(y)
''', 'f', ['real', 'real'], ['semantics', 'context', 'inline'])

prog('sem_comprehension_under_with', '''
@fp.fpy
def f(xs: list[fp.Real], x: fp.Real) -> fp.Real:
    with C3:
        ys = [v + x for v in xs]
    return sum(ys)
''', 'f', [('list', [0, 1, 2, 3]), 'real'], ['semantics', 'context', 'comprehension'])

prog('sem_loop_ctx_and_augassign', '''
@fp.fpy
def f(xs: list[fp.Real], x: fp.Real) -> fp.Real:
    acc = x
    i = 0
    while i < len(xs):
        with C3UP:
            acc += xs[i]
        acc *= 1.0625
        i += 1
    return acc
''', 'f', [('list', [0, 1, 2]), 'real'], ['semantics', 'context', 'loop'])

prog('sem_strict_index', '''
@fp.fpy
def f(xs: list[fp.Real], i: int) -> fp.Real:
    return xs[i] + 1
''', 'f', [('list', [0, 2]), ('int', [0, 1, 2, -1])], ['semantics', 'list', 'stuck'])

prog('sem_strict_slice', '''
@fp.fpy
def f(xs: list[fp.Real], a: int, b: int) -> fp.Real:
    ys = xs[a:b]
    ys[0] = ys[0] + 1
    return sum(ys) + xs[a]
''', 'f', [('list', [3]), ('int', [0, 1, 3]), ('int', [2, 3, 4])], ['semantics', 'list', 'slice', 'stuck'])

prog('sem_zip_unequal', '''
@fp.fpy
def f(xs: list[fp.Real], ys: list[fp.Real]) -> fp.Real:
    acc = 0
    for a, b in zip(xs, ys):
        acc = acc + a * b
    return acc
''', 'f', [('list', [1, 2]), ('list', [2])], ['semantics', 'zip', 'stuck'])

prog('sem_assert', '''
@fp.fpy
def f(x: fp.Real, y: fp.Real) -> fp.Real:
    assert x <= y
    return y - x
''', 'f', ['real', 'real'], ['semantics', 'stuck'])

prog('sem_minmax_zero_and_order', '''
@fp.fpy
def f(x: fp.Real, y: fp.Real) -> tuple[fp.Real, fp.Real, fp.Real, fp.Real]:
    pz = x - x
    nz = -pz
    return (max(pz, nz), min(pz, nz), max(nz, pz, y), min(x, y, pz))
''', 'f', ['real', 'real'], ['semantics', 'minmax'])

prog('sem_compare_chain_short_circuit', '''
@fp.fpy
def f(xs: list[fp.Real], x: fp.Real, i: int) -> fp.Real:
    r = 0
    if i < len(xs) and xs[i] > x:
        r = r + 1
    if i >= len(xs) or not (xs[i] <= x):
        r = r + 2
    if 0 <= x < 3 != r:
        r = r + 4
    return r
''', 'f', [('list', [0, 1, 2]), 'real', ('int', [0, 1, 2])], ['semantics', 'compare', 'bool'])

prog('sem_operator_table', '''
@fp.fpy
def f(x: fp.Real, y: fp.Real) -> tuple[fp.Real, fp.Real, fp.Real, fp.Real, fp.Real, fp.Real]:
    with C3:
        return (x + y, x - y, x * y, -x, abs(y), fp.fma(x, y, x))
''', 'f', ['real', 'real'], ['semantics', 'operators'])

prog('sem_arguments_not_rounded', '''
@fp.fpy
def ident(a: fp.Real) -> fp.Real:
    b = a
    return b

@fp.fpy
def f(x: fp.Real, xs: list[fp.Real]) -> tuple[fp.Real, fp.Real, list[fp.Real]]:
    with C3:
        y = x
        z = ident(x)
        zs = [v for v in xs]
    return (y, z, zs)
''', 'f', ['real', ('list', [0, 2])], ['semantics', 'entry'])

prog('sem_nested_patterns_and_sharing', '''
@fp.fpy
def bump(ys: list[fp.Real], v: fp.Real) -> fp.Real:
    ys[0] = ys[0] + v
    return ys[0]

@fp.fpy
def f(x: fp.Real, y: fp.Real) -> tuple[fp.Real, fp.Real, fp.Real]:
    a, (b, c) = (x, (y, x + y))
    xs = [a, b, c]
    t = (xs, c)
    zs, _ = t
    r = bump(zs, c)
    ws = xs[0:2]
    ws[1] = r
    return (xs[0], xs[1], r)
''', 'f', ['real', 'real'], ['semantics', 'tuple', 'alias', 'list', 'inline'])

prog('sem_enumerate_range_ifexpr', '''
@fp.fpy
def f(xs: list[fp.Real], x: fp.Real) -> fp.Real:
    acc = 0
    for i, v in enumerate(xs):
        acc = acc + (v if v > x else i)
    for k in range(1, len(xs) + 1, 2):
        acc = acc - k
    return acc
''', 'f', [('list', [0, 1, 2]), 'real'], ['semantics', 'enumerate', 'loop'])

prog('sem_minmax_literal_zero', '''
@fp.fpy
def f(x: fp.Real, y: fp.Real) -> tuple[fp.Real, fp.Real, fp.Real, fp.Real, fp.Real, fp.Real]:
    z = x - x
    n = -z
    return (max(n, 0), max(0, n), min(0, n), min(n, 0), max(y * 0, 0), min(0, y * 0, z))
''', 'f', ['real', 'real'], ['semantics', 'minmax'])

prog('sem_mod_signs', '''
@fp.fpy
def f(i: int, n: int, x: fp.Real) -> fp.Real:
    with C4:
        r = i % n
        i %= 4
    return r + x + i
''', 'f', [('int', [-7, 7, -5]), ('int', [3, -3]), 'real'], ['semantics', 'operators'])

prog('sem_ctor_keyword_arith', '''
@fp.fpy
def f(x: fp.Real, y: fp.Real) -> tuple[fp.Real, fp.Real]:
    with fp.MPFloatContext(pmax=3 + 2):
        r = x * y
    with fp.MPSFloatContext(3 + 2, emin=-2 - 1):
        s = x * y
    return (r, s)
''', 'f', ['real', 'real'], ['semantics', 'context'])

prog('sem_counts_are_exact', '''
@fp.fpy
def f(xs: list[fp.Real], x: fp.Real) -> tuple[fp.Real, fp.Real, fp.Real]:
    with C1:
        n = fp.size(xs, 0)
        d = fp.dim([xs, xs])
        l = len(xs)
    return (n + x, d + x, l + x)
''', 'f', [('list', [3, 1, 2]), 'real'], ['semantics', 'list', 'no_tv'])

prog('sem_variable_named_list', '''
@fp.fpy
def f(xs: list[fp.Real], ys: list[fp.Real]) -> fp.Real:
    list = xs
    t = 0
    with C4:
        for a, b in zip(list, ys):
            t = t + a * b
    return t
''', 'f', [('list', [1, 2]), ('list', 'same')], ['semantics', 'list', 'no_tv'])

# ---- analysis facts (C13 / C14 part 2) ----------------------------------------------------------------------------
prog('vc_underflow_product', '''
@fp.fpy
def f(x: fp.Real, y: fp.Real) -> fp.Real:
    with C3:
        if x == 0:
            return x
        elif y == 0:
            return y
        else:
            z = x * y
            w = z * z
            v = w * z
            return v
''', 'f', ['real', 'real'], ['analysis', 'class', 'context'])

prog('vc_ladder', '''
@fp.fpy
def f(x: fp.Real, y: fp.Real) -> fp.Real:
    if fp.isnan(x):
        r = y
    elif fp.isinf(x):
        r = y + 1
    elif x == 0:
        r = x + y
    else:
        r = x * y
    if r != 0:
        r = r - r
    return r
''', 'f', ['real', 'real'], ['analysis', 'class', 'branch'])

prog('vc_cancellation_and_loop', '''
@fp.fpy
def f(x: fp.Real, xs: list[fp.Real]) -> fp.Real:
    z = 1.0
    if x != 0:
        for v in xs:
            if v != 0:
                z = z * v
            else:
                z = z - x
        z = z - x
    return z
''', 'f', ['real', ('list', [0, 1, 2])], ['analysis', 'class', 'loop'])

prog('size_slices_and_comprehensions', '''
@fp.fpy
def f(xs: list[fp.Real], n: int) -> fp.Real:
    ys = xs[1:3]
    zs = [v + 1 for v in xs]
    ws = [a * b for a, b in zip(xs, zs)]
    ks = [i for i in range(n)]
    ps = [[u, u] for u in ys]
    return sum(ws) + len(ks) + len(ps) + ps[0][1]
''', 'f', [('list', [3, 4]), ('int', [0, 2])], ['analysis', 'size', 'comprehension'])

prog('size_branch_join', '''
@fp.fpy
def f(xs: list[fp.Real], c: fp.Real) -> fp.Real:
    if c > 0:
        ys = [c, c]
    else:
        ys = [c, c, c]
    zs = [v for v in ys]
    ts = xs if c > 1 else zs
    return sum(ts) + len(zs)
''', 'f', [('list', [0, 2]), 'real'], ['analysis', 'size', 'branch'])

prog('alias_routes', '''
@fp.fpy
def f(x: fp.Real, y: fp.Real, c: fp.Real) -> fp.Real:
    a = [x, y]
    b = [y, x]
    d = a if c > 0 else b
    t = (d, x)
    e, _ = t
    rows = [a, b]
    r = rows[0]
    g = a[0:2]
    e[0] = e[0] + 1
    r[1] = r[1] + 1
    g[0] = g[0] + 5
    h = b
    for q in rows:
        h = q
    return a[0] + a[1] + b[0] + b[1] + h[0] + g[0]
''', 'f', ['real', 'real', 'real'], ['analysis', 'alias', 'list'])

prog('const_under_branches_and_loops', '''
@fp.fpy
def f(x: fp.Real, n: int) -> fp.Real:
    k = 2
    j = k + 1
    with C3:
        m = j * 0.4375
    if x > 0:
        k = 3
    t = k + j
    for i in range(n):
        j = j + 0
        t = t + m
    u = -0.0
    w = u * k
    return t + j + w + x
''', 'f', ['real', ('int', [0, 1, 2])], ['analysis', 'constfold', 'simplify'])

# ---- inline / lift_context shapes reported against the unmodified tree by the C09 seeding agent ------------------------------
prog('lift_ctor_reads_local', '''
@fp.fpy
def f(x: fp.Real, y: fp.Real) -> fp.Real:
    n = 3
    with fp.MPFloatContext(n):
        r = x * y
    return r
''', 'f', ['real', 'real'], ['lift_context', 'context', 'no_ref', 'no_analysis'])

prog('lift_ctor_reads_reassigned_arg', '''
@fp.fpy
def f(x: fp.Real, n: int) -> fp.Real:
    n = 3
    with fp.MPFloatContext(n):
        r = x * x
    return r
''', 'f', ['real', ('int', [2])], ['lift_context', 'context', 'no_ref', 'no_analysis'])

prog('lift_ctor_arith_under_func_ctx', '''
@fp.fpy(ctx=fp.MPFixedContext(3, fp.RM.RTZ))
def f(x: fp.Real) -> fp.Real:
    with fp.MPFixedContext(-2 - 1, fp.RM.RTZ):
        y = fp.round(x)
    return y
''', 'f', ['real'], ['lift_context', 'context', 'no_ref', 'no_analysis'])

prog('inline_callee_free_var_name', '''
x2 = 0.5

@fp.fpy
def g(x: fp.Real) -> fp.Real:
    return x + x2

@fp.fpy
def f(x: fp.Real) -> fp.Real:
    return g(x) * 2
''', 'f', ['real'], ['inline', 'names', 'no_ref', 'no_analysis'])

prog('inline_call_in_with_header', '''
@fp.fpy(ctx=fp.REAL)
def sel(p: fp.Real):
    return fp.MPFixedContext(p, fp.RM.RTZ)

@fp.fpy
def f(x: fp.Real, p: int) -> fp.Real:
    with fp.MPFixedContext(2, fp.RM.RTZ):
        with sel(p - 1):
            y = fp.round(x)
    return y
''', 'f', ['real', ('int', [-1, 0])], ['inline', 'context', 'no_ref', 'no_analysis'])

prog('inline_call_in_untaken_ifexpr', '''
@fp.fpy
def head(xs: list[fp.Real]) -> fp.Real:
    return xs[0]

@fp.fpy
def f(xs: list[fp.Real]) -> fp.Real:
    return head(xs) if len(xs) > 0 else 0
''', 'f', [('list', [0, 1, 2])], ['inline', 'order', 'no_ref', 'no_analysis'])

prog('inline_underscore_param_drops_call', '''
@fp.fpy
def g(a: fp.Real, _: fp.Real) -> fp.Real:
    return a

@fp.fpy
def bump(xs: list[fp.Real]) -> fp.Real:
    xs[0] = xs[0] + 1
    return xs[0]

@fp.fpy
def f(x: fp.Real) -> fp.Real:
    ys = [x]
    t = g(x, bump(ys))
    return ys[0] + t
''', 'f', ['real'], ['inline', 'order', 'alias', 'no_ref', 'no_analysis'])


# ---- analysis shapes reported against the unmodified tree by the C13 seeding agent -------------------------------------------
prog('pe_nested_while_stale_cond', '''
@fp.fpy(ctx=fp.REAL)
def f(n: int, x: fp.Real) -> fp.Real:
    i = 0
    out = x
    while i < n:
        k = i
        t = 0
        while k < 1 and t < 3:
            k = 0
            t = t + 1
        out = out + t
        i = i + 1
    return out
''', 'f', [('int', [0, 1, 2]), 'real'], ['analysis', 'constfold', 'simplify', 'loop', 'no_ref'])

prog('size_assert_after_early_return', '''
@fp.fpy
def f(xs: list[fp.Real], x: fp.Real) -> list[fp.Real]:
    if x > 0:
        return xs
    assert len(xs) == 3
    return xs
''', 'f', [('list', [2, 3]), 'real'], ['analysis', 'no_ref'])

prog('size_zip_after_early_return', '''
@fp.fpy
def f(xs: list[fp.Real], ys: list[fp.Real], x: fp.Real) -> fp.Real:
    if x > 0:
        return x
    acc = x
    for a, b in zip(xs, ys):
        acc = acc + a * b
    return acc
''', 'f', [('list', [1, 2]), ('list', [1, 2]), 'real'], ['analysis', 'no_ref'])


prog('vc_isnormal_branches', '''
@fp.fpy
def f(x: fp.Real, y: fp.Real) -> fp.Real:
    with fp.MPSFloatContext(3, 2):
        a = fp.round(x)
        b = fp.round(y)
        if fp.isnormal(a):
            r = a + b
        else:
            r = abs(a)
        if not fp.isnormal(b):
            r = r + abs(b)
    return r
''', 'f', ['real', 'real'], ['analysis', 'no_ref'])

prog('size_affine_const_minus', '''
@fp.fpy(ctx=fp.REAL)
def f(xs: list[fp.Real], r: int) -> fp.Real:
    ys = xs[(2 - r):(2 + r)]
    acc = 0
    for i in range(2 - r, 2 + r):
        acc = acc + xs[i]
    zs = [v for v in ys]
    return acc + len(ys) + len(zs)
''', 'f', [('list', [3]), ('int', [0, 1])], ['analysis', 'no_ref'])

prog('alias_nested_store', '''
@fp.fpy
def f(x: fp.Real, y: fp.Real) -> fp.Real:
    row = [x, y]
    cube = [[[x], [y]], [[y], [x]]]
    cube[0][1] = row
    t = cube[0][1]
    t[0] = y + 1
    u = cube[1]
    return row[0] + t[1] + u[0][0]
''', 'f', ['real', 'real'], ['analysis', 'alias', 'no_ref', 'no_format'])      # no_format: writes through an alias (the C14 known finding) are not repeated here


prog('mono_declared_ctx_same_format', '''
@fp.fpy(ctx=C3UP)
def f(x: fp.Real, y: fp.Real) -> fp.Real:
    return x * y + x
''', 'f', ['real', 'real'], ['context', 'no_ref', 'no_analysis'])

prog('lift_ctx_name_clash', '''
@fp.fpy
def f(x: fp.Real, y: fp.Real) -> fp.Real:
    ctx = C3UP if x > y else C3DN
    with ctx:
        a = x * y
    with fp.MPFloatContext(2):
        b = a + x
    with ctx:
        c = b * y
    return c
''', 'f', ['real', 'real'], ['lift_context', 'context', 'no_ref', 'no_analysis'])


prog('fmt_while_carried_copies', '''
@fp.fpy
def f(n: fp.Real, x: fp.Real) -> fp.Real:
    with fp.REAL:
        a = 0
        b = 0
        c = 0
        d = 0
        e = 1
        i = 0
        while i < n:
            a = b
            b = c
            c = d
            d = e
            e = e + e
            i = i + 0.5
        r = a + x
    return r
''', 'f', ['real', 'real'], ['analysis', 'loop', 'no_ref', 'no_special'])

prog('fmt_and_refinement_else', '''
@fp.fpy
def f(x: fp.Real, y: fp.Real) -> tuple[fp.Real, fp.Real]:
    if x > 2 and y > 2:
        r = y
    else:
        r = x
    if not (x < -2 and y > 1):
        s = x
    else:
        s = y
    return (r, s)
''', 'f', ['real', 'real'], ['analysis', 'branch', 'no_ref'])


# ---- format-inference shapes reported against the unmodified tree by the C14 seeding agent (recorded as known findings) ----------
prog('fmt_loop_writes_iterated_list', '''
@fp.fpy
def f(xs: list[fp.Real], y: fp.Real) -> fp.Real:
    with C4:
        acc = y
        for x in xs:
            with fp.REAL:
                xs[1] = y * 64
            acc = x
    return acc
''', 'f', [('list', [2, 3]), 'real'], ['analysis', 'no_ref'])



def namespace():
    """contexts the corpus programs refer to by name"""
    import fpy2 as fp
    return dict(C3=fp.MPSFloatContext(3, -2), C4=fp.MPSFloatContext(4, -3), CI=fp.INTEGER,
                C3UP=fp.MPSFloatContext(3, -2, fp.RM.RTP), C3DN=fp.MPSFloatContext(3, -2, fp.RM.RTN), C1=fp.MPFloatContext(1), C2UP=fp.MPFloatContext(2, fp.RM.RTP))


def by_tag(*tags):
    return [p for p in P if any(t in p['tags'] for t in tags)]
