"""
Tracing subclass of the real bytecode compiler (the hook C13 / C14's `observe_at` anticipate; lives in /verif, the repository
is not modified): every FPy expression is compiled exactly as by `BytecodeCompiler`, and the resulting Python expression is
wrapped in a call that reports (expression, value) to a recorder before passing the value on unchanged.
"""
import ast as pyast


def make_tracing_compiler():
    from fpy2.interpret import byte

    class TracingCompiler(byte.BytecodeCompiler):
        def __init__(self, func, env, callback):
            super().__init__(func, env)
            self.traced = []
            self.def_sites = []
            self.foreign_vals['__verif_trace'] = lambda idx, v: callback(self.traced[idx], v)
            on_def = getattr(callback, 'on_def', None)
            self.foreign_vals['__verif_def'] = (lambda idx: on_def(self.def_sites[idx])) if on_def else (lambda idx: None)

        def _def_event(self, stmt):
            """python statement reporting that the defining FPy statement `stmt` has just bound its names"""
            idx = len(self.def_sites)
            self.def_sites.append(stmt)
            attrs = self._location_to_attributes(stmt.loc)
            return pyast.Expr(value=pyast.Call(func=pyast.Name(id='__verif_def', ctx=pyast.Load(), **attrs), args=[pyast.Constant(value=idx, kind=None, **attrs)], keywords=[], **attrs), **attrs)

        def _visit_block(self, block, ctx):
            from fpy2.ast import fpyast as A
            out = []
            for stmt in block.stmts:
                node = self._visit_statement(stmt, ctx)
                if isinstance(stmt, A.ForStmt) and isinstance(node, pyast.For):
                    node.body.insert(0, self._def_event(stmt))      # the target is bound at the start of every iteration
                out.append(node)
                if isinstance(stmt, (A.Assign, A.IndexedAssign)):
                    out.append(self._def_event(stmt))
            return out

        def _visit_expr(self, e, ctx):
            node = super()._visit_expr(e, ctx)
            idx = len(self.traced)
            self.traced.append(e)
            attrs = self._location_to_attributes(e.loc)
            return pyast.Call(func=pyast.Name(id='__verif_trace', ctx=pyast.Load(), **attrs), args=[pyast.Constant(value=idx, kind=None, **attrs), node], keywords=[], **attrs)
    return TracingCompiler


def run_traced(rt, func, args, ctx, callback):
    """compile `func` with the tracing compiler and run it the way BytecodeInterpreter.eval(convert=False) does"""
    TC = make_tracing_compiler()
    fn = TC(func.ast, func.env, callback).compile()
    c = rt._func_ctx(func.ast, ctx)
    return fn(*args, __ctx__=c)
