"""
C05 — Number values behave as the real numbers they denote.

The real operators of `RealFloat` / `Float` (and their mixes with int and dyadic Fraction) run on operands
with symbolic, possibly redundant encodings (s, exp, c); the oracle is the homomorphism into scaled integers.
"""
import os
import time

PROPERTY = 'C05'
LEVEL = 'model_checking'
BUDGET_S = {'quick': 3600, 'thorough': 14400}

TIER = {'quick': dict(CW=5, E=5, W=32, WO=48), 'thorough': dict(CW=8, E=8, W=48, WO=72)}
KINDS = ['RealFloat', 'Float', 'int', 'Fraction']


def tasks(tier, seed):
    ts = []
    for op in ('add', 'sub', 'mul'):
        for ka in KINDS:
            for kb in KINDS:
                if ka in ('int', 'Fraction') and kb in ('int', 'Fraction'):
                    continue
                if ka == 'RealFloat' and kb == 'Float':
                    continue        # not an offered overload of RealFloat.__add__ (raises TypeError); Float + RealFloat is
                for sa in (0, 1):
                    for sb in (0, 1):
                        ts.append(dict(kind='arith', name='arith/%s/%s/%s/s%d%d' % (op, ka, kb, sa, sb), op=op, ka=ka, kb=kb, sa=sa, sb=sb))
    for ka in ('RealFloat', 'Float'):
        for s in (0, 1):
            ts.append(dict(kind='unary', name='unary/%s/s%d' % (ka, s), ka=ka, s=s))
            ts.append(dict(kind='struct', name='struct/%s/s%d' % (ka, s), ka=ka, s=s))
            for which in ('p', 'n', 'pn', 'none'):
                ts.append(dict(kind='normalize', name='normalize/%s/%s/s%d' % (ka, which, s), ka=ka, s=s, which=which))
            ts.append(dict(kind='toint', name='toint/%s/s%d' % (ka, s), ka=ka, s=s))
    for ka in KINDS:
        for kb in KINDS:
            if ka in ('int', 'Fraction') and kb in ('int', 'Fraction'):
                continue
            for sa in (0, 1):
                for sb in (0, 1):
                    ts.append(dict(kind='cmp', name='cmp/%s/%s/s%d%d' % (ka, kb, sa, sb), ka=ka, kb=kb, sa=sa, sb=sb))
    for ka in ('RealFloat', 'Float'):
        for kb in ('RealFloat', 'Float', 'int'):
            for s in (0, 1):
                ts.append(dict(kind='hash', name='hash/%s/%s/s%d' % (ka, kb, s), ka=ka, kb=kb, s=s))
    for s in (0, 1):
        ts.append(dict(kind='conv', name='conv/s%d' % s, s=s))
    ts.append(dict(kind='special', name='special'))
    return ts


def required_witnesses(tier):
    return ['redundant-encoding', 'cancellation', 'zero-operand', 'mixed-exponents', 'equal-values-different-encodings', 'split-inside',
            'normalize-raises', 'normalize-ok', 'int-raises', 'int-ok', 'hash-int-key', 'hash-frac-key', 'tie-round']


def describe(tier):
    t = TIER[tier]
    R = '/repo/fpy2/'
    return dict(
        functions=['RealFloat.__add__/__radd__/__sub__/__rsub__/__mul__/__rmul__/__pow__/__neg__/__pos__/__abs__', 'RealFloat.compare/__eq__/__lt__/__le__/__gt__/__ge__/__hash__',
                   'RealFloat.split/normalize/is_more_significant/bit/is_integer/__int__/__trunc__/__floor__/__ceil__/__round__/from_int/from_rational/as_rational',
                   'Float.__add__/__sub__/__mul__/__pow__/__neg__/__pos__/__abs__/compare/__eq__.../__hash__/__int__/split/normalize/from_real/from_int/from_rational', 'utils.Ordering.from_compare/reverse', 'utils.rcomparable'],
        files=[R + 'number/number/reals.py', R + 'number/number/floats.py', R + 'utils/ordering.py', R + 'utils/compare.py', R + 'utils/decorator.py', R + 'utils/bits.py', R + 'utils/fractions.py'],
        bounds=dict(significand_bits=t['CW'], exponent_abs=t['E'], pow_exponent='0..4 (on 4-bit significands, |exp| <= 3)', engine_width=t['W']),
        outside=['python float operands and float() conversion (struct / math C boundary)', 'non-dyadic Fraction operands', '** above 4', 'operands beyond the bounds'],
        stubs=['module-level `int` and `Fraction` in reals.py/floats.py rebound to pass-through proxies (symbolic dyadic Fractions are normalised with a count-trailing-zeros term instead of math.gcd)',
               '`hash` in reals.py/floats.py replaced by a recorder: what is proved is that equal values hand equal keys to hash() (hash itself uninterpreted)'],
        assumptions=['IEEE 754 sign rules for zero results: x + y = -0 only when both are -0 (exact cancellation gives +0); products and negation take the sign rule'],
        rule='one case = one feasible path of the real operator for an (operation, operand kinds, signs) configuration',
        explanation='bounded model checking of exact arithmetic/comparison/structure operations against the scaled-integer homomorphism',
    )


def run_task(task):
    if task['kind'] == 'special':
        return _run_special(task)
    import z3
    from pysym.core import explore, SymInt, bv
    from pysym import shims
    from pysym.values import denote_mag
    import spec.dsl as dsl
    from spec.dsl import lift, bitlen
    import fpy2.number.number.reals as reals
    import fpy2.number.number.floats as floats
    from fpy2 import Float, RealFloat
    from fpy2.utils import Ordering
    from fractions import Fraction
    tier = task.get('tier', 'quick')
    t = TIER[tier]
    CW, E, W = t['CW'], t['E'], t['W']
    dsl.WO = t['WO']; WO = dsl.WO
    shims.install_int_pass(reals, floats)
    shims.install_frac_pass(reals, floats)
    shims.stub_formatting()
    kind = task['kind']
    K = E + 1 if kind != 'normalize' else E + CW + 5
    samples = []

    def c_(v):
        return z3.BitVecVal(v, WO)

    def Vof(x, scale=K):
        """signed scaled value of a finite RealFloat/Float/int/Fraction object"""
        if isinstance(x, (RealFloat, Float)):
            D = denote_mag(x.c, x.exp, scale, W=WO)
            D = D if isinstance(D, z3.ExprRef) else c_(D)
            return -D if x.s else D
        if isinstance(x, Fraction):
            # dyadic: num / 2^k
            num = lift(x._numerator); den = lift(x._denominator)
            num = num if isinstance(num, z3.ExprRef) else c_(num)
            den = den if isinstance(den, z3.ExprRef) else c_(den)
            return (num << scale) / den        # exact: den | 2^scale by the bounds (obligation below)
        v = lift(x)
        v = v if isinstance(v, z3.ExprRef) else c_(v)
        return v << scale

    def mk(e, kd, s, tag, cw=None, ex=None):
        cw = cw or CW; ex = E if ex is None else ex
        s = bool(s)
        if kd in ('RealFloat', 'Float'):
            c = e.fresh('c' + tag, 0, (1 << cw) - 1); x = e.fresh('e' + tag, -ex, ex)
            return (RealFloat if kd == 'RealFloat' else Float)(s, x, c)
        if kd == 'int':
            c = e.fresh('c' + tag, 1 if s else 0, (1 << cw) - 1)
            return -c if s else c
        c = e.fresh('c' + tag, 1, (1 << cw) - 1)
        k = e.fresh('k' + tag, 1, ex)
        return ('frac', s, c, k)

    def realise(e, o):
        """finish building operands that need decisions (Fractions): inside run"""
        if isinstance(o, tuple) and o[0] == 'frac':
            _, s, c, k = o
            e.assume((c.t & 1) == 1)
            kk = e.choose(k.t)
            f = object.__new__(Fraction)
            f._numerator = -c if s else c
            f._denominator = 1 << kk
            return f
        return o

    def outv(r, scale=K):
        """(kind, signbit, V)"""
        if isinstance(r, Float):
            if r.isnan:
                return ('nan', bool(r.s), None)
            if r.isinf:
                return ('inf', bool(r.s), None)
        return ('fin', bool(r.s), Vof(r, scale))

    # -------------------------------------------------------------------------------------------------
    if kind == 'arith':
        op = task['op']

        def setup(e):
            return mk(e, task['ka'], task['sa'], 'a'), mk(e, task['kb'], task['sb'], 'b')

        def run(e, a, b):
            a = realise(e, a); b = realise(e, b)
            Va, Vb = Vof(a), Vof(b)
            try:
                r = a + b if op == 'add' else a - b if op == 'sub' else a * b
            except Exception as ex:  # noqa
                e.require(False, info={'raised': repr(ex)[:200]}); return
            sc = 2 * K if op == 'mul' else K
            ok_type = isinstance(r, (RealFloat, Float))
            if not ok_type:
                e.require(False, info={'result type': type(r).__name__}); return
            k_, s_, Vr = outv(r, sc)
            exact = Va + Vb if op == 'add' else Va - Vb if op == 'sub' else Va * Vb
            sa = bool(task['sa']); sb = bool(task['sb'])
            if op == 'mul':
                zs = sa != sb
            elif op == 'add':
                zs = sa and sb
            else:
                # -(+0) of an int / Fraction operand is +0: python integers have no signed zero
                zs = sa and (not sb) and task['kb'] in ('RealFloat', 'Float')
            post = z3.And(z3.BoolVal(k_ == 'fin'), Vr == exact, z3.Implies(exact == 0, z3.BoolVal(s_ == zs)))
            e.cover('cancellation', z3.And(exact == 0, Va != 0)) if op != 'mul' else None
            e.cover('zero-operand', z3.Or(Va == 0, Vb == 0))
            if isinstance(a, (RealFloat, Float)) and isinstance(b, (RealFloat, Float)):
                e.cover('mixed-exponents', lift(a.exp) != lift(b.exp))
                e.cover('redundant-encoding', z3.And((lift(a.c) & 1) == 0, lift(a.c) != 0))
            ok = e.require(post, info={'op': op})
            if len(samples) < 2:
                samples.append({'task': task['name'], 'example': e.model_inputs(), 'proved': ok})
        eng = explore(run, setup, W=W, bl_max=W - 6)

    elif kind == 'unary':
        def setup(e):
            return (mk(e, task['ka'], task['s'], 'a'), mk(e, task['ka'], task['s'], 'p', cw=4, ex=3))

        def run(e, a, b):
            Va = Vof(a); s = bool(task['s'])
            for nm, fn, exp_v, exp_s in (('neg', lambda: -a, -Va, not s), ('pos', lambda: +a, Va, s), ('abs', lambda: abs(a), z3.If(Va < 0, -Va, Va), False)):
                try:
                    r = fn()
                except Exception as ex:  # noqa
                    e.require(False, info={'op': nm, 'raised': repr(ex)[:200]}, tag=nm); continue
                k_, s_, Vr = outv(r)
                e.require(z3.And(z3.BoolVal(k_ == 'fin'), Vr == exp_v, z3.BoolVal(s_ == exp_s)), info={'op': nm}, tag=nm)
            # integer powers on a narrower operand
            Vb1 = Vof(b, 3)
            acc = c_(1)
            for n in range(0, 5):
                try:
                    r = b ** n
                except Exception as ex:  # noqa
                    e.require(False, info={'op': 'pow', 'n': n, 'raised': repr(ex)[:200]}, tag='pow%d' % n); break
                k_, s_, Vr = outv(r, 3 * n)
                if n == 0:
                    e.require(z3.And(z3.BoolVal(k_ == 'fin'), Vr == 1), info={'op': 'pow0'}, tag='pow0')
                else:
                    acc = acc * Vb1
                    e.require(z3.And(z3.BoolVal(k_ == 'fin'), Vr == acc, z3.BoolVal(s_ == (s and n % 2 == 1))), info={'op': 'pow', 'n': n}, tag='pow%d' % n)
            if len(samples) < 1:
                samples.append({'task': task['name'], 'example': e.model_inputs()})
        eng = explore(run, setup, W=W, bl_max=W - 6)

    elif kind == 'cmp':
        def setup(e):
            return mk(e, task['ka'], task['sa'], 'a'), mk(e, task['kb'], task['sb'], 'b')

        def run(e, a, b):
            a = realise(e, a); b = realise(e, b)
            Va, Vb = Vof(a), Vof(b)
            try:
                lt, le, gt, ge, eq, ne = a < b, a <= b, a > b, a >= b, a == b, a != b
                cm = a.compare(b) if isinstance(a, (RealFloat, Float)) and not (isinstance(a, RealFloat) and isinstance(b, Float)) else None
            except Exception as ex:  # noqa
                e.require(False, info={'raised': repr(ex)[:200]}); return
            B = z3.BoolVal
            post = z3.And(B(bool(lt)) == (Va < Vb), B(bool(le)) == (Va <= Vb), B(bool(gt)) == (Va > Vb), B(bool(ge)) == (Va >= Vb),
                          B(bool(eq)) == (Va == Vb), B(bool(ne)) == (Va != Vb))
            if cm is not None:
                post = z3.And(post, B(cm == Ordering.LESS) == (Va < Vb), B(cm == Ordering.EQUAL) == (Va == Vb), B(cm == Ordering.GREATER) == (Va > Vb))
            if isinstance(a, (RealFloat, Float)) and isinstance(b, (RealFloat, Float)):
                e.cover('equal-values-different-encodings', z3.And(Va == Vb, lift(a.exp) != lift(b.exp), Va != 0))
            ok = e.require(post, info={'cmp': [bool(lt), bool(le), bool(gt), bool(ge), bool(eq)]})
            if len(samples) < 2:
                samples.append({'task': task['name'], 'example': e.model_inputs(), 'proved': ok})
        eng = explore(run, setup, W=W, bl_max=W - 6)

    elif kind == 'hash':
        rec = shims.HashRecorder()
        shims.patch(reals, 'hash', rec); shims.patch(floats, 'hash', rec)

        def setup(e):
            return mk(e, task['ka'], task['s'], 'a'), mk(e, task['kb'], task['s'], 'b')

        def run(e, a, b):
            Va, Vb = Vof(a), Vof(b)
            e.assume(Va == Vb)
            rec.keys.clear()
            try:
                a.__hash__()
                ka = rec.keys[-1]
                if isinstance(b, (RealFloat, Float)):
                    b.__hash__(); kb = rec.keys[-1]
                else:
                    kb = ('int', b)
            except Exception as ex:  # noqa
                e.require(False, info={'raised': repr(ex)[:200]}); return
            if ka[0] != kb[0]:
                e.require(False, info={'keys': (ka[0], kb[0])}); return
            if ka[0] == 'int':
                e.cover('hash-int-key', True)
                post = lift(ka[1]) == lift(kb[1])
                post = z3.And(post, (lift(ka[1]) << K if isinstance(lift(ka[1]), z3.ExprRef) else c_(lift(ka[1]) << K)) == Va)
            else:
                e.cover('hash-frac-key', True)
                post = z3.And(lift(ka[1]) == lift(kb[1]), lift(ka[2]) == lift(kb[2]))
            ok = e.require(post, info={'key kind': ka[0]})
            if len(samples) < 2:
                samples.append({'task': task['name'], 'example': e.model_inputs(), 'key_kind': ka[0], 'proved': ok})
        eng = explore(run, setup, W=W, bl_max=W - 6)

    elif kind == 'struct':
        def setup(e):
            return mk(e, task['ka'], task['s'], 'a'), e.fresh('n', -E - 2, E + CW + 1)

        def run(e, a, n):
            Va = Vof(a); s = bool(task['s'])
            C = lift(a.c); X = lift(a.exp); N = lift(n)
            mag = z3.If(Va < 0, -Va, Va)
            try:
                hi, lo = a.split(n)
                ms = a.is_more_significant(n)
                bt = a.bit(n) if isinstance(a, RealFloat) else a._real.bit(n)
            except Exception as ex:  # noqa
                e.require(False, info={'raised': repr(ex)[:200]}); return
            _, shi, Vhi = outv(hi); _, slo, Vlo = outv(lo)
            unit = c_(1) << (N + 1 + K)
            lomag = z3.If(Vlo < 0, -Vlo, Vlo)
            post = z3.And(Vhi + Vlo == Va, (Vhi & (unit - 1)) == 0, lomag < unit,
                          z3.Or(Vhi == 0, z3.BoolVal(shi == s)), z3.Or(Vlo == 0, z3.BoolVal(slo == s)))
            e.cover('split-inside', z3.And(Vhi != 0, Vlo != 0))
            e.require(post, info={'op': 'split'}, tag='split')
            e.require(z3.BoolVal(bool(ms)) == (lomag == 0), info={'op': 'is_more_significant'}, tag='ims')
            # digit n of |x|
            sh = N + K
            digit = z3.If(sh < 0, c_(0), z3.LShR(mag, sh) & 1)
            e.require(z3.BoolVal(bool(bt)) == (digit == 1), info={'op': 'bit'}, tag='bit')
            if len(samples) < 1:
                samples.append({'task': task['name'], 'example': e.model_inputs()})
        eng = explore(run, setup, W=W, bl_max=W - 6)

    elif kind == 'normalize':
        which = task['which']

        def setup(e):
            a = mk(e, task['ka'], task['s'], 'a')
            p = e.fresh('p', 0, CW + 3) if which in ('p', 'pn') else None
            n = e.fresh('n', -E - 3, E + 2) if which in ('n', 'pn') else None
            return a, p, n

        def run(e, a, p, n):
            if which == 'none' and isinstance(a, Float):
                return      # Float.normalize() without parameters needs a context (C16 covers it)
            Va = Vof(a)
            C = lift(a.c); X = lift(a.exp)
            C = C if isinstance(C, z3.ExprRef) else c_(C)
            tz = _ctz(C, WO, CW + 1)
            pmin = z3.If(C == 0, c_(0), bitlen(C) - tz)
            lsb = X + tz
            raised = None
            try:
                r = a.normalize(p, n)
            except ValueError:
                raised = True
            except Exception as ex:  # noqa
                e.require(False, info={'raised': repr(ex)[:200]}); return
            need_raise = z3.BoolVal(False)
            if p is not None:
                need_raise = z3.Or(need_raise, pmin > lift(p))
            if n is not None:
                need_raise = z3.Or(need_raise, z3.And(C != 0, lsb < lift(n) + 1))
            e.cover('normalize-raises', need_raise); e.cover('normalize-ok', z3.Not(need_raise))
            if raised:
                e.require(need_raise, info={'op': 'normalize raised ValueError'}, tag='raise')
                return
            _, sr, Vr = outv(r)
            Cr = lift(r.c); Cr = Cr if isinstance(Cr, z3.ExprRef) else c_(Cr)
            Xr = lift(r.exp)
            shape = z3.BoolVal(True)
            if which == 'p':
                shape = z3.Or(C == 0, bitlen(Cr) == lift(p))
            elif which == 'n':
                shape = Xr == lift(n) + 1
            elif which == 'pn':
                shape = z3.Or(C == 0, z3.And(Xr >= lift(n) + 1, bitlen(Cr) <= lift(p), z3.Or(bitlen(Cr) == lift(p), Xr == lift(n) + 1)))
            else:
                shape = z3.And(Cr == C, Xr == X)
            ok = e.require(z3.And(z3.Not(need_raise), Vr == Va, z3.BoolVal(sr == bool(task['s'])), shape), info={'op': 'normalize'}, tag='norm')
            if len(samples) < 2:
                samples.append({'task': task['name'], 'example': e.model_inputs(), 'proved': ok})
        eng = explore(run, setup, W=W, bl_max=W - 6)

    elif kind == 'toint':
        import math

        def setup(e):
            return (mk(e, task['ka'], task['s'], 'a'),)

        def run(e, a):
            Va = Vof(a)
            unit = c_(1) << K
            frac = Va & (unit - 1)          # two's complement: floor-remainder, 0 <= frac < 1
            isint = frac == 0
            fl = Va - frac                  # floor(x) scaled
            try:
                i = a.__int__(); raised = False
            except ValueError:
                raised = True
            except Exception as ex:  # noqa
                e.require(False, info={'raised': repr(ex)[:200]}); return
            e.cover('int-raises', z3.Not(isint)); e.cover('int-ok', isint)
            if raised:
                e.require(z3.Not(isint), info={'op': 'int raised'}, tag='int')
            else:
                I = lift(i); I = I if isinstance(I, z3.ExprRef) else c_(I)
                e.require(z3.And(isint, (I << K) == Va), info={'op': 'int'}, tag='int')
            e.require(z3.BoolVal(bool(a.is_integer())) == isint, info={'op': 'is_integer'}, tag='isint')
            half = unit >> 1
            fl_even = ((fl >> K) & 1) == 0
            exp_round = z3.If(frac == 0, fl, z3.If(frac < half, fl, z3.If(frac > half, fl + unit, z3.If(fl_even, fl, fl + unit))))
            e.cover('tie-round', frac == half)
            for nm, fn, expv in (('floor', math.floor, fl), ('ceil', math.ceil, z3.If(isint, fl, fl + unit)),
                                 ('trunc', math.trunc, z3.If(z3.Or(isint, Va >= 0), fl, fl + unit)), ('round', round, exp_round)):
                try:
                    r = fn(a)
                except Exception as ex:  # noqa
                    e.require(False, info={'op': nm, 'raised': repr(ex)[:200]}, tag=nm); continue
                Rr = lift(r); Rr = Rr if isinstance(Rr, z3.ExprRef) else c_(Rr)
                e.require((Rr << K) == expv, info={'op': nm}, tag=nm)
            if len(samples) < 1:
                samples.append({'task': task['name'], 'example': e.model_inputs()})
        # math.floor/ceil/trunc go through __floor__ etc. which call int(...) inside reals.py
        eng = explore(run, setup, W=W, bl_max=W - 6)

    elif kind == 'conv':
        s = bool(task['s'])

        def setup(e):
            return mk(e, 'int', s, 'i'), mk(e, 'Fraction', s, 'f'), mk(e, 'RealFloat', s, 'a')

        def run(e, i, f, a):
            f = realise(e, f)
            try:
                r1 = RealFloat.from_int(i); r2 = Float.from_int(i)
                r3 = RealFloat.from_rational(f); r4 = Float.from_rational(f)
                q = a.as_rational()
                r5 = Float.from_real(a)
            except Exception as ex:  # noqa
                e.require(False, info={'raised': repr(ex)[:200]}); return
            e.require(z3.And(Vof(r1) == Vof(i), Vof(r2) == Vof(i)), info={'op': 'from_int'}, tag='from_int')
            e.require(z3.And(Vof(r3) == Vof(f), Vof(r4) == Vof(f)), info={'op': 'from_rational'}, tag='from_rational')
            e.require(z3.And(Vof(q) == Vof(a), Vof(r5) == Vof(a), z3.BoolVal(bool(r5.s) == s)), info={'op': 'as_rational/from_real'}, tag='as_rational')
            # lowest terms: odd numerator or denominator 1
            qn = lift(q._numerator); qd = lift(q._denominator)
            qn = qn if isinstance(qn, z3.ExprRef) else c_(qn); qd = qd if isinstance(qd, z3.ExprRef) else c_(qd)
            e.require(z3.Or(qd == 1, (qn & 1) == 1), info={'op': 'as_rational lowest terms'}, tag='lowest')
            if len(samples) < 1:
                samples.append({'task': task['name'], 'example': e.model_inputs()})
        eng = explore(run, setup, W=W, bl_max=W - 6)
    else:
        raise ValueError(kind)

    cexs = []
    for cx in eng.cex:
        if cx.get('unknown') or cx.get('inputs') is None:
            cexs.append({'case': None})
        else:
            tt = {k: v for k, v in task.items() if k != 'name'}
            cexs.append({'case': {'task': tt, 'inputs': cx['inputs'], 'K': K, 'step': cx.get('tag'), 'info': cx.get('info')},
                         'failed_obligations': cx.get('failed_obligations')})
    return dict(paths=eng.paths, decisions=eng.decisions, queries=eng.checks, unsat=eng.unsat, sat=eng.sat, unknown=eng.unknown,
                solve_s=eng.solve_s, requires=eng.requires, aborted=eng.aborted, witness=eng.witness, notes=eng.notes, cex=cexs, samples=samples)


def _signbit(x):
    from fractions import Fraction
    if isinstance(x, Fraction):
        return bool(x._numerator < 0)
    if isinstance(x, int):
        return bool(x < 0)
    return bool(x.s)


def _ctz(a, W, limit):
    import z3
    r = z3.BitVecVal(0, W)
    for i in range(limit, -1, -1):
        r = z3.If(z3.Extract(i, i, a) == 1, z3.BitVecVal(i, W), r)
    return r


def _run_special(task):
    from . import c05_replay as RP
    n, bad = RP.special_table()
    cex = [{'case': {'task': {'kind': 'special'}, 'inputs': {'row': b}}} for b in bad]
    return dict(paths=0, requires=0, cex=cex, samples=[{'special_value_rows_checked': n}], extra={'concrete_special_cases': n})
