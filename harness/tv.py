"""
Translation validation of program transforms (shared by C07, C08, C09): the transform runs concretely on the real
code, then the original and the transformed program run side by side through the REAL interpreter on symbolic
arguments (validated operation summaries, see pysym/summaries.py); the solver decides on every joint path on which
the original returns that the transformed program returns the same value.
"""
import json

TIER = {'quick': dict(CW=4, W=32), 'thorough': dict(CW=5, W=40)}
RUN_LIMIT_S = 30   # a transformed program still running after this long on a path where the original returned counts as not returning
EXP0 = -1          # symbolic reals are c * 2^-1 with a symbolic sign: half-integers


def caller_ctx():
    import fpy2 as fp
    return fp.MPSFloatContext(4, -3)


def load_program(p):
    from . import progs, corpus
    g = progs.load(p['src'] + '# ' + p['name'], corpus.namespace())
    return g[p['entry']], g


def arg_shapes(p, tier):
    """concrete shapes of the argument vector: list lengths and integer arguments enumerated"""
    import itertools
    dims = []
    for a in p['args']:
        if a == 'real':
            dims.append([('real',)])
        elif a[0] == 'list':
            if a[1] == 'same':
                dims.append([('same',)])
            else:
                ls = a[1] if tier == 'thorough' else a[1][:4]
                dims.append([('list', n) for n in ls])
        elif a[0] == 'int':
            dims.append([('int', v) for v in (a[1] if tier == 'thorough' else a[1][:4])])
        elif a[0] == 'pair':
            # a tuple argument (list of n reals, real)
            dims.append([('pair', n) for n in a[1]])
    out = []
    for combo in itertools.product(*dims):
        combo = list(combo)
        last = None
        for i, c in enumerate(combo):
            if c[0] == 'list':
                last = c[1]
            if c[0] == 'same':
                combo[i] = ('list', last)
        out.append(combo)
    return out


class SymArgs:
    """declares the symbolic leaves of one argument shape and builds fresh argument objects from them"""
    def __init__(self, eng, shape, CW, ctx):
        self.leaves = []
        self.shape = shape
        self.ctx = ctx
        self.CW = CW
        k = 0
        for c in shape:
            n = 1 if c[0] == 'real' else (c[1] if c[0] == 'list' else (c[1] + 1 if c[0] == 'pair' else 0))
            for _ in range(n):
                self.leaves.append((eng.fresh('c%d' % k, 0, (1 << CW) - 1), eng.fresh('s%d' % k, 0, 1)))
                k += 1

    def build(self):
        from pysym import summaries
        from fpy2 import Float
        out = []; k = 0
        for c in self.shape:
            if c[0] == 'real':
                m, s = self.leaves[k]; k += 1
                # ('real', e): the argument is c * 2^e instead of the default half-integers (C11: operands far apart make binary64 / binary32 operations inexact)
                out.append(summaries._mk_float(s.t != 0, c[1] if len(c) > 1 else EXP0, m.t, None, self.CW))
            elif c[0] in ('list', 'pair'):
                lst = []
                for _ in range(c[1]):
                    m, s = self.leaves[k]; k += 1
                    lst.append(summaries._mk_float(s.t != 0, EXP0, m.t, None, self.CW))
                if c[0] == 'pair':
                    m, s = self.leaves[k]; k += 1
                    out.append((lst, summaries._mk_float(s.t != 0, EXP0, m.t, None, self.CW)))
                else:
                    out.append(lst)
            else:
                out.append(Float.from_int(c[1]))
        return tuple(out)


def concrete_args(shape, inputs):
    from fpy2 import Float
    out = []; k = 0
    for c in shape:
        if c[0] == 'real':
            out.append(Float(bool(inputs['s%d' % k]), c[1] if len(c) > 1 else EXP0, inputs['c%d' % k])); k += 1
        elif c[0] in ('list', 'pair'):
            lst = []
            for _ in range(c[1]):
                lst.append(Float(bool(inputs['s%d' % k]), EXP0, inputs['c%d' % k])); k += 1
            if c[0] == 'pair':
                out.append((lst, Float(bool(inputs['s%d' % k]), EXP0, inputs['c%d' % k]))); k += 1
            else:
                out.append(lst)
        else:
            out.append(Float.from_int(c[1]))
    return tuple(out)


def eqv(a, b):
    """z3 Bool (or python bool): do two FPy values denote the same result? (same number incl. sign of zero, same NaN /
    infinity, same booleans, lists and tuples structurally)"""
    import z3
    from fractions import Fraction
    from fpy2 import Float
    from pysym import summaries
    from pysym.core import SymInt, bv
    if isinstance(a, bool) or isinstance(b, bool):
        return isinstance(a, bool) and isinstance(b, bool) and a == b
    if isinstance(a, (list, tuple)) or isinstance(b, (list, tuple)):
        if type(a) is not type(b) or len(a) != len(b):
            return False
        r = True
        for x, y in zip(a, b):
            e = eqv(x, y)
            if e is False:
                return False
            if e is not True:
                r = e if r is True else z3.And(r, e)
        return r
    if isinstance(a, (Fraction, int)):
        a = summaries._as_float(a if isinstance(a, Fraction) else Fraction(a))
    if isinstance(b, (Fraction, int)):
        b = summaries._as_float(b if isinstance(b, Fraction) else Fraction(b))
    if isinstance(a, float):
        a = Float.from_float(a)
    if isinstance(b, float):
        b = Float.from_float(b)
    if not isinstance(a, Float) or not isinstance(b, Float):
        return a == b
    if a.isnan or b.isnan:
        return bool(a.isnan and b.isnan)
    if a.isinf or b.isinf:
        if not (a.isinf and b.isinf):
            return False
        return _beq(summaries._sbool(a), summaries._sbool(b))
    a, b = summaries._as_float(a), summaries._as_float(b)      # concrete significands without trailing zeros
    if type(a.exp) is SymInt or type(b.exp) is SymInt:
        raise NotImplementedError('symbolic exponent in a result')
    ex = min(a.exp, b.exp)
    va, vb = summaries._signed(a, ex), summaries._signed(b, ex)
    sa, sb = summaries._sbool(a), summaries._sbool(b)
    return z3.simplify(z3.And(va == vb, z3.Implies(va == 0, sa == sb)))


def _beq(x, y):
    import z3
    return z3.simplify(x == y)


def conc_eq(a, b):
    from fractions import Fraction
    from fpy2 import Float
    if isinstance(a, bool) or isinstance(b, bool):
        return isinstance(a, bool) and isinstance(b, bool) and a == b
    if isinstance(a, (list, tuple)) or isinstance(b, (list, tuple)):
        return type(a) is type(b) and len(a) == len(b) and all(conc_eq(x, y) for x, y in zip(a, b))
    if isinstance(a, (Fraction, int)):
        a = Float.from_rational(Fraction(a))
    if isinstance(b, (Fraction, int)):
        b = Float.from_rational(Fraction(b))
    if isinstance(a, float):
        a = Float.from_float(a)
    if isinstance(b, float):
        b = Float.from_float(b)
    if not isinstance(a, Float) or not isinstance(b, Float):
        return a == b
    if a.isnan or b.isnan:
        return a.isnan and b.isnan
    if a.isinf or b.isinf:
        return a.isinf and b.isinf and a.s == b.s
    return a.as_rational() == b.as_rational() and (a.as_rational() != 0 or bool(a.s) == bool(b.s))


def install_runtime():
    """shims + summaries + a fresh interpreter; returns the interpreter"""
    from pysym import shims, summaries
    import fpy2.number.number.reals as reals
    import fpy2.number.number.floats as floats
    import fpy2.number.context.context as cctx
    from fpy2.interpret import byte, interpreter as interp_mod
    shims.install_int_pass(reals, floats, cctx)
    shims.install_frac_pass(reals, floats)
    shims.install_concretizing_int_methods()
    shims.install_sign_lift()
    shims.stub_formatting()
    summaries.install()
    rt = byte.BytecodeInterpreter()
    shims.patch(interp_mod, '_default_interpreter', rt)
    return rt


def run_joint(task, variants, tier, ctx_for=None):
    """variants: list of (label, original function, transformed function, (ctx for original, ctx for transformed))"""
    import z3
    from pysym.core import explore
    t = TIER[tier]
    shape = [tuple(c) for c in task['shape']]
    rt = install_runtime()
    samples = []
    base_ctx = caller_ctx()

    def setup(e):
        return (SymArgs(e, shape, t['CW'], base_ctx),)

    def run(e, sa):
        res0 = {}
        for var in variants:
            lab, f, g, ctxs = var[:4]
            allow = var[4] if len(var) > 4 else None
            c0, c1 = ctxs
            key = (id(f), repr(c0))
            if key not in res0:
                try:
                    res0[key] = ('ok', rt.eval(f, sa.build(), c0, convert=False))
                except Exception as ex:  # noqa
                    res0[key] = ('raise', ex)
            st0, r0 = res0[key]
            if st0 == 'raise':
                continue          # the original does not return here: nothing to preserve
            try:
                r1 = with_timeout(lambda: rt.eval(g, sa.build(), c1, convert=False), RUN_LIMIT_S)
            except TransformTimeout:
                # the original returned on this path; the transformed program is still running after RUN_LIMIT_S
                e.require(False, info={'variant': lab, 'transformed program did not return within %d s on this path' % RUN_LIMIT_S: True}, tag=lab)
                continue
            except Exception as ex:  # noqa
                if allow is not None and (allow(ex, sa.build()) if getattr(allow, 'wants_args', False) else allow(ex)):
                    e.cover('precondition-refusal', True)
                    continue
                e.require(False, info={'variant': lab, 'transformed raised': repr(ex)[:160]}, tag=lab)
                continue
            try:
                post = eqv(r0, r1)
            except NotImplementedError as ex:
                e.require(False, info={'variant': lab, 'harness': str(ex)}, tag=lab); continue
            e.cover('returns', True)
            ok = e.require(post, info={'variant': lab}, tag=lab)
        if len(samples) < 2:
            samples.append({'task': task['name'], 'variants': [v[0] for v in variants][:12], 'example_arguments': e.model_inputs()})
    eng = explore(run, setup, W=t['W'], bl_max=t['W'] - 6, max_paths=4000)
    cexs = []
    for cx in eng.cex:
        if cx.get('unknown') or cx.get('inputs') is None:
            cexs.append({'case': None})
        else:
            tt = {k: v for k, v in task.items() if k not in ('name', 'cost')}
            cexs.append({'case': {'task': tt, 'inputs': cx['inputs'], 'variant': cx.get('tag'), 'info': str(cx.get('info'))}, 'failed_obligations': cx.get('failed_obligations')})
    return dict(paths=eng.paths, decisions=eng.decisions, queries=eng.checks, unsat=eng.unsat, sat=eng.sat, unknown=eng.unknown,
                solve_s=eng.solve_s, requires=eng.requires, aborted=eng.aborted, witness=eng.witness, notes=eng.notes, cex=cexs, samples=samples,
                extra={'programs': 1, 'variants_checked': [v[0] for v in variants]})


def replay_joint(case, variants_of):
    """concrete: original vs transformed on the concrete arguments, real operations"""
    t = case['task']; inp = case['inputs']
    shape = [tuple(c) for c in t['shape']]
    variants = variants_of(t)
    from fpy2.interpret import byte
    rt = byte.BytecodeInterpreter()
    problems = []
    for var in variants:
        lab, f, g, ctxs = var[:4]
        allow = var[4] if len(var) > 4 else None
        if case.get('variant') and lab != case['variant']:
            continue
        try:
            r0 = rt.eval(f, concrete_args(shape, inp), ctxs[0], convert=False)
        except Exception as ex:  # noqa
            continue
        try:
            r1 = with_timeout(lambda: rt.eval(g, concrete_args(shape, inp), ctxs[1], convert=False), RUN_LIMIT_S)
        except TransformTimeout:
            problems.append((lab, 'original returned %s; the transformed program did not return within %d s' % (_show(r0), RUN_LIMIT_S))); continue
        except Exception as ex:  # noqa
            if allow is not None and (allow(ex, concrete_args(shape, inp)) if getattr(allow, 'wants_args', False) else allow(ex)):
                continue
            problems.append((lab, 'transformed raised %r' % ex)); continue
        if not conc_eq(r0, r1):
            problems.append((lab, 'original %s transformed %s' % (_show(r0), _show(r1))))
    key = ('%s:%s' % (t.get('prog'), problems[0][0]) if problems else 'ok')
    return {'violates': bool(problems), 'observed': {'arguments': [_show(a) for a in concrete_args(shape, inp)], 'problems': [list(map(str, p)) for p in problems[:3]]}, 'key': key}


def _show(v):
    from fpy2 import Float
    if isinstance(v, (list, tuple)):
        return [_show(x) for x in v]
    if isinstance(v, Float):
        if v.isnan:
            return 'nan'
        if v.isinf:
            return '-inf' if v.s else '+inf'
        r = v.as_rational()
        return ('-0' if (r == 0 and v.s) else str(r))
    return str(v)


class TransformTimeout(Exception):
    pass


def with_timeout(fn, secs=60):
    """run fn() under an alarm: a transform that does not terminate produces no program"""
    import signal

    def h(*a):
        raise TransformTimeout()
    old = signal.signal(signal.SIGALRM, h)
    # repeating: an exception raised by the handler inside a destructor (`__del__`) is swallowed by CPython, so a one-shot
    # alarm can be lost and a non-terminating evaluation would run on; the alarm fires again every 0.2 s until it lands
    signal.setitimer(signal.ITIMER_REAL, secs, 0.2)
    try:
        return fn()
    finally:
        signal.setitimer(signal.ITIMER_REAL, 0)
        signal.signal(signal.SIGALRM, old)


def timeout_result(task, what):
    tt = {k: v for k, v in task.items() if k not in ('name', 'cost')}
    return dict(paths=0, requires=0, cex=[{'case': {'task': tt, 'inputs': {}, 'variant': 'timeout', 'info': what}}], samples=[], witness={}, notes=[what])


def replay_with_timeout(case, variants_of):
    try:
        with_timeout(lambda: variants_of(case['task']), 120)
    except TransformTimeout:
        return {'violates': True, 'observed': 'the transform did not terminate within 120 s on this program', 'key': 'transform-nontermination'}
    if case.get('variant') == 'timeout':
        return {'violates': False, 'observed': 'terminated on replay', 'key': 'ok'}
    return replay_joint(case, variants_of)


def summary_selftest(seed=5, rounds=10):
    """the z3 summaries (pysym/summaries.py, with their static-bound shortcuts) against the REAL operations of the current tree:
    symbolic operands are built exactly as in the checks, each summary result is instantiated on random concrete operands and
    compared with ops.<op> on the same operands.  Returns (cases, mismatches)."""
    import random
    import z3
    import fpy2 as fp
    import fpy2.ops as real_ops_mod
    from fpy2 import Float
    from pysym.core import explore, SymInt
    from pysym import summaries
    real = dict(add=real_ops_mod.add, sub=real_ops_mod.sub, mul=real_ops_mod.mul, fma=real_ops_mod.fma, neg=real_ops_mod.neg, fabs=real_ops_mod.fabs, round=real_ops_mod.round)
    ctxs = [fp.IEEEContext(5, 8, fp.RM.RTP), fp.IEEEContext(5, 10), fp.IEEEContext(5, 9, fp.RM.RTZ), fp.FP32, fp.FP32.with_params(rm=fp.RM.RTN), fp.FP64, fp.MPFixedContext(-1, fp.RM.RTZ), fp.INTEGER,
            fp.MPSFloatContext(3, -2, fp.RM.RTN), fp.MPSFloatContext(4, -3), fp.FixedContext(True, -2, 12, fp.RM.RTZ, fp.OV.SATURATE), fp.FixedContext(True, 0, 16, fp.RM.RNE, fp.OV.SATURATE), fp.MPFloatContext(2, fp.RM.RTP), fp.MPFloatContext(1), fp.IEEEContext(3, 6, fp.RM.RNE), fp.REAL]
    rng = random.Random(seed)
    out = {'n': 0, 'bad': []}
    exps = (-1, -2, 0)

    def setup(e):
        return ([(e.fresh('c%d' % k, 0, 31), e.fresh('s%d' % k, 0, 1)) for k in range(3)],)

    def run(e, leaves):
        S = summaries.make(real)
        xs = [summaries._mk_float(s.t != 0, ex, m.t, None, 5) for (m, s), ex in zip(leaves, exps)]
        for ctx in ctxs:
            for name, args in (('add', xs[:2]), ('sub', xs[:2]), ('mul', xs[:2]), ('fma', xs), ('round', xs[:1]), ('neg', xs[:1]), ('fabs', xs[:1])):
                try:
                    r = S[name](*args, ctx=ctx)
                except NotImplementedError:
                    continue
                for _ in range(rounds):
                    vals = [(rng.randrange(32), rng.randrange(2)) for _ in range(3)]
                    sub = []
                    for (m, s), (vm, vs) in zip(leaves, vals):
                        sub += [(m.t, z3.BitVecVal(vm, e.W)), (s.t, z3.BitVecVal(vs, e.W))]
                    ct = r._real._c; st = r._real._s
                    cv = z3.simplify(z3.substitute(ct.t, *sub)).as_long() if type(ct) is SymInt else int(ct)
                    sv = (z3.simplify(z3.substitute(st.t, *sub)).as_long() != 0) if type(st) is SymInt else bool(st)
                    conc = [Float(bool(vs), ex, vm) for (vm, vs), ex in zip(vals, exps)][:len(args)]
                    try:
                        want = real[name](*conc, ctx=ctx)
                    except Exception:  # noqa  the real operation refuses these operands under this context
                        continue
                    if want.is_nar():
                        continue
                    out['n'] += 1
                    got = Float(sv, r._real._exp, cv)
                    if got.as_rational() != want.as_rational() or (want.as_rational() == 0 and bool(got.s) != bool(want.s)):
                        out['bad'].append([name, repr(ctx)[:60], [_show(c) for c in conc], _show(got), _show(want)])
    explore(run, setup, W=96, bl_max=88, max_paths=1)
    return out['n'], out['bad']
