"""
C04 — Programs evaluate by the documented context-scoped semantics.

Each corpus program is run twice on the same symbolic arguments, in one joint exploration:
  (real)       @fp.fpy front end -> BytecodeCompiler -> BytecodeInterpreter.eval (convert=False), all repository code;
  (reference)  spec/fpy_ref.py, an evaluator of the program's SOURCE TEXT written from the language reference
               (environment, store of shared cells, active context; E-Context, E-App, E-Op ...), which shares nothing
               with the front end or the interpreter.
Both use the same primitive rounded operations (validated summaries of ops.add/sub/mul/fma/neg/fabs/round), so what is
compared is everything around them: which operation each operator denotes, which context is active at each node, the
scope of `with`, early returns, callee contexts, the no-context default, argument passing, control flow, lists and
their sharing, slices, comprehensions, zip/enumerate/range, min/max/sum/any/all, comparisons and short-circuiting.
The solver decides, per joint path, that the two results are equal for every argument value on the path.
"""
PROPERTY = 'C04'
LEVEL = 'translation_validation'
BUDGET_S = {'quick': 3600, 'thorough': 14400}

from . import tv, corpus

CALLERS = {'none': None, 'mps4': 'fp.MPSFloatContext(4, -3)', 'mp2up': 'fp.MPFloatContext(2, fp.RM.RTP)'}


def _programs(tier):
    return [p for p in corpus.P if 'no_ref' not in p['tags']]


def tasks(tier, seed):
    ts = []
    for p in _programs(tier):
        for shape in tv.arg_shapes(p, tier):
            if tier == 'quick' and 'heavy' in p['tags'] and sum(c[1] for c in shape if c[0] == 'list') > 2:
                continue
            for cname in CALLERS:
                focus = 'semantics' in p['tags'] or 'context' in p['tags']
                nl = sum(c[1] for c in shape if c[0] == 'list')
                if tier == 'quick' and cname == 'mp2up' and not focus:
                    continue
                if tier == 'quick' and cname == 'none' and (not focus or nl > 2):
                    continue            # the binary64 default needs 96-bit vectors: quick keeps it for the context-focused programs
                ts.append(dict(kind='sem', name='sem/%s/%s/%s' % (p['name'], '-'.join(str(c[-1]) if len(c) > 1 else 'r' for c in shape), cname), prog=p['name'], shape=[list(c) for c in shape],
                               caller=cname, cost=sum(c[1] if c[0] == 'list' else 1 for c in shape)))
    ts.append(dict(kind='special', name='concrete/special-and-unrepresentable-arguments', cost=5))
    ts.append(dict(kind='entry', name='concrete/entry-conversion', cost=1))
    ts.append(dict(kind='sumcheck', name='concrete/summaries-vs-real-operations', cost=3))
    return ts


def required_witnesses(tier):
    return ['returns', 'reference-stuck-and-real-raises', 'with-block', 'callee-call', 'concrete-special', 'concrete-entry', 'summaries-validated']


def num_helpers():
    import fpy2 as fp
    from fractions import Fraction
    from fpy2 import Float
    from spec.fpy_ref import Unsupported

    def as_index(v):
        if isinstance(v, Fraction):
            q = v
        elif isinstance(v, Float):
            from pysym.core import SymInt
            if type(v.c) is SymInt or type(v.exp) is SymInt or v.is_nar():
                raise Unsupported('symbolic index')
            q = v.as_rational()
        elif isinstance(v, int):
            q = Fraction(v)
        else:
            raise Unsupported('index of type %s' % type(v).__name__)
        if q.denominator != 1:
            from spec.fpy_ref import Stuck
            raise Stuck('non-integer index')
        return int(q)
    # comparisons are always dispatched on the Float operand: Fraction.__lt__(Float) would go through Python's numeric tower
    # (numerator / denominator of a symbolic Float), not through the repository's comparison
    def lt(a, b):
        if isinstance(a, Float) or not isinstance(b, Float):
            return bool(a < b)
        return bool(b > a)

    def eq(a, b):
        if isinstance(a, Float) or not isinstance(b, Float):
            return bool(a == b)
        return bool(b == a)
    def rational(v):
        from pysym.core import SymInt
        if isinstance(v, Float):
            if type(v.c) is SymInt or type(v.exp) is SymInt or type(v.s) is SymInt or v.is_nar():
                raise Unsupported('symbolic or special operand of %')
            return v.as_rational()
        return Fraction(v)
    return dict(
        rational=rational, from_rational=lambda q: Float.from_rational(q),
        isnan=lambda x: isinstance(x, Float) and bool(x.isnan), isinf=lambda x: isinstance(x, Float) and bool(x.isinf),
        signbit=lambda x: bool(x.s) if isinstance(x, Float) else x < 0, lt=lt, eq=eq,
        as_index=as_index, is_ctx=lambda v: isinstance(v, fp.Context), neg_zero=lambda: Float(s=True, exp=0, c=0), real_ctx=fp.REAL, default_ctx=fp.FP64)


def make_ref(p, S):
    import fpy2 as fp
    from spec.fpy_ref import Ref
    ns = dict(corpus.namespace()); ns['fp'] = fp
    prim = dict(add=S['add'], sub=S['sub'], mul=S['mul'], fma=S['fma'], neg=S['neg'], abs=S['fabs'], round=S['round'])
    return Ref(p['src'], ns, prim, num_helpers())


def caller_of(name):
    import fpy2 as fp
    return None if CALLERS[name] is None else eval(CALLERS[name], {'fp': fp})  # noqa: S307


ENTRY_SRC = '''
@fp.fpy
def diff(x: fp.Real, y: fp.Real) -> fp.Real:
    with fp.REAL:
        return x - y

@fp.fpy
def pick(xs: list[fp.Real], t: tuple[fp.Real, fp.Real]) -> fp.Real:
    with fp.REAL:
        return xs[1] - t[0]
'''


def entry_cases():
    """(label, python argument pair): host values of every kind the API accepts, including ones no double holds"""
    from fractions import Fraction
    from fpy2 import Float
    big = [2 ** 53 + 1, 10 ** 30 + 7, -(2 ** 64) - 3, Fraction(2 ** 70 + 1, 2 ** 10), Fraction(-(3 ** 40), 2 ** 3), 0.1, 1e22, -2.5, Float(False, -80, 2 ** 70 + 1), 7]
    out = []
    for i, a in enumerate(big):
        for b in (big[(i + 1) % len(big)], big[(i + 3) % len(big)], a):
            out.append((a, b))
    return out


def entry_problems():
    """Function.__call__ (convert=True): arguments are taken exactly as given, whatever host type carries them"""
    from fractions import Fraction
    from fpy2 import Float
    from . import progs
    g = progs.load(ENTRY_SRC)

    def exact(v):
        return v.as_rational() if isinstance(v, Float) else Fraction(v)
    bad = []; n = 0
    for a, b in entry_cases():
        want = exact(a) - exact(b)
        for label, call in (('diff(a, b)', lambda: g['diff'](a, b)), ('pick([b, a], (b, a))', lambda: g['pick']([b, a], (b, a)))):
            n += 1
            try:
                r = call()
                got = exact(r) if isinstance(r, (Float, int, Fraction, float)) else None
            except Exception as ex:  # noqa
                bad.append([label, repr(a), repr(b), 'raised %r' % ex]); continue
            if got != want:
                bad.append([label, repr(a), repr(b), 'returned %s, the arguments differ by %s' % (got, want)])
    return bad, n


def run_entry(task):
    bad, n = entry_problems()
    cex = [{'case': {'task': {'kind': 'entry'}, 'inputs': {'row': b}, 'info': str(b)[:200]}} for b in bad[:20]]
    return dict(paths=0, requires=0, cex=cex, samples=[{'task': task['name'], 'concrete_cases': n, 'concrete': True}], witness={'concrete-entry': n}, extra={'diff_runs': n, 'concrete_entry_cases': n})


def run_task(task):
    if task['kind'] == 'special':
        return run_special(task)
    if task['kind'] == 'entry':
        return run_entry(task)
    if task['kind'] == 'sumcheck':
        n, bad = tv.summary_selftest()
        cex = [{'case': {'task': {'kind': 'sumcheck'}, 'inputs': {'row': b}, 'info': str(b)[:200]}} for b in bad[:10]]
        return dict(paths=0, requires=0, cex=cex, samples=[{'task': task['name'], 'concrete_cases': n, 'concrete': True}], witness={'summaries-validated': n}, extra={'diff_runs': n, 'summary_differential_cases': n})
    import z3
    from pysym.core import explore
    from pysym import summaries, shims
    from spec.fpy_ref import Unsupported, Stuck
    tier = task.get('tier', 'quick'); t = tv.TIER[tier]
    p = next(q for q in corpus.P if q['name'] == task['prog'])
    f, _ = tv.load_program(p)
    shape = [tuple(c) for c in task['shape']]
    rt = tv.install_runtime()
    import fpy2.ops as ops
    S = dict(add=ops.add, sub=ops.sub, mul=ops.mul, fma=ops.fma, neg=ops.neg, fabs=ops.fabs, round=ops.round)      # already the summaries (install_runtime)
    ref = make_ref(p, S)
    C = caller_of(task['caller'])
    samples = []; notes = []
    wit = {}
    if 'with ' in p['src']:
        wit['with-block'] = 1
    if p['src'].count('@fp.fpy') > 1:
        wit['callee-call'] = 1

    def setup(e):
        return (tv.SymArgs(e, shape, t['CW'], tv.caller_ctx()),)

    def run(e, sa):
        try:
            want = ('ok', ref.run(p['entry'], sa.build(), C))
        except Unsupported as ex:
            if not notes:
                notes.append('outside the reference evaluator: %s' % ex)
            return
        except Stuck as ex:
            want = ('stuck', str(ex))
        try:
            got = ('ok', rt.eval(f, sa.build(), C, convert=False))
        except Exception as ex:  # noqa
            got = ('raise', ex)
        if want[0] == 'stuck':
            e.cover('reference-stuck-and-real-raises', got[0] == 'raise')
            e.require(got[0] == 'raise', info={'reference is stuck': want[1], 'real returned': str(got[1])[:80]}, tag='stuck')
            return
        if got[0] == 'raise':
            e.require(False, info={'real raised': repr(got[1])[:160], 'reference returned': True}, tag='raise')
            return
        try:
            post = tv.eqv(want[1], got[1])
        except NotImplementedError as ex:
            e.require(False, info={'harness': str(ex)}, tag='harness'); return
        e.cover('returns', True)
        ok = e.require(post, info={'caller': task['caller']}, tag='value')
        if len(samples) < 2:
            samples.append({'task': task['name'], 'example_arguments': e.model_inputs(), 'caller_context': CALLERS[task['caller']], 'proved_equal': ok})
    W = t['W'] if task['caller'] != 'none' else 96          # binary64 intermediates carry 53-bit constants
    eng = explore(run, setup, W=W, bl_max=W - 6, max_paths=4000)
    for k, v in wit.items():
        eng.witness[k] = eng.witness.get(k, 0) + v
    cexs = []
    for cx in eng.cex:
        if cx.get('unknown') or cx.get('inputs') is None:
            cexs.append({'case': None})
        else:
            tt = {k: v for k, v in task.items() if k not in ('name', 'cost')}
            cexs.append({'case': {'task': tt, 'inputs': cx['inputs'], 'tag': cx.get('tag'), 'info': str(cx.get('info'))}, 'failed_obligations': cx.get('failed_obligations')})
    return dict(paths=eng.paths, decisions=eng.decisions, queries=eng.checks, unsat=eng.unsat, sat=eng.sat, unknown=eng.unknown, solve_s=eng.solve_s, requires=eng.requires,
                aborted=eng.aborted, witness=eng.witness, notes=eng.notes + notes, cex=cexs, samples=samples, extra={'programs': 1, 'outside_reference': 1 if notes else 0})


# ---- concrete table: special and unrepresentable arguments ------------------------------------------------------------------
def special_values():
    from fpy2 import Float
    from fractions import Fraction
    return [Float(isnan=True), Float(isinf=True), Float(isinf=True, s=True), Float(s=True, exp=0, c=0), Float(exp=0, c=0), Float.from_rational(Fraction(1, 1024)) if hasattr(Float, 'from_rational') else Float(exp=-10, c=1),
            Float(exp=-7, c=171), Float(s=True, exp=3, c=5), Float(exp=0, c=1)]


def concrete_cases(p, rng, n):
    import itertools
    vals = special_values()
    out = []
    shapes = tv.arg_shapes(p, 'quick')
    for _ in range(n):
        shape = rng.choice(shapes)
        args = []
        for c in shape:
            if c[0] == 'real':
                args.append(rng.randrange(len(vals)))
            elif c[0] == 'list':
                args.append([rng.randrange(len(vals)) for _ in range(c[1])])
            else:
                args.append(('int', c[1]))
        out.append(args)
    return out


def build_concrete(idx_args):
    from fpy2 import Float
    vals = special_values()
    out = []
    for a in idx_args:
        if isinstance(a, (tuple, list)) and len(a) == 2 and a[0] == 'int':
            out.append(Float.from_int(a[1]))
        elif isinstance(a, list):
            out.append([vals[i] for i in a])
        else:
            out.append(vals[a])
    return tuple(out)


def judge_concrete(p, idx_args, caller):
    """both evaluators on concrete arguments with the REAL operations; returns None or a description of the disagreement"""
    import fpy2 as fp
    import fpy2.ops as ops
    from fpy2.interpret import byte
    from spec.fpy_ref import Unsupported, Stuck
    f, _ = tv.load_program(p)
    S = dict(add=ops.add, sub=ops.sub, mul=ops.mul, fma=ops.fma, neg=ops.neg, fabs=ops.fabs, round=ops.round)
    ref = make_ref(p, S)
    C = caller_of(caller)
    try:
        want = ('ok', ref.run(p['entry'], build_concrete(idx_args), C))
    except Unsupported:
        return 'skip'
    except Stuck as ex:
        want = ('stuck', str(ex))
    except Exception as ex:  # noqa  an operation itself raised (e.g. a context that cannot hold the result): the real run must raise too
        want = ('stuck', 'operation raised %r' % ex)
    try:
        got = ('ok', byte.BytecodeInterpreter().eval(f, build_concrete(idx_args), C, convert=False))
    except Exception as ex:  # noqa
        got = ('raise', repr(ex)[:120])
    if want[0] == 'stuck':
        return None if got[0] == 'raise' else 'reference is stuck (%s), real returned %s' % (want[1], tv._show(got[1]))
    if got[0] == 'raise':
        return 'reference returned %s, real raised %s' % (tv._show(want[1]), got[1])
    return None if tv.conc_eq(want[1], got[1]) else 'reference %s, real %s' % (tv._show(want[1]), tv._show(got[1]))


def run_special(task):
    import random
    rng = random.Random(12345)
    cex = []; n = 0; skipped = 0
    for p in _programs('quick'):
        if not any(a == 'real' or a[0] == 'list' for a in p['args']):
            continue
        for idx_args in concrete_cases(p, rng, 12):
            for caller in ('none', 'mps4'):
                r = judge_concrete(p, idx_args, caller)
                if r == 'skip':
                    skipped += 1; continue
                n += 1
                if r is not None:
                    cex.append({'case': {'task': {'kind': 'special', 'prog': p['name'], 'caller': caller}, 'inputs': {'args': idx_args}, 'info': r[:200]}})
    return dict(paths=0, requires=0, cex=cex, samples=[{'task': task['name'], 'concrete_cases': n, 'concrete': True}], witness={'concrete-special': n}, extra={'diff_runs': n, 'concrete_special_cases': n, 'concrete_cases_outside_reference': skipped})


def describe(tier):
    R = '/repo/fpy2/'
    return dict(
        functions=['decorator.fpy + frontend.parser.Parser (operator tables _unary_table/_binary_table/_binop_table/_cmpop_table, _parse_*)', 'interpret.byte.BytecodeCompiler (_visit_context try/finally, _visit_*op passing ctx=__ctx__, _visit_call)',
                   'interpret.byte helpers _call_fpy/_eval_call/_cvt_index/_eval_list_slice/_eval_range/_eval_min/_eval_max/_eval_sum/_eval_eq', 'interpret.interpreter.Interpreter._func_ctx', 'function.Function', 'Float comparison (real code, forks on symbolic operands)'],
        files=[R + 'frontend/parser.py', R + 'decorator.py', R + 'interpret/byte.py', R + 'interpret/interpreter.py', R + 'interpret/value.py', R + 'function.py', R + 'ops.py', R + 'ast/fpyast.py', R + 'ast/visitor.py',
               '/repo/docs/source/dev/semantics.rst', '/repo/docs/source/dev/derived-semantics.rst', '/repo/docs/USAGE.md'],
        bounds=dict(programs=len(_programs(tier)), caller_contexts=list(CALLERS.values()), argument_significand_bits=tv.TIER[tier]['CW'], argument_exponent=tv.EXP0, list_lengths='as listed per program (0..5)',
                    concrete_special_values='NaN, +-inf, -0, +0, 2^-10, 171*2^-7, -40, 1'),
        outside=['programs outside the corpus', 'division, elementary functions, pow in program bodies (no summary)', 'symbolic special operands (specials are covered by the concrete table only)', 'Function.__call__ conversion (convert=True) beyond the concrete entry table (ints, Fractions, floats, Floats, bare and inside lists / tuples)'],
        stubs=['ops.add/sub/mul/fma/neg/fabs/round -> validated summaries on both sides', 'int / Fraction proxies, number formatting'],
        assumptions=['a negative integer literal is a literal (exact), any other unary minus is the rounded negation', 'when the reference is stuck (no rule applies) the real run must raise; the exception class is not compared'],
        rule='one case = one feasible joint path of (reference evaluator, real interpreter) for a (program, argument shape, caller context)',
        explanation='differential symbolic execution of the real front end + interpreter against an independent evaluator of the source text',
    )
