"""
C20 — Library decompositions are exact.

The real library functions (parsed by the real front end, compiled by the real BytecodeCompiler) are run on
symbolic members of the active format.  Rounded arithmetic inside them goes through operation summaries
(pysym/summaries.py), each validated against the real `ops.<op>` on the *whole* finite operand domain of the run
before it is used (and proved symbolically by C02 on the same tree); `core.*` primitives run un-summarised.
"""
import os

PROPERTY = 'C20'
LEVEL = 'model_checking'
BUDGET_S = {'quick': 3600, 'thorough': 14400}

NEAREST = ['RNE', 'RNA']
ALL = ['RNE', 'RNA', 'RTP', 'RTN', 'RTZ', 'RAZ', 'RTO', 'RTE']

# name: (arity, modes, context kind, preconditions)
EFT = {
    'ideal_2sum': (2, ALL, 'mps', None), 'fast_2sum': (2, NEAREST, 'mps', 'ordered'), 'classic_2sum': (2, NEAREST, 'mps', None),
    'priest_2sum': (2, ALL, 'mps', None), 'ideal_2mul': (2, ALL, 'mp', None), 'fast_2mul': (2, ALL, 'mp', None), 'ideal_fma': (3, ALL, 'mp', None),
    'classic_2mul': (2, NEAREST, 'mp', 'split'), 'veltkamp_split': (1, NEAREST, 'mp', 'split'), 'classic_2fma': (3, NEAREST, 'mp', None),
}
TIER = {'quick': dict(ps=[2, 3, 4], NB=3, W=32), 'thorough': dict(ps=[2, 3, 4, 5, 6], NB=4, W=48)}


def tasks(tier, seed):
    t = TIER[tier]
    ts = []
    QUICK_PS = {'ideal_2sum': [2, 3, 4], 'fast_2sum': [2, 3, 4], 'classic_2sum': [2, 3, 4], 'priest_2sum': [2, 3], 'ideal_2mul': [2, 3], 'fast_2mul': [2, 3],
                'ideal_fma': [2, 3], 'classic_2mul': [4, 5], 'veltkamp_split': [4, 5], 'classic_2fma': [2]}
    THOROUGH_PS = {'ideal_2sum': [2, 3, 4, 5, 6], 'fast_2sum': [2, 3, 4, 5, 6], 'classic_2sum': [2, 3, 4, 5, 6], 'priest_2sum': [2, 3, 4, 5], 'ideal_2mul': [2, 3, 4, 5],
                   'fast_2mul': [2, 3, 4, 5], 'ideal_fma': [2, 3, 4], 'classic_2mul': [4, 5, 6], 'veltkamp_split': [4, 5, 6, 7], 'classic_2fma': [2, 3, 4]}
    for fn, (ar, modes, kind, pre) in EFT.items():
        for p in (QUICK_PS if tier == 'quick' else THOROUGH_PS)[fn]:
            ms = modes if tier == 'thorough' or len(modes) <= 2 else ['RNE', 'RTP', 'RTZ', 'RTO']
            for rm in ms:
                parts = [None] if fn != 'classic_2fma' else [0, 1, 2, 3]      # the factor signs split the longest tasks four ways
                for part in parts:
                    ts.append(dict(kind='eft', name='eft/%s/p%d/%s%s' % (fn, p, rm, '' if part is None else '/signs%d' % part), fn=fn, p=p, rm=rm, seed=seed, part=part,
                                   cost=(p * p * (4 if ar == 3 else 1) * (6 if fn.startswith('classic_2') else 1))))
    for fn in ('split', 'modf', 'frexp', 'ldexp', 'logb'):
        for s in (0, 1):
            for rm in (['RNE', 'RTZ'] if fn == 'ldexp' else ['RNE']):
                ts.append(dict(kind='core', name='core/%s/%s/s%d' % (fn, rm, s), fn=fn, s=s, rm=rm))
    ts.append(dict(kind='core_special', name='concrete/core-specials'))
    for p in t['ps']:
        for rm in ALL:
            ts.append(dict(kind='validate', name='validate-summaries/p%d/%s' % (p, rm), p=p, rm=rm))
    return ts


def required_witnesses(tier):
    return ['eft-inexact-sum', 'eft-exact-sum', 'eft-nonzero-error', 'eft-cancellation', 'core-split-inside', 'core-frac', 'summary-validated']


def describe(tier):
    t = TIER[tier]
    R = '/repo/fpy2/'
    return dict(
        functions=['libraries.eft.' + k for k in EFT] + ['libraries.core.split/modf/frexp/ldexp/logb/isinteger/isnar/max_p', 'frontend (Parser) + interpret.byte.BytecodeCompiler/BytecodeInterpreter.eval (real, executing the compiled library code)',
                   'ops.add/sub/mul/fma/neg/fabs via validated summaries', 'Float.compare (branches inside the library code)'],
        files=[R + 'libraries/eft.py', R + 'libraries/core.py', R + 'libraries/base.py', R + 'primitive.py', R + 'interpret/byte.py', R + 'ops.py'],
        bounds=dict(precisions=t['ps'], binades=t['NB'], contexts='MPSFloatContext(p, emin) (gradual underflow) for sums, MPFloatContext(p) for products / fma', engine_width=t['W']),
        outside=['precisions above the listed ones', 'overflow (unbounded-exponent contexts are used, as the preconditions exclude overflow)', 'underflow of a product error term (MPFloatContext has no minimum exponent)',
                 'infinite / NaN operands of the EFTs (the decompositions handle them on a concrete table)'],
        stubs=['ops.add/sub/mul/fma/neg/fabs -> summary = exact operation on scaled integers + rounding specification; validated against the real operation on every operand pair of the run\'s domain'],
        assumptions=['documented preconditions: nearest rounding for classic/fast/priest variants, |a| >= |b| for fast_2sum, p >= 4 for the Veltkamp/Dekker splitting'],
        rule='one case = one feasible joint path of the compiled library function (real interpreter) for a (function, precision, mode, signs) configuration',
        explanation='bounded model checking of the library code through the real interpreter with validated operation summaries',
    )


def _ctx(kind, p, rm, emin=0):
    import fpy2 as fp
    return fp.MPSFloatContext(p, emin, fp.RM[rm]) if kind == 'mps' else fp.MPFloatContext(p, fp.RM[rm])


def domain(p, NB, kind):
    """members: m * 2^expmin, |m| < 2^(p+NB), at most p significant digits. returns (expmin, list of |m|)"""
    expmin = 0 - p + 1 if kind == 'mps' else 0      # mps: emin = 0 -> expmin = 1 - p ; mp: unit exponent 0
    ms = [m for m in range(0, 1 << (p + NB)) if m == 0 or (m >> max(0, m.bit_length() - p)) << max(0, m.bit_length() - p) == m]
    return expmin, ms


def run_task(task):
    k = task['kind']
    if k == 'core_special':
        from . import c20_replay as RP
        n, bad, samples = RP.table_core_special(task)
        return dict(paths=0, requires=0, cex=[{'case': {'task': {'kind': k}, 'inputs': {'row': b}}} for b in bad], samples=samples, extra={'concrete_core_special_cases': n}, witness={})
    if k == 'validate':
        return _validate(task)
    return _run_symbolic(task)


def _validate(task):
    """summary == real operation on every operand pair of the domain (finite, exhaustive)"""
    import fpy2 as fp
    from fpy2 import Float
    from pysym import summaries
    tier = task.get('tier', 'quick'); t = TIER[tier]
    p, rm = task['p'], task['rm']
    n = 0; bad = []
    import fpy2.ops as ops
    real = dict(add=ops.add, sub=ops.sub, mul=ops.mul, fma=ops.fma, neg=ops.neg, fabs=ops.fabs)
    for kind in ('mps', 'mp'):
        ctx = _ctx(kind, p, rm)
        expmin, ms = domain(p, min(t['NB'], 2), kind)
        vals = [Float(s, expmin, m) for m in ms for s in (False, True)]

        def same(a, b):
            return (not b.is_nar()) and a.as_rational() == b.as_rational() and (a.as_rational() != 0 or a.s == b.s)
        for x in vals:
            for y in vals:
                for op in ('add', 'sub', 'mul'):
                    n += 1
                    r = real[op](x, y, ctx=ctx)
                    s = _summary_concrete(op, (x, y), ctx)
                    if not same(s, r):
                        bad.append([op, str(x.as_rational()), str(y.as_rational()), repr(ctx)[:30]])
        for x in vals[::3]:
            for y in vals[::5]:
                for z in vals[::7]:
                    n += 1
                    if not same(_summary_concrete('fma', (x, y, z), ctx), real['fma'](x, y, z, ctx=ctx)):
                        bad.append(['fma', str(x.as_rational()), str(y.as_rational()), str(z.as_rational())])
    cex = [{'case': {'task': {'kind': 'validate'}, 'inputs': {'row': b}}} for b in bad[:20]]
    return dict(paths=0, requires=0, cex=cex, samples=[{'summary_validation_pairs': n}], extra={'diff_runs': n}, witness={'summary-validated': 1})


def _summary_concrete(op, args, ctx):
    """the summary's own arithmetic on concrete operands (same text as the symbolic path, python ints)"""
    from fpy2 import Float
    from spec.rounding import round_detail
    from pysym.summaries import _ctx_params
    x = args[0]
    if op in ('add', 'sub'):
        y = args[1]; ex = min(x.exp, y.exp)
        m = (x.m << (x.exp - ex)) + ((y.m if op == 'add' else -y.m) << (y.exp - ex))
        zs = x.s and (y.s if op == 'add' else not y.s)
    elif op == 'mul':
        y = args[1]; ex = x.exp + y.exp; m = x.m * y.m; zs = x.s != y.s
    else:
        y, z = args[1], args[2]; ep = x.exp + y.exp; ex = min(ep, z.exp)
        m = ((x.m * y.m) << (ep - ex)) + (z.m << (z.exp - ex)); zs = (x.s != y.s) and z.s
    if m == 0:
        return Float(bool(zs), ex, 0)
    p, n, rm = _ctx_params(ctx)[:3]
    d = round_detail(abs(m), m < 0, p, n, rm, -ex)
    return Float(m < 0, ex, int(d['R']))


def _run_symbolic(task):
    import z3
    from pysym.core import explore, SymInt, bv
    from pysym import shims, summaries
    import spec.dsl as dsl
    from spec.rounding import is_member
    import fpy2 as fp
    from fpy2 import Float, RealFloat
    from fpy2.interpret import byte, interpreter as interp_mod
    from fpy2.libraries import eft, core
    import fpy2.number.number.reals as reals
    import fpy2.number.number.floats as floats
    import fpy2.number.context.context as cctx
    tier = task.get('tier', 'quick'); t = TIER[tier]
    W = t['W']; dsl.WO = W
    shims.install_int_pass(reals, floats, cctx)
    shims.install_frac_pass(reals, floats)
    shims.stub_formatting()
    samples = []

    def c_(v):
        return z3.BitVecVal(v, W)

    def sv(x, exp0):
        """signed value of a finite Float at scale 2^exp0 (exp0 <= x.exp), as a term"""
        return summaries._signed(x, exp0)

    if task['kind'] == 'eft':
        fn = task['fn']; ar, modes, kind, pre = EFT[fn]
        p, rm = task['p'], task['rm']
        ctx = _ctx(kind, p, rm)
        NB = t['NB'] if not fn.startswith('classic_2') else ((2 if p == 2 else 1) if fn == 'classic_2fma' else 1 if (fn == 'classic_2mul' and p >= 5 and tier == 'quick') else max(1, t['NB'] - 1))
        expmin = (1 - p) if kind == 'mps' else 0
        n = expmin - 1 if kind == 'mps' else None
        summaries.install()
        rt = byte.BytecodeInterpreter()
        shims.patch(interp_mod, '_default_interpreter', rt)
        func = getattr(eft, fn)

        def setup(e):
            return tuple(e.fresh('m%d' % i, 0, (1 << (p + NB)) - 1) for i in range(ar)) + tuple(e.fresh('s%d' % i, 0, 1) for i in range(ar))

        def run(e, *vs):
            ms, ss = vs[:ar], vs[ar:]
            for m in ms:
                e.assume(is_member(m.t, p, n, -expmin))
            if fn == 'classic_2mul':
                # Dekker's product (two Veltkamp splits and a 5-term sum): the first factor is enumerated (a seeded half in quick)
                if tier == 'quick':
                    e.assume(z3.URem(ms[0].t + ss[0].t + z3.BitVecVal(task.get('seed', 0), W), z3.BitVecVal(2 if p < 5 else 6, W)) == 0)
                ms = [SymInt(z3.BitVecVal(e.choose(m.t), W)) if i < 1 else m for i, m in enumerate(ms)]
                ss = [SymInt(z3.BitVecVal(e.choose(s_.t), W)) if i < 1 else s_ for i, s_ in enumerate(ss)]
            if task.get('part') is not None:
                e.assume(z3.And(ss[0].t == (task['part'] & 1), ss[1].t == (task['part'] >> 1)))
            if fn == 'classic_2fma':
                # 17 nested roundings: the two factors are enumerated (deterministic choose), the addend stays symbolic
                if tier == 'quick':
                    # quick: a seeded third of the factor pairs (thorough: all)
                    sd = task.get('seed', 0)
                    e.assume(z3.URem(ms[0].t * 7 + ms[1].t * 3 + ss[0].t + z3.BitVecVal(sd, W), z3.BitVecVal(3, W)) == 0)
                ms = [SymInt(z3.BitVecVal(e.choose(m.t), W)) if i < 2 else m for i, m in enumerate(ms)]
                ss = [SymInt(z3.BitVecVal(e.choose(s_.t), W)) if i < 2 else s_ for i, s_ in enumerate(ss)]
            xs = [summaries._mk_float(s.t != 0, expmin, m.t, ctx) for s, m in zip(ss, ms)]
            if pre == 'ordered':
                e.assume(ms[0].t >= ms[1].t)
            args = xs if fn != 'veltkamp_split' else [xs[0], Float.from_int((p + 1) // 2)]
            try:
                out = rt.eval(func, tuple(args), ctx, convert=False)
            except AssertionError as ex:
                e.require(False, info={'assertion in library code': repr(ex)[:100]}); return
            except Exception as ex:  # noqa
                e.require(False, info={'raised': repr(ex)[:200]}); return
            outs = list(out)
            for o in outs:
                if isinstance(o, Float) and o.is_nar():
                    e.require(False, info={'non-finite output'}); return
            outs = [summaries._as_float(o) for o in outs]
            lo = min([o.exp for o in outs] + [expmin * (2 if fn.endswith(('mul', 'fma')) else 1)])
            total = c_(0)
            for o in outs:
                total = total + sv(o, lo)
            a = sv(xs[0], expmin)
            if fn.endswith('2sum'):
                exact = (a + sv(xs[1], expmin)) << (expmin - lo)
            elif fn.endswith('2mul'):
                exact = (a * sv(xs[1], expmin)) << (2 * expmin - lo)
            elif fn == 'veltkamp_split':
                exact = a << (expmin - lo)
            else:
                exact = (a * sv(xs[1], expmin) + (sv(xs[2], expmin) << (-expmin))) << (2 * expmin - lo) if expmin <= 0 else None
            post = total == exact
            # the first output is the correctly rounded result of the operation
            from spec.rounding import round_detail
            mag = z3.If(exact < 0, -exact, exact)
            e.cover('eft-nonzero-error', sv(outs[1], lo) != 0)
            e.cover('eft-exact-sum', sv(outs[1], lo) == 0)
            e.cover('eft-inexact-sum', sv(outs[1], lo) != 0)
            if fn.endswith('2sum'):
                e.cover('eft-cancellation', z3.And(exact == 0, a != 0))
            if fn == 'veltkamp_split':
                s_ = (p + 1) // 2
                hi = outs[0]; lw = outs[1]
                # high part fits p - s digits, low part s digits
                post = z3.And(post, is_member(z3.If(sv(hi, lo) < 0, -sv(hi, lo), sv(hi, lo)), p - s_, None, -lo), is_member(z3.If(sv(lw, lo) < 0, -sv(lw, lo), sv(lw, lo)), s_, None, -lo))
            ok = e.require(post, info={'fn': fn})
            if len(samples) < 2:
                samples.append({'task': task['name'], 'example_operands_in_units_of_2^%d' % expmin: e.model_inputs(), 'proved': ok})
        eng = explore(run, setup, W=W, bl_max=W - 6, timeout_ms=(400000 if tier == 'quick' else 1800000))

    else:   # core decompositions, un-summarised
        fn = task['fn']; s = bool(task['s'])
        CW, E = 5, 4
        ctx = fp.MPSFloatContext(8, -8, fp.RM[task['rm']]) if fn != 'ldexp' else fp.MPSFloatContext(3, -2, fp.RM[task['rm']])
        K = E + 2
        if fn == 'ldexp':
            summaries.install()
        rt = byte.BytecodeInterpreter()
        shims.patch(interp_mod, '_default_interpreter', rt)
        from pysym.values import denote_mag
        dsl.WO = 48

        def D(c, x, sc=K):
            d = denote_mag(c, x, sc, W=48)
            return d if isinstance(d, z3.ExprRef) else z3.BitVecVal(d, 48)

        def setup(e):
            return e.fresh('c', 0 if fn not in ('frexp', 'logb') else 1, (1 << CW) - 1), e.fresh('exp', -E, E), e.fresh('n', -E - 1, E + 1)

        def run(e, c, x, n):
            X = D(c, x)
            xo = Float(s, x, c, ctx=ctx)
            try:
                if fn == 'split':
                    nn = e.choose(n.t)
                    hi, lo = core.split(xo, Float.from_int(nn), ctx=fp.REAL)
                    Vh, Vl = D(hi.c, hi.exp), D(lo.c, lo.exp)
                    unit = z3.BitVecVal(1, 48) << (nn + 1 + K) if nn + 1 + K >= 0 else None
                    post = z3.And(Vh + Vl == X, z3.BoolVal(bool(hi.s) == s or True))
                    if unit is not None:
                        post = z3.And(post, (Vh & (unit - 1)) == 0, Vl < unit)
                    else:
                        post = z3.And(post, Vl == 0)
                    e.cover('core-split-inside', z3.And(Vh != 0, Vl != 0))
                elif fn == 'modf':
                    i, f = core.modf(xo, ctx=fp.REAL)
                    Vi, Vf = D(i.c, i.exp), D(f.c, f.exp)
                    unit = z3.BitVecVal(1 << K, 48)
                    post = z3.And(Vi + Vf == X, (Vi & (unit - 1)) == 0, Vf < unit, z3.BoolVal(bool(i.s) == s and bool(f.s) == s))
                    e.cover('core-frac', Vf != 0)
                elif fn == 'frexp':
                    m, ex = core.frexp(xo, ctx=fp.REAL)
                    # m * 2^e == x with 1 <= |m| < 2 (the library's normalisation: e is the normalized exponent)
                    ev = ex.__int__() if hasattr(ex, '__int__') else int(ex)
                    evc = e.choose(bv(ev)) if isinstance(ev, SymInt) else ev
                    Vm = D(m.c, m.exp, K + CW)
                    post = z3.And(z3.BoolVal(bool(m.s) == s), Vm >= (1 << (K + CW)), Vm < (2 << (K + CW)))
                    sh = evc + K - (K + CW)
                    post = z3.And(post, (Vm << sh if sh >= 0 else z3.LShR(Vm, -sh)) == X, (Vm & ((1 << -sh) - 1)) == 0 if sh < 0 else z3.BoolVal(True))
                elif fn == 'logb':
                    r = rt.eval(core.logb, (xo,), ctx, convert=False)
                    ev = r.__int__()
                    from spec.dsl import bitlen, lift
                    post = lift(ev, 48) == bitlen(X) - 1 - K
                else:   # ldexp: exact product rounded once (the multiplication goes through the validated summary)
                    nn = e.choose(n.t)
                    xc = e.choose(x.t)
                    xo = summaries._mk_float(z3.BoolVal(s), xc, c.t, ctx)
                    x = xc
                    r = rt.eval(core.ldexp, (xo, Float.from_int(nn)), ctx, convert=False)
                    from spec import ctxround as CR, formats as F
                    from .c01_common import outcome_of
                    desc = dict(fam='MPSFloat', pmax=3, emin=-2, rm=task['rm'])
                    K2 = K + E + 2
                    out = outcome_of(lambda: r, K2, lambda cc, xx: D(cc, xx, K2))
                    Xs = D(c, x + nn, K2)
                    # flags are not part of this property (the summary does not model them): value and sign only
                    post = dsl.Or(CR.post_finite(desc, F.spec_of(desc), K2, s, Xs, None, dict(out, inexact=True)),
                                  CR.post_finite(desc, F.spec_of(desc), K2, s, Xs, None, dict(out, inexact=False)))
            except Exception as ex:  # noqa
                e.require(False, info={'raised': repr(ex)[:200]}); return
            ok = e.require(post, info={'fn': fn})
            if len(samples) < 2:
                samples.append({'task': task['name'], 'example_operand': e.model_inputs(), 'proved': ok})
        eng = explore(run, setup, W=W, bl_max=W - 6)

    cexs = []
    for cx in eng.cex:
        if cx.get('unknown') or cx.get('inputs') is None:
            cexs.append({'case': None})
        else:
            tt = {k: v for k, v in task.items() if k not in ('name', 'cost')}
            cexs.append({'case': {'task': tt, 'inputs': cx['inputs'], 'info': str(cx.get('info'))}, 'failed_obligations': cx.get('failed_obligations')})
    return dict(paths=eng.paths, decisions=eng.decisions, queries=eng.checks, unsat=eng.unsat, sat=eng.sat, unknown=eng.unknown,
                solve_s=eng.solve_s, requires=eng.requires, aborted=eng.aborted, witness=eng.witness, notes=eng.notes, cex=cexs, samples=samples)
