"""
C13 — Static analysis facts hold on every execution.

The analyses run concretely on each corpus program (TypeInfer.check, ArraySizeInfer.analyze, ValueClassInfer.analyze,
PartialEval.apply, Alias.analyze).  The program is then compiled by a tracing subclass of the real BytecodeCompiler
(harness/tracer.py: every expression reports its value) and run by the real interpreter code on symbolic arguments.  At every
traced expression, on every feasible path, the observed value is confronted with the reported fact:
  type        the value has the shape of the inferred type (bool / number / context / tuple arity / list, recursively)
  size        a list has its inferred static length; expressions that share a size variable have equal lengths in one run
  class       the solver is asked for an input making the value fall OUTSIDE the reported class set (NaN / Inf / Zero / Finite)
  constant    the solver is asked for an input making the value differ from the reported constant (incl. the sign of zero)
  alias       two expressions that evaluated to the same list object were given the same region
Special arguments (NaN, infinities, zeros) are covered by concrete traced runs with the real operations.
"""
PROPERTY = 'C13'
LEVEL = 'model_checking'
BUDGET_S = {'quick': 3600, 'thorough': 14400}

from . import tv, corpus


def _programs(tier):
    return [p for p in corpus.P if 'no_analysis' not in p['tags']]


def tasks(tier, seed):
    ts = []
    for p in _programs(tier):
        for shape in tv.arg_shapes(p, tier):
            if tier == 'quick' and sum(c[1] for c in shape if c[0] == 'list') > (2 if 'heavy' in p['tags'] else 3):
                continue
            ts.append(dict(kind='facts', name='facts/%s/%s' % (p['name'], '-'.join(str(c[-1]) if len(c) > 1 else 'r' for c in shape)), prog=p['name'], shape=[list(c) for c in shape],
                           cost=sum(c[1] if c[0] == 'list' else 1 for c in shape)))
    ts.append(dict(kind='special', name='concrete/special-arguments', cost=4))
    return ts


def required_witnesses(tier):
    return ['type-fact', 'size-fact', 'size-variable-shared', 'class-fact-narrow', 'constant-fact', 'alias-same-object', 'reaching-def-fact', 'concrete-special']


def analyses(f):
    """dict of analysis results for the entry function; an analysis that rejects the program is simply absent"""
    from fpy2.analysis import TypeInfer, ArraySizeInfer, ValueClassInfer, PartialEval, Alias, DefineUse
    out = {}
    for name, thunk in (('defuse', lambda: DefineUse.analyze(f.ast)), ('type', lambda: TypeInfer.check(f.ast)), ('size', lambda: ArraySizeInfer.analyze(f.ast)), ('class', lambda: ValueClassInfer.analyze(f.ast)),
                        ('const', lambda: PartialEval.apply(f.ast)), ('alias', lambda: Alias.analyze(f.ast))):
        try:
            out[name] = thunk()
        except Exception as ex:  # noqa  the analysis does not accept this program: it reports nothing about it
            out[name + '_rejected'] = repr(ex)[:120]
    return out


def shape_ok(ty, v):
    """does a run-time value have the shape of an inferred type?  (None = the type says nothing checkable)"""
    import fpy2 as fp
    from fractions import Fraction
    from fpy2 import Float
    from fpy2 import types as T
    if isinstance(ty, T.BoolType):
        return isinstance(v, bool)
    if isinstance(ty, T.RealType):
        return isinstance(v, (Float, Fraction, int, float)) and not isinstance(v, bool)
    if isinstance(ty, T.ContextType):
        return isinstance(v, fp.Context)
    if isinstance(ty, T.TupleType):
        return isinstance(v, tuple) and len(v) == len(ty.elts) and all(shape_ok(t, x) is not False for t, x in zip(ty.elts, v))
    if isinstance(ty, T.ListType):
        return isinstance(v, list) and all(shape_ok(ty.elt, x) is not False for x in v)
    return None


def _exact(k):
    """host floats / ints inside a reported constant as exact rationals (a double's 53-bit significand is not an engine constant)"""
    from fractions import Fraction
    if isinstance(k, bool):
        return k
    if isinstance(k, (int, float)) and k == k and k not in (float('inf'), float('-inf')):
        if isinstance(k, float) and k == 0 and str(k).startswith('-'):
            from fpy2 import Float
            return Float(s=True, exp=0, c=0)
        return Fraction(k)
    if isinstance(k, list):
        return [_exact(x) for x in k]
    if isinstance(k, tuple):
        return tuple(_exact(x) for x in k)
    return k


class Checker:
    """confronts traced values with the facts; `report(kind, ok, info)` is called for every decided fact"""
    def __init__(self, A, report, cover):
        self.A = A; self.report = report; self.cover = cover
        self.sizevars = {}
        self.objects = {}
        self.last_def = {}      # name -> the defining statement that bound it last on this run

    # -- reaching definitions: every read observes a definition listed as reaching it ------------------------------------
    def on_def(self, stmt):
        from fpy2.ast import fpyast as F

        def names(t):
            if isinstance(t, F.NamedId):
                return [t]
            if isinstance(t, F.TupleBinding):
                return [n for x in t for n in names(x)]
            return []
        if isinstance(stmt, F.IndexedAssign):
            self.last_def[stmt.var] = stmt
        else:
            for n in names(stmt.target):
                self.last_def[n] = stmt

    def reaching_sites(self, d, seen=None):
        """defining sites a (possibly phi) definition stands for"""
        from fpy2.analysis.reaching_defs import PhiDef
        du = self.A['defuse']
        seen = set() if seen is None else seen
        if id(d) in seen:
            return []
        seen.add(id(d))
        if isinstance(d, PhiDef):
            return self.reaching_sites(du.defs[d.lhs], seen) + self.reaching_sites(du.defs[d.rhs], seen)
        return [d.site]

    def defuse_check(self, e, where):
        from fpy2.ast import fpyast as F
        du = self.A['defuse']
        if e not in du.use_to_def:
            return
        sites = self.reaching_sites(du.use_to_def[e])
        if any(isinstance(s, (F.ListComp, F.ContextStmt)) for s in sites):
            return        # comprehension / `with ... as` targets are not traced
        last = self.last_def.get(e.name)
        self.cover('reaching-def-fact')
        if last is None:
            ok = any(isinstance(s, (F.Argument, F.FuncDef)) for s in sites)
            seen = 'the value the function was entered with'
        else:
            ok = any(s is last for s in sites)
            seen = last.format().splitlines()[0][:60]
        self.report('reaching-def', ok, {'expr': where, 'read observes': seen, 'definitions listed as reaching': [s.format().splitlines()[0][:40] if hasattr(s, 'format') else type(s).__name__ for s in sites][:6]})

    def size_check(self, bound, v, where):
        from fpy2.analysis.array_size import ListSize, TupleSize
        if isinstance(bound, ListSize):
            if not isinstance(v, list):
                self.report('size', False, {'expr': where, 'reported': 'a list', 'observed': type(v).__name__}); return
            if isinstance(bound.size, int):
                self.cover('size-fact')
                self.report('size', len(v) == bound.size, {'expr': where, 'reported length': bound.size, 'observed length': len(v)})
            elif bound.size is not None:
                key = str(bound.size)
                if key in self.sizevars:
                    self.cover('size-variable-shared')
                    self.report('size', self.sizevars[key][0] == len(v), {'expr': where, 'shares size variable with': self.sizevars[key][1], 'lengths': [self.sizevars[key][0], len(v)]})
                else:
                    self.sizevars[key] = (len(v), where)
            for x in v:
                self.size_check(bound.elt, x, where + '[*]')
        elif isinstance(bound, TupleSize):
            if isinstance(v, tuple) and len(v) == len(bound.elts):
                for b, x in zip(bound.elts, v):
                    self.size_check(b, x, where + '.*')

    def check_entry(self, f, args):
        """facts about the arguments themselves (sizes / shared size variables of the parameter definitions) hold at entry"""
        A = self.A
        if 'size' not in A:
            return
        from fpy2.ast import fpyast as F
        by_name = {}
        for d, b in A['size'].by_def.items():
            if isinstance(getattr(d, 'site', None), F.Argument) and b is not None:
                by_name[str(d.name)] = b
        for arg, v in zip(f.ast.args, args):
            b = by_name.get(str(arg.name))
            if b is not None:
                self.size_check(b, v, 'argument ' + str(arg.name))

    def __call__(self, e, v):
        A = self.A
        where = e.format()[:60]
        if 'defuse' in A and type(e).__name__ == 'Var':
            self.defuse_check(e, where)
        if 'type' in A and e in A['type'].by_expr:
            ok = shape_ok(A['type'].by_expr[e], v)
            if ok is not None:
                self.cover('type-fact')
                self.report('type', ok, {'expr': where, 'inferred': str(A['type'].by_expr[e])[:60], 'observed': type(v).__name__})
        if 'size' in A and A['size'].by_expr.get(e) is not None:
            self.size_check(A['size'].by_expr[e], v, where)
        if 'class' in A and A['class'].by_expr.get(e) is not None:
            self.class_check(A['class'].by_expr[e], v, where)
        if 'const' in A and e in A['const'].by_expr:
            self.const_check(A['const'].by_expr[e], v, where)
        if 'alias' in A and isinstance(v, list):
            reg = A['alias'].region_of_expr(e)
            if reg is not None:
                prev = self.objects.get(id(v))
                if prev is not None and prev[2] is v:
                    self.cover('alias-same-object')
                    self.report('alias', prev[0] is reg, {'expr': where, 'same list object as': prev[1], 'regions differ': prev[0] is not reg})
                else:
                    self.objects[id(v)] = (reg, where, v)
        return v

    # -- numeric facts: symbolic or concrete -----------------------------------------------------------------
    def class_check(self, cls, v, where):
        from fpy2.analysis.value_class import ValueClass
        from fractions import Fraction
        from fpy2 import Float
        import z3
        if isinstance(v, bool) or not isinstance(v, (Float, Fraction, int)):
            return
        if cls != ValueClass.TOP:
            self.cover('class-fact-narrow')
        if isinstance(v, Float) and v.isnan:
            ok = bool(cls & ValueClass.NAN)
        elif isinstance(v, Float) and v.isinf:
            ok = bool(cls & ValueClass.INF)
        else:
            zero = self.is_zero(v)
            if zero is True:
                ok = bool(cls & ValueClass.ZERO)
            elif zero is False:
                ok = bool(cls & ValueClass.FINITE)
            else:
                ok = z3.And(z3.Implies(zero, z3.BoolVal(bool(cls & ValueClass.ZERO))), z3.Implies(z3.Not(zero), z3.BoolVal(bool(cls & ValueClass.FINITE))))
        self.report('class', ok, {'expr': where, 'reported classes': str(cls)})

    def is_zero(self, v):
        from fpy2 import Float
        from pysym.core import SymInt
        if isinstance(v, Float):
            c = v._real._c if hasattr(v, '_real') else v.c
            if type(c) is SymInt:
                return c.t == 0
            return c == 0
        return v == 0

    def const_check(self, k, v, where):
        self.cover('constant-fact')
        k = _exact(k)
        try:
            ok = tv.eqv(k, v) if self.symbolic else tv.conc_eq(k, v)
        except Exception as ex:  # noqa
            return
        self.report('constant', ok, {'expr': where, 'reported constant': tv._show(k) if not isinstance(k, (bool, type(None))) else str(k)})
    symbolic = True


def run_task(task):
    if task['kind'] == 'special':
        return run_special(task)
    import z3
    from pysym.core import explore
    from . import tracer
    tier = task.get('tier', 'quick'); t = tv.TIER[tier]
    p = next(q for q in corpus.P if q['name'] == task['prog'])
    f, _ = tv.load_program(p)
    A = analyses(f)
    shape = [tuple(c) for c in task['shape']]
    rt = tv.install_runtime()
    C = tv.caller_ctx()
    samples = []
    notes = [('%s: %s' % (k, v)) for k, v in A.items() if k.endswith('_rejected')][:2]

    def setup(e):
        return (tv.SymArgs(e, shape, t['CW'], C),)

    def run(e, sa):
        facts = {'n': 0}

        def report(kind, ok, info):
            facts['n'] += 1
            if ok is True:
                return
            e.require(ok if ok is not False else False, info=dict(info, fact=kind), tag=kind)

        def cover(w):
            e.cover(w, True)
        pending = []
        ck = Checker(A, lambda kind, ok, info: pending.append((kind, ok, info)), cover)
        try:
            built = sa.build()
            ck.check_entry(f, built)
            tracer.run_traced(rt, f, built, C, ck)
        except Exception as ex:  # noqa  the analyses describe executions in which every operation has a result
            e.cover('run-raised', True)
            return
        for kind, ok, info in pending:
            report(kind, ok, info)
        if len(samples) < 2:
            samples.append({'task': task['name'], 'facts_decided_on_this_path': facts['n'], 'example_arguments': e.model_inputs()})
    eng = explore(run, setup, W=t['W'], bl_max=t['W'] - 6, max_paths=3000)
    cexs = []
    for cx in eng.cex:
        if cx.get('unknown') or cx.get('inputs') is None:
            cexs.append({'case': None})
        else:
            tt = {k: v for k, v in task.items() if k not in ('name', 'cost')}
            cexs.append({'case': {'task': tt, 'inputs': cx['inputs'], 'fact': cx.get('tag'), 'info': str(cx.get('info'))[:300]}, 'failed_obligations': cx.get('failed_obligations')})
    return dict(paths=eng.paths, decisions=eng.decisions, queries=eng.checks, unsat=eng.unsat, sat=eng.sat, unknown=eng.unknown, solve_s=eng.solve_s, requires=eng.requires,
                aborted=eng.aborted, witness=eng.witness, notes=eng.notes + notes, cex=cexs, samples=samples, extra={'programs': 1})


def concrete_violations(p, args, C):
    """traced run with the real operations on concrete arguments; list of (kind, info) for facts that do not hold"""
    from fpy2.interpret import byte
    from . import tracer
    f, _ = tv.load_program(p)
    A = analyses(f)
    bad = []
    seen = {'n': 0}

    def report(kind, ok, info):
        seen['n'] += 1
        if ok is not True:
            bad.append((kind, info))
    ck = Checker(A, report, lambda w: None)
    ck.symbolic = False
    try:
        ck.check_entry(f, args)
        tracer.run_traced(byte.BytecodeInterpreter(), f, args, C, ck)
    except Exception:  # noqa  a run that raises is not described by the analyses
        return [], 0
    return bad, seen['n']


def run_special(task):
    import random
    from . import c04
    rng = random.Random(4242)
    cex = []; n = 0; facts = 0
    for p in _programs('quick'):
        if not any(a == 'real' or a[0] == 'list' for a in p['args']) or 'no_special' in p['tags']:
            continue        # no_special: a loop bounded by an argument does not terminate on +inf
        for idx_args in c04.concrete_cases(p, rng, 8):
            bad, k = concrete_violations(p, c04.build_concrete(idx_args), tv.caller_ctx())
            n += 1; facts += k
            if bad:
                cex.append({'case': {'task': {'kind': 'special', 'prog': p['name']}, 'inputs': {'args': idx_args}, 'fact': bad[0][0], 'info': str(bad[0][1])[:300]}})
    return dict(paths=0, requires=0, cex=cex, samples=[{'task': task['name'], 'concrete_runs': n, 'facts_checked': facts, 'concrete': True}], witness={'concrete-special': n},
                extra={'diff_runs': n, 'concrete_special_runs': n, 'concrete_facts_checked': facts})


def describe(tier):
    R = '/repo/fpy2/analysis/'
    return dict(
        functions=['TypeInfer.check (by_expr)', 'ArraySizeInfer.analyze (by_expr: static lengths and shared size variables)', 'ValueClassInfer.analyze (by_expr)', 'PartialEval.apply (by_expr)', 'Alias.analyze (region_of_expr)',
                   'DefineUse / ReachingDefs / ContextUse (through the analyses above)', 'interpret.byte.BytecodeCompiler via a tracing subclass + the compiled program on symbolic arguments'],
        files=[R + f for f in ('type_infer.py', 'array_size.py', 'value_class.py', 'partial_eval.py', 'define_use.py', 'reaching_defs.py', 'alias.py', 'context_use.py')] + ['/repo/fpy2/types.py', '/repo/fpy2/utils/unionfind.py', '/repo/fpy2/interpret/byte.py'],
        bounds=dict(programs=len(_programs(tier)), argument_significand_bits=tv.TIER[tier]['CW'], argument_exponent=tv.EXP0, list_lengths='as listed per program', caller_context='MPSFloatContext(4, -3)'),
        outside=['programs outside the corpus', 'reaching definitions of comprehension targets and `with ... as` names (reads of assigned names, loop targets, indexed assignments and arguments are checked)',
                 'escape, purity, liveness (checked through their consumers: C07, C09)', 'NaN / infinite values on symbolic paths (concrete table only)', 'facts about callees (only the entry function is traced)'],
        stubs=['validated operation summaries; int / Fraction proxies; number formatting'],
        assumptions=['a run that raises gives no fact for the operations it did not complete (the analyses\' stated soundness assumption)'],
        rule='one case = one feasible path of a traced program; every traced expression on it is confronted with every fact reported for it',
        explanation='analyses run concretely, the program runs symbolically under a tracing compiler, the solver looks for an input contradicting a reported numeric fact',
    )
