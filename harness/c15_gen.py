"""
Exhaustive generator of small FPy program texts for C15 (shared with the replay module).

Statements (names a, b; loop / comprehension target i; parameter x):
  atoms      a += x | a = x | a = b | a = i | b = x | b = a | b = i | a, b = x, x | a = [i for i in xs] | a = [b for i in xs]
             a = [i for i in i] | b = [a for a, b in zip(b, xs)]
             return x | return a | return b | return i | pass
  compound   if <c> > 0: B            one-armed
             if <c> > 0: B else: B
             for i in range(<n>): B
             for a in xs: B
             for a, b in zip(xs, xs): B
             while <t> < 2: <t> = <t> + 1 ; B     (the counter update is part of the construct, not counted)
             with C3: B
             with C3 as b: B
Every occurrence of a condition / trip-count / counter gets ITS OWN parameter (c0, c1, ..; n0, ..; t0, ..), so the
branch outcomes and trip counts of different constructs are independent inputs.
size(program) = number of statements, a compound statement counting 1 + its children; depth <= 2.
"""
import itertools

ATOMS = ['a += x', 'a = x', 'a = b', 'a = i', 'b = x', 'b = a', 'b = i', 'a, b = x, x', 'a = [i for i in xs]', 'a = [b for i in xs]',
         'a = [i for i in i]', 'b = [a for a, b in zip(b, xs)]',          # an iterable that reads the comprehension's own target
         'return x', 'return a', 'return b', 'return i', 'pass']
# a smaller statement set for exhaustive enumeration at sizes 4 and 5 (exits nested under with / loops / both arms, names introduced in one arm)
R_ATOMS = ['a = x', 'b = a', 'return x', 'return a']
R_COMPOUND = ['if1', 'if2', 'while', 'with', 'forr']
COMPOUND = ['if1', 'if2', 'forr', 'forl', 'forz', 'while', 'with', 'withas']


def _blocks(size, depth, G=None):
    """all statement lists (as nested tuples) of exactly `size` statements, nesting at most `depth` compound levels"""
    if size == 0:
        yield ()
        return
    # first statement takes k statements, the rest size-k
    for k in range(1, size + 1):
        for first in _stmts(k, depth, G):
            for rest in _blocks(size - k, depth, G):
                yield (first,) + rest


def _nonempty_blocks(size, depth, G=None):
    if size >= 1:
        yield from _blocks(size, depth, G)


def _stmts(size, depth, G=None):
    atoms, compound = G or (ATOMS, COMPOUND)
    if size == 1:
        for a in atoms:
            yield ('atom', a)
        return
    if depth == 0:
        return
    inner = size - 1
    for kind in compound:
        if kind == 'if2':
            for k in range(1, inner):
                for b1 in _nonempty_blocks(k, depth - 1, G):
                    for b2 in _nonempty_blocks(inner - k, depth - 1, G):
                        yield (kind, b1, b2)
        else:
            for b in _nonempty_blocks(inner, depth - 1, G):
                yield (kind, b)


def count(size, depth=2, restricted=False):
    return sum(1 for _ in _blocks(size, depth, (R_ATOMS, R_COMPOUND) if restricted else None))


def render(body):
    """program text + parameter list for a body (tuple of statements)"""
    ctr = {'c': 0, 'n': 0, 't': 0}
    lines = []

    def fresh(k):
        v = '%s%d' % (k, ctr[k]); ctr[k] += 1
        return v

    def blk(b, ind):
        for s in b:
            stmt(s, ind)

    def stmt(s, ind):
        pad = '    ' * ind
        k = s[0]
        if k == 'atom':
            lines.append(pad + s[1])
        elif k == 'if1':
            lines.append(pad + 'if %s > 0:' % fresh('c')); blk(s[1], ind + 1)
        elif k == 'if2':
            lines.append(pad + 'if %s > 0:' % fresh('c')); blk(s[1], ind + 1)
            lines.append(pad + 'else:'); blk(s[2], ind + 1)
        elif k == 'forr':
            lines.append(pad + 'for i in range(%s):' % fresh('n')); blk(s[1], ind + 1)
        elif k == 'forl':
            lines.append(pad + 'for a in xs:'); blk(s[1], ind + 1)
        elif k == 'forz':
            lines.append(pad + 'for a, b in zip(xs, xs):'); blk(s[1], ind + 1)
        elif k == 'while':
            t = fresh('t')
            lines.append(pad + 'while %s < 2:' % t); lines.append(pad + '    %s = %s + 1' % (t, t)); blk(s[1], ind + 1)
        elif k == 'with':
            lines.append(pad + 'with C3:'); blk(s[1], ind + 1)
        elif k == 'withas':
            lines.append(pad + 'with C3 as b:'); blk(s[1], ind + 1)
        else:
            raise ValueError(k)
    blk(body, 1)
    params = ['x'] + ['c%d' % j for j in range(ctr['c'])] + ['t%d' % j for j in range(ctr['t'])] + ['n%d' % j for j in range(ctr['n'])]
    uses_xs = any('xs' in ln for ln in lines)
    sig = ', '.join(['%s: fp.Real' % p for p in params if p[0] in 'xct'] + ['%s: int' % p for p in params if p[0] == 'n'] + (['xs: list[fp.Real]'] if uses_xs else []))
    src = '@fp.fpy\ndef f(%s):\n%s\n' % (sig, '\n'.join(lines))
    return src, params, uses_xs


def programs(size, depth=2):
    for body in _blocks(size, depth):
        yield body


def nth_programs(size, start, stop, depth=2, restricted=False):
    return itertools.islice(_blocks(size, depth, (R_ATOMS, R_COMPOUND) if restricted else None), start, stop)


def random_body(rng, size, depth=2):
    """a uniformly structured random body of the given size (for sizes beyond the exhaustive bound)"""
    def block(sz, d):
        out = []
        while sz > 0:
            k = rng.randint(1, sz) if d > 0 else 1
            out.append(stmt(k, d)); sz -= k
        return tuple(out)

    def stmt(sz, d):
        if sz == 1 or d == 0:
            return ('atom', rng.choice(ATOMS))
        kind = rng.choice(COMPOUND)
        inner = sz - 1
        if kind == 'if2':
            if inner < 2:
                kind = 'if1'
            else:
                k = rng.randint(1, inner - 1)
                return (kind, block(k, d - 1), block(inner - k, d - 1))
        return (kind, block(inner, d - 1))
    if size >= 2 and rng.random() < 0.85:
        # most programs of the full grammar fall off their end and are rejected at once: end with a return
        return block(size - 1, depth) + (('atom', rng.choice(['return x', 'return a', 'return b', 'return a', 'return b', 'return i'])),)
    return block(size, depth)
