"""
C19 — Sites, indices and cursors name exactly what they say.

Decided symbolically: the index arithmetic of cursor forwarding (`cursor._forward_stmt`, `_forward_block`, `_overlaps`,
`path.beneath`) for up to three disjoint edits with *symbolic* (index, removed, inserted), a symbolic cursor index,
flat and one level nested.  Oracle: the splice semantics of "replace old[index:index+removed] by `inserted` new
statements" — order-preserving placement of survivors and inserted runs.

Checked concretely (finite, no symbolic quantity; labelled concrete): the `where` / sites / refusals bookkeeping of
the aimable strategies and forwarding of real cursors across real strategy sequences on a program corpus
(harness/c19_prog.py).
"""
import os

PROPERTY = 'C19'
LEVEL = 'model_checking'
BUDGET_S = {'quick': 3600, 'thorough': 14400}

TIER = {'quick': dict(L=6, R=2, NE=3, W=16), 'thorough': dict(L=10, R=3, NE=3, W=16)}


def tasks(tier, seed):
    ts = []
    for ne in range(0, TIER[tier]['NE'] + 1):
        ts.append(dict(kind='flat', name='flat/edits%d' % ne, ne=ne))
        ts.append(dict(kind='order', name='order/edits%d' % ne, ne=ne))
    for shape in ('same-sub', 'other-parent', 'other-field', 'parent-consumed'):
        ts.append(dict(kind='nested', name='nested/%s' % shape, shape=shape))
    ts.append(dict(kind='overlaps', name='overlaps/same-block'))
    ts.append(dict(kind='overlaps_nested', name='overlaps/nested'))
    from . import c19_prog
    ts += c19_prog.tasks(tier, seed)
    return ts


def required_witnesses(tier):
    from . import c19_prog
    return ['cursor-before-all', 'cursor-after-edit', 'cursor-consumed', 'pure-insertion-at-cursor', 'deleted', 'nested-shifted-parent', 'nested-parent-consumed',
            'overlap-true', 'overlap-false'] + c19_prog.WITNESSES


def describe(tier):
    t = TIER[tier]
    R = '/repo/fpy2/'
    return dict(
        functions=['transform.cursor._forward_stmt', 'transform.cursor._forward_block', 'transform.cursor._overlaps', 'transform.cursor.Edit', 'transform.path.beneath/StmtPath/SubBlock/FuncBody',
                   'strategies.* sites / refusals / where (concrete corpus)', 'Function.forward / EditLog.forward (concrete corpus)'],
        files=[R + 'transform/cursor.py', R + 'transform/path.py', R + 'transform/utils.py', R + 'transform/error.py', R + 'strategies/sites.py', R + 'function.py'],
        bounds=dict(block_length_max=t['L'], removed_inserted_max=t['R'], edits_max=t['NE'], nesting='one level', engine_width=t['W']),
        outside=['more than three edits per pass / deeper nesting in the symbolic part', 'expression cursors (ExprPath rebasing) beyond the concrete corpus', 'strategy sequences longer than those in the corpus'],
        stubs=['module-level `range` in cursor.py rebound to a concretising pass-through (the builtin reads raw digits of an int subclass)'],
        assumptions=['edits are disjoint in the sense of the EditLog invariant (no edit starts inside the span another consumed)'],
        rule='one case = one feasible path of the forwarding arithmetic for a configuration of symbolic edits and cursor',
        explanation='bounded model checking of index arithmetic; site bookkeeping on a concrete corpus',
    )


def run_task(task):
    if task['kind'] == 'prog':
        from . import c19_prog
        return c19_prog.run_task(task)
    import z3
    from pysym.core import explore, SymInt, bv
    from fpy2.transform import cursor as C
    from fpy2.transform.path import FuncBody, SubBlock, StmtPath
    from fpy2.transform.error import TransformReferenceError
    from pysym import shims
    shims.install_range_pass(C)
    tier = task.get('tier', 'quick'); t = TIER[tier]
    L, R, W = t['L'], t['R'], t['W']
    samples = []
    kind = task['kind']

    def mk_edit_vars(e, tag):
        return e.fresh('i' + tag, 0, L), e.fresh('r' + tag, 0, R), e.fresh('n' + tag, 0, R)

    def disjoint(a, b):
        (ia, ra, _), (ib, rb, _) = a, b
        in_a = z3.And(ib.t >= ia.t, ib.t < ia.t + ra.t)
        in_b = z3.And(ia.t >= ib.t, ia.t < ib.t + rb.t)
        return z3.Not(z3.Or(in_a, in_b))

    def image(i, evs):
        """splice semantics: new position of old statement i (a survivor), or of the run that replaced it"""
        pos = i
        for (ie, re_, ne_) in evs:
            pos = pos + z3.If(ie.t + re_.t <= i, ne_.t - re_.t, z3.BitVecVal(0, W))
        return pos

    def consumed_by(i, ev):
        ie, re_, _ = ev
        return z3.And(i >= ie.t, i < ie.t + re_.t)

    if kind in ('flat', 'order'):
        ne = task['ne']

        def setup(e):
            evs = [mk_edit_vars(e, str(k)) for k in range(ne)]
            return evs, e.fresh('c', 0, L - 1), e.fresh('d', 0, L - 1), e.fresh('len', 1, L)

        def run(e, evs, c, d, ln):
            e.assume(z3.And(c.t < ln.t, d.t < ln.t))
            for k, ev in enumerate(evs):
                e.assume(ev[0].t + ev[1].t <= ln.t)
                for ev2 in evs[:k]:
                    e.assume(disjoint(ev, ev2))
            edits = tuple(C.Edit(FuncBody(), ev[0], ev[1], ev[2]) for ev in evs)
            path = StmtPath(FuncBody(), c)
            try:
                block, idx, edit = C._forward_stmt(path, edits, path)
            except Exception as ex:  # noqa
                e.require(False, info={'raised': repr(ex)[:150]}); return
            cons = [consumed_by(c.t, ev) for ev in evs]
            any_c = z3.Or(*cons) if cons else z3.BoolVal(False)
            e.cover('cursor-before-all', z3.And(*[c.t < ev[0].t for ev in evs]) if evs else True)
            e.cover('cursor-after-edit', z3.Or(*[z3.And(ev[0].t + ev[1].t <= c.t, ev[1].t != ev[2].t) for ev in evs]) if evs else False)
            e.cover('cursor-consumed', any_c)
            e.cover('pure-insertion-at-cursor', z3.Or(*[z3.And(ev[1].t == 0, ev[0].t == c.t, ev[2].t > 0) for ev in evs]) if evs else False)
            e.cover('deleted', z3.Or(*[z3.And(cons[k], evs[k][2].t == 0) for k in range(len(evs))]) if evs else False)
            if edit is None:
                post = z3.And(z3.Not(any_c), bv(idx) == image(c.t, evs), z3.BoolVal(isinstance(block, FuncBody)))
            else:
                k = [j for j, ed in enumerate(edits) if ed is edit]
                if len(k) != 1:
                    e.require(False, info={'returned an unknown edit'}); return
                k = k[0]
                # the statement was consumed by edit k; it lands at the start of the run that replaced it
                post = z3.And(cons[k], bv(idx) == image(evs[k][0].t, [ev for j, ev in enumerate(evs) if j != k]), z3.BoolVal(isinstance(block, FuncBody)))
            if kind == 'order':
                # a second cursor: survivors keep their order, never collide, and never land inside an inserted run
                p2 = StmtPath(FuncBody(), d)
                try:
                    b2, idx2, edit2 = C._forward_stmt(p2, edits, p2)
                except Exception as ex:  # noqa
                    e.require(False, info={'raised': repr(ex)[:150]}); return
                newlen = ln.t
                for ev in evs:
                    newlen = newlen - ev[1].t + ev[2].t
                if edit is None and edit2 is None:
                    post = z3.And(post, (c.t < d.t) == (bv(idx) < bv(idx2)), (c.t == d.t) == (bv(idx) == bv(idx2)), bv(idx) >= 0, bv(idx) < newlen)
                if edit is None and edit2 is not None:
                    # survivor vs a replaced run [idx2, idx2 + inserted): the survivor is outside the run, on the right side
                    run_len = bv(edit2.inserted)
                    post = z3.And(post, z3.Or(bv(idx) < bv(idx2), bv(idx) >= bv(idx2) + run_len), (c.t < d.t) == (bv(idx) < bv(idx2)) if True else True)
            ok = e.require(post, info={'edits': ne})
            if len(samples) < 2:
                samples.append({'task': task['name'], 'example': e.model_inputs(), 'proved': ok})
        eng = explore(run, setup, W=W, bl_max=W - 4)

    elif kind == 'nested':
        shape = task['shape']

        def setup(e):
            return (mk_edit_vars(e, 'a'), mk_edit_vars(e, 'b'), mk_edit_vars(e, 's'), e.fresh('p', 0, L - 1), e.fresh('q', 0, L - 1), e.fresh('c', 0, L - 1))

        def run(e, ea, eb, es, p, q, c):
            e.assume(disjoint(ea, eb))
            parent = StmtPath(FuncBody(), p)
            sub = SubBlock(parent, 'body')
            if shape == 'same-sub':
                sub_edit_block = SubBlock(StmtPath(FuncBody(), p), 'body')
            elif shape == 'other-parent':
                e.assume(q.t != p.t)
                sub_edit_block = SubBlock(StmtPath(FuncBody(), q), 'body')
            elif shape == 'other-field':
                sub_edit_block = SubBlock(StmtPath(FuncBody(), p), 'iff')
            else:
                sub_edit_block = SubBlock(StmtPath(FuncBody(), p), 'body')
            edits = (C.Edit(FuncBody(), *ea), C.Edit(FuncBody(), *eb), C.Edit(sub_edit_block, *es))
            pc = z3.Or(consumed_by(p.t, ea), consumed_by(p.t, eb))
            if shape == 'parent-consumed':
                e.assume(pc)
            else:
                e.assume(z3.Not(pc))
            path = StmtPath(sub, c)
            raised = None
            try:
                block, idx, edit = C._forward_stmt(path, edits, path)
            except TransformReferenceError:
                raised = True
            except Exception as ex:  # noqa
                e.require(False, info={'raised': repr(ex)[:150]}); return
            if shape == 'parent-consumed':
                e.cover('nested-parent-consumed', True)
                e.require(z3.BoolVal(bool(raised)), info={'shape': shape}); return
            if raised:
                e.require(False, info={'raised TransformReferenceError although the parent survived'}); return
            newp = image(p.t, [ea, eb])
            e.cover('nested-shifted-parent', newp != p.t)
            ok_block = isinstance(block, SubBlock) and block.field == 'body' and isinstance(block.parent.parent, FuncBody)
            if not ok_block:
                e.require(False, info={'wrong block shape'}); return
            own = [es] if shape == 'same-sub' else []
            if edit is None:
                post = z3.And(bv(block.parent.index) == newp, bv(idx) == image(c.t, own), z3.Not(z3.Or(*[consumed_by(c.t, ev) for ev in own])) if own else z3.BoolVal(True))
            else:
                post = z3.And(bv(block.parent.index) == newp, z3.BoolVal(shape == 'same-sub'), consumed_by(c.t, es), bv(idx) == es[0].t)
            ok = e.require(post, info={'shape': shape})
            if len(samples) < 2:
                samples.append({'task': task['name'], 'example': e.model_inputs(), 'proved': ok})
        eng = explore(run, setup, W=W, bl_max=W - 4)

    elif kind == 'overlaps':
        def setup(e):
            return mk_edit_vars(e, 'a'), mk_edit_vars(e, 'b')

        def run(e, ea, eb):
            a = C.Edit(FuncBody(), *ea); b = C.Edit(FuncBody(), *eb)
            try:
                got = bool(C._overlaps(a, b))
            except Exception as ex:  # noqa
                e.require(False, info={'raised': repr(ex)[:150]}); return
            e.cover('overlap-true' if got else 'overlap-false', True)
            ok = e.require(z3.BoolVal(got) == z3.Not(disjoint(ea, eb)), info={'overlaps': got})
            if len(samples) < 2:
                samples.append({'task': task['name'], 'example': e.model_inputs(), 'overlaps': got, 'proved': ok})
        eng = explore(run, setup, W=W, bl_max=W - 4)

    else:   # overlaps_nested: b lies in a block beneath a statement a consumed
        def setup(e):
            return mk_edit_vars(e, 'a'), mk_edit_vars(e, 'b'), e.fresh('p', 0, L - 1)

        def run(e, ea, eb, p):
            a = C.Edit(FuncBody(), *ea); b = C.Edit(SubBlock(StmtPath(FuncBody(), p), 'body'), *eb)
            try:
                got = bool(C._overlaps(a, b)); got_rev = bool(C._overlaps(b, a))
            except Exception as ex:  # noqa
                e.require(False, info={'raised': repr(ex)[:150]}); return
            ok = e.require(z3.And(z3.BoolVal(got) == consumed_by(p.t, ea), z3.BoolVal(not got_rev)), info={'overlaps': got})
            if len(samples) < 2:
                samples.append({'task': task['name'], 'example': e.model_inputs(), 'proved': ok})
        eng = explore(run, setup, W=W, bl_max=W - 4)

    cexs = []
    for cx in eng.cex:
        if cx.get('unknown') or cx.get('inputs') is None:
            cexs.append({'case': None})
        else:
            tt = {k: v for k, v in task.items() if k not in ('name', 'cost')}
            cexs.append({'case': {'task': tt, 'inputs': cx['inputs'], 'info': str(cx.get('info'))}, 'failed_obligations': cx.get('failed_obligations')})
    return dict(paths=eng.paths, decisions=eng.decisions, queries=eng.checks, unsat=eng.unsat, sat=eng.sat, unknown=eng.unknown,
                solve_s=eng.solve_s, requires=eng.requires, aborted=eng.aborted, witness=eng.witness, notes=eng.notes, cex=cexs, samples=samples)
