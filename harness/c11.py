"""
C11 — Compiled C++ agrees with the interpreter (as far as a solver can see it).

The real `CppCompiler` runs concretely on each corpus program under every option set (optimize x unbox x arrays); the emitted
translation unit (prelude + functions) is parsed by clang (`clang++ -fsyntax-only -Xclang -ast-dump=json`), and clang's AST — with
its implicit conversions and resolved overloads — is evaluated by spec/cpp_eval.py on SYMBOLIC arguments under IEEE 754 / C++
semantics (each floating operation rounds once to its static type in the current dynamic rounding mode; fesetround / fegetround
change and read that mode; std::vector copies).  The FPy function runs through the real interpreter on the same arguments and z3
decides, on every joint path, that both return the same value (bits of every number incl. the sign of zero, booleans, list
lengths and elements, tuple fields).

What this does NOT decide: that g++ / the C library implement those semantics (the property's premise "operations a C++
toolchain rounds correctly"), optimisation levels of the C++ compiler, or programs whose emitted code leaves the evaluator's
subset (shared_ptr handles, std::array, tuples of lists ... are reported as outside the claim, not as passes).
"""
PROPERTY = 'C11'
LEVEL = 'translation_validation'
BUDGET_S = {'quick': 3600, 'thorough': 14400}

import json
import os
import subprocess
import tempfile

from . import tv, corpus_cpp

CW = {'quick': 4, 'thorough': 5}
FAR_APART = ('scalar_modes', 'nested_restore', 'call_from_integer_block_under_mode')
OPTIONS = [dict(optimize=o, unbox=u, arrays=a) for o in (False, True) for u in ('STRICT', 'ALLOW', 'NEVER') for a in (True, False)]


def _shape_name(shape):
    return '-'.join(str(c[-1]) if len(c) > 1 else 'r' for c in shape)


def tasks(tier, seed):
    ts = []
    for p in corpus_cpp.P:
        for shape in tv.arg_shapes(p, tier):
            ts.append(dict(kind='prog', name='prog/%s/%s' % (p['name'], _shape_name(shape)), prog=p['name'], shape=[list(c) for c in shape], cost=2 + sum(c[1] if c[0] == 'list' else 1 for c in shape)))
            # operands far apart: with 4-bit half-integers every binary64 / binary32 operation of these programs is exact and the
            # hardware rounding mode never matters; the last real argument at 2^55 (2^26 for binary32 arguments) makes sums inexact
            # only the programs z3 decides robustly at this width (the others — mode_in_branch, entry_rtz, float_double_mix,
            # early_return_under_mode — leave a 240-bit postcondition undecided under load; they are not claimed far apart)
            if 'modes' in p['tags'] and p['name'] in FAR_APART and sum(1 for c in shape if c[0] == 'real') >= 2:
                far = 26 if 'FP32' in p.get('argfmt', 'fp.FP64') else 55
                last = max(i for i, c in enumerate(shape) if c[0] == 'real')
                sh2 = [list(c) for c in shape]; sh2[last] = ['real', far]
                ts.append(dict(kind='prog', name='prog/%s/%s-far' % (p['name'], _shape_name(shape)), prog=p['name'], shape=sh2, cost=4 + sum(c[1] if c[0] == 'list' else 1 for c in shape)))
    ts.append(dict(kind='special', name='concrete/special-arguments', cost=6))
    return ts


def required_witnesses(tier):
    return ['returns', 'rounding-mode-switch', 'narrowing-cast', 'list-value-semantics', 'option-sets-differ', 'concrete-special']


# ---- the objects under test ------------------------------------------------------------------------------------------------------------
def entry_ctx(p):
    import fpy2 as fp
    return eval(p.get('ctx', 'fp.FP64'), dict(corpus_cpp.namespace(), fp=fp))  # noqa: S307


def arg_types(p, shape):
    import fpy2 as fp
    from fpy2.types import RealType, ListType
    aty = eval(p.get('argfmt', 'fp.FP64'), dict(corpus_cpp.namespace(), fp=fp))  # noqa: S307
    out = []
    for c in shape:
        if c[0] == 'list':
            out.append(ListType(RealType(aty), c[1]))          # the length is known: arrays=True may then choose std::array
        else:
            out.append(RealType(aty))
    return out


def load_prog(p, shape):
    from . import progs
    import fpy2 as fp
    g = progs.load(p['src'] + '# c11 ' + p['name'] + _shape_name(shape), dict(corpus_cpp.namespace()))
    return g[p['entry']], {k: v for k, v in g.items() if isinstance(v, fp.Function)}


def emit(p, f, shape, opt):
    """the real compiler; returns the translation unit text or ('declined', reason)"""
    from fpy2.backend.cpp import CppCompiler
    cc = CppCompiler(optimize=opt['optimize'], unbox=getattr(CppCompiler.UnboxMode, opt['unbox']), arrays=opt['arrays'])
    try:
        body = cc.compile(f, ctx=entry_ctx(p), arg_types=arg_types(p, shape))
    except Exception as ex:  # noqa   the backend does not accept this program under these options: nothing is claimed about it
        return ('declined', '%s: %s' % (type(ex).__name__, str(ex)[:160]))
    return cc.prelude() + '\n' + body + '\n'


def clang_functions(text, prefix='zq_'):
    """clang's AST (JSON) of every function whose name starts with `prefix` (and of the fpy:: helpers)"""
    out = {}
    with tempfile.TemporaryDirectory(prefix='verif_c11_') as d:
        src = os.path.join(d, 'tu.cpp')
        open(src, 'w').write(text)
        for flt in (prefix, 'fpy::'):
            r = subprocess.run(['clang++-14', '-std=c++17', '-fsyntax-only', '-Xclang', '-ast-dump=json', '-Xclang', '-ast-dump-filter=' + flt, src], capture_output=True, text=True, timeout=300)
            if r.returncode != 0:
                raise RuntimeError('clang rejected the emitted code: ' + r.stderr[-400:])
            dec = json.JSONDecoder(); i = 0; txt = r.stdout
            while i < len(txt):
                while i < len(txt) and txt[i].isspace():
                    i += 1
                if i >= len(txt):
                    break
                doc, i = dec.raw_decode(txt, i)
                if doc.get('kind') == 'FunctionDecl' and any(x.get('kind') == 'CompoundStmt' for x in doc.get('inner', [])):
                    out[doc['name']] = doc
    return out


def variants_of(task):
    """[(label, text, {name: FunctionDecl})] for the distinct emitted texts, plus the list of declined option sets"""
    p = next(q for q in corpus_cpp.P if q['name'] == task['prog'])
    shape = [tuple(c) for c in task['shape']]
    f, funcs = load_prog(p, shape)
    seen = {}; declined = []
    for opt in OPTIONS:
        lab = 'optimize=%s,unbox=%s,arrays=%s' % (opt['optimize'], opt['unbox'], opt['arrays'])
        t = emit(p, f, shape, opt)
        if isinstance(t, tuple):
            declined.append((lab, t[1])); continue
        seen.setdefault(t, []).append(lab)
    out = []
    for text, labs in seen.items():
        lab = labs[0] if len(labs) == 1 else '%s (+%d option sets with the same text)' % (labs[0], len(labs) - 1)
        try:
            out.append((lab, text, clang_functions(text)))
        except RuntimeError as ex:
            out.append((lab, text, ('rejected', str(ex)[-300:])))       # the emitted text is not C++: reported as a violation
    return p, f, out, declined


def num_helpers():
    from . import c12, c04
    d = dict(c12.num_helpers())
    d['rational'] = c04.num_helpers()['rational']
    return d


def make_ieee(es, nbits, rm):
    import fpy2 as fp
    return fp.IEEEContext(es, nbits, getattr(fp.RM, rm))


def make_eval(fdecls, S, mode):
    from spec.cpp_eval import CppEval
    prim = dict(add=S['add'], sub=S['sub'], mul=S['mul'], fma=S['fma'], neg=S['neg'], abs=S['fabs'], round=S['round'])
    return CppEval(fdecls, prim, num_helpers(), make_ieee, mode)


def cpp_args(fdecl, args):
    """host arguments for the compiled entry: a list parameter of shared_ptr type receives a fresh handle"""
    from spec.cpp_eval import Ptr
    params = [n for n in fdecl.get('inner', []) if n.get('kind') == 'ParmVarDecl']
    out = []
    for prm, a in zip(params, args):
        if isinstance(a, list):
            a = list(a)
            if 'shared_ptr' in prm['type']['qualType']:
                a = Ptr(a)
        out.append(a)
    return out


def norm(v):
    if type(v).__name__ == 'Ptr':
        v = v.obj
    if isinstance(v, (list, tuple)):
        return tuple(norm(x) for x in v)
    return v


def run_task(task):
    if task['kind'] == 'special':
        return run_special(task)
    from pysym.core import explore
    from spec.cpp_eval import Unsupported, Stuck
    from . import c12
    tier = task.get('tier', 'quick')
    shape = [tuple(c) for c in task['shape']]
    p, f, variants, declined = variants_of(task)
    rt = tv.install_runtime()
    S = c12._prims()
    C = entry_ctx(p)
    mode = C.rm.name if hasattr(C, 'rm') and C.rm.name in ('RNE', 'RTZ', 'RTP', 'RTN') else 'RNE'
    samples = []; notes = []
    wit = {}
    texts = ' '.join(t for _, t, _ in variants)
    if 'fesetround' in texts:
        wit['rounding-mode-switch'] = 1
    if 'static_cast<float>' in texts:
        wit['narrowing-cast'] = 1
    if 'std::vector' in texts:
        wit['list-value-semantics'] = 1
    if len(variants) > 1:
        wit['option-sets-differ'] = 1
    outside = set()

    def setup(e):
        return (tv.SymArgs(e, shape, CW[tier], None),)

    def run(e, sa):
        try:
            want = ('ok', norm(rt.eval(f, sa.build(), C, convert=False)))
        except Exception as ex:  # noqa   the interpreter does not return here: nothing for the compiled code to agree with
            return
        for lab, text, fdecls in variants:
            if lab in outside:
                continue
            ev = make_eval(fdecls, S, mode)
            try:
                got = ('ok', norm(ev.call(p['entry'], cpp_args(fdecls[p['entry']], sa.build()))))
            except Unsupported as ex:
                outside.add(lab)
                notes.append('outside the C++ evaluator (%s): %s' % (lab, ex))
                continue
            except Stuck as ex:
                e.require(False, info={'variant': lab, 'compiled code is undefined / aborts': str(ex)}, tag=lab); continue
            try:
                post = tv.eqv(want[1], got[1])
            except NotImplementedError as ex:
                e.require(False, info={'harness': str(ex)}, tag='harness'); continue
            e.cover('returns', True)
            e.require(post, info={'variant': lab}, tag=lab)
        if len(samples) < 2:
            samples.append({'task': task['name'], 'emitted': variants[0][1][-500:] if variants else None, 'example_arguments': e.model_inputs()})
    broken = [(lab, fd[1]) for lab, _t, fd in variants if isinstance(fd, tuple)]
    variants = [v for v in variants if not isinstance(v[2], tuple)]
    if broken:
        tt = {k: v for k, v in task.items() if k not in ('name', 'cost')}
        cexs0 = [{'case': {'task': tt, 'inputs': {}, 'variant': 'does-not-compile', 'info': '%s: %s' % (lab, why[-200:])}} for lab, why in broken[:1]]
        if not variants:
            return dict(paths=0, requires=0, cex=cexs0, samples=[{'task': task['name'], 'note': 'emitted text rejected by clang'}], witness={}, extra={'programs': 1})
    else:
        cexs0 = []
    if not variants:
        return dict(paths=0, requires=0, cex=[], samples=[{'task': task['name'], 'note': 'declined under every option set', 'reasons': declined[:2]}], witness={}, notes=['declined: %s' % declined[0][1] if declined else ''], extra={'programs_declined': 1})
    W = 112 if ('FP64' in p['src'] or 'D_RT' in p['src'] or 'FP64' in p.get('ctx', 'fp.FP64')) else 64       # binary64 significands need the wide vectors
    if any(c[0] == 'real' and len(c) > 1 for c in shape):
        W = 240 if W == 112 else 128       # operands far apart: products of the far operand need twice its exponent again
    eng = explore(run, setup, W=W, bl_max=W - 8, max_paths=3000, timeout_ms=(240000 if W in (176,) or any(c[0] == 'real' and len(c) > 1 for c in shape) else 60000))
    for k, v in wit.items():
        eng.witness[k] = eng.witness.get(k, 0) + v
    cexs = list(cexs0)
    for cx in eng.cex:
        if cx.get('unknown') or cx.get('inputs') is None:
            cexs.append({'case': None})
        else:
            tt = {k: v for k, v in task.items() if k not in ('name', 'cost')}
            cexs.append({'case': {'task': tt, 'inputs': cx['inputs'], 'variant': cx.get('tag'), 'info': str(cx.get('info'))}, 'failed_obligations': cx.get('failed_obligations')})
    return dict(paths=eng.paths, decisions=eng.decisions, queries=eng.checks, unsat=eng.unsat, sat=eng.sat, unknown=eng.unknown, solve_s=eng.solve_s, requires=eng.requires,
                aborted=eng.aborted, witness=eng.witness, notes=eng.notes + notes[:3], cex=cexs, samples=samples,
                extra={'programs': 1, 'emitted_variants': len(variants), 'variants_outside_evaluator': len(outside), 'option_sets_declined': len(declined), 'variants_checked': [v[0] for v in variants if v[0] not in outside]})


# ---- concrete judge ----------------------------------------------------------------------------------------------------------------------
def judge_concrete(task, args):
    from fpy2.interpret import byte
    from spec.cpp_eval import Unsupported, Stuck
    from . import c12
    p, f, variants, declined = variants_of(task)
    C = entry_ctx(p)
    mode = C.rm.name if hasattr(C, 'rm') and C.rm.name in ('RNE', 'RTZ', 'RTP', 'RTN') else 'RNE'
    S = c12._prims()
    info = {}
    try:
        want = norm(byte.BytecodeInterpreter().eval(f, tuple(args), C, convert=False))
    except Exception as ex:  # noqa
        return [], {'interpreter raised': repr(ex)[:120]}
    info['interpreter'] = tv._show(want)
    problems = []
    for lab, text, fdecls in variants:
        if isinstance(fdecls, tuple):
            problems.append(('does-not-compile', 'clang rejects the emitted text (%s): %s' % (lab, fdecls[1][-200:]))); continue
        ev = make_eval(fdecls, S, mode)
        try:
            got = norm(ev.call(p['entry'], cpp_args(fdecls[p['entry']], args)))
        except Unsupported as ex:
            info.setdefault('outside', []).append('%s: %s' % (lab, ex)); continue
        except Stuck as ex:
            problems.append((lab, 'interpreter %s, compiled code undefined: %s' % (tv._show(want), ex))); continue
        except Exception as ex:  # noqa  an operation itself raised
            info.setdefault('outside', []).append('%s: %r' % (lab, ex)); continue
        if not tv.conc_eq(want, got):
            problems.append((lab, 'interpreter %s, compiled code %s' % (tv._show(want), tv._show(got))))
            info['emitted'] = text[-600:]
    return problems, info


def run_special(task):
    import random
    from . import c12
    rng = random.Random(77)
    nv = len(c12.special_values())
    cex = []; n = 0; skipped = 0
    for p in corpus_cpp.P:
        shapes = tv.arg_shapes(p, 'quick')
        for _ in range(4):
            shape = rng.choice(shapes)
            idx = []
            for c in shape:
                if c[0] == 'real':
                    idx.append(rng.randrange(nv))
                elif c[0] == 'list':
                    idx.append([rng.randrange(nv) for _ in range(c[1])])
                else:
                    idx.append(['int', c[1]])
            t = dict(kind='prog', prog=p['name'], shape=[list(c) for c in shape])
            try:
                problems, info = judge_concrete(t, c12.build_concrete(idx))
            except Exception as ex:  # noqa
                skipped += 1; continue
            if 'interpreter raised' in info:
                skipped += 1; continue
            n += 1
            if problems:
                cex.append({'case': {'task': dict(t, special=True), 'inputs': {'args': idx}, 'variant': problems[0][0], 'info': problems[0][1][:200]}})
    return dict(paths=0, requires=0, cex=cex, samples=[{'task': task['name'], 'concrete_cases': n, 'concrete': True}], witness={'concrete-special': n}, extra={'diff_runs': n, 'concrete_special_cases': n, 'concrete_cases_skipped': skipped})


def describe(tier):
    R = '/repo/fpy2/'
    return dict(
        functions=['backend.cpp.CppCompiler.compile / specialize / analyze (storage selection, unboxing, static arrays, optimisation pipeline)', 'backend.cpp.emitter.CppEmitter (_dispatch, _maybe_cast, _visit_context: fesetround save / restore, loops, phis)',
                   'backend.cpp.storage / storage_infer / unbox / target / ops', 'interpret.byte on the same program (symbolic arguments)'],
        files=[R + 'backend/cpp/compiler.py', R + 'backend/cpp/emitter.py', R + 'backend/cpp/storage.py', R + 'backend/cpp/storage_infer.py', R + 'backend/cpp/unbox.py', R + 'backend/cpp/target.py', R + 'backend/cpp/ops.py', R + 'backend/cpp/types.py',
               R + 'backend/cpp/utils.py', R + 'transform/specialize.py', R + 'transform/round_elim.py', R + 'interpret/byte.py'],
        bounds=dict(programs=len(corpus_cpp.P), option_sets=len(OPTIONS), argument_significand_bits=CW[tier], argument_exponent=tv.EXP0, list_lengths='as listed per program', loop_trip_limit=200, engine_width='112 for programs with binary64, 64 for binary32-only programs'),
        outside=['that g++ / clang and the C library implement IEEE 754 operations, conversions and <cfenv> as the standard says (the property\'s premise); compiler optimisation levels',
                 'emitted code outside the evaluator\'s subset (std::shared_ptr handles, std::array, std::tuple of lists, division, sqrt, elementary functions): reported per variant in the evidence, never counted as agreement',
                 'programs outside the corpus; symbolic special operands (concrete table only)', 'calls between separately compiled translation units'],
        stubs=['ops.add/sub/mul/fma/neg/fabs/round -> validated summaries on both sides', 'clang++-14 as the parser of the emitted text (its AST is the program that is evaluated)'],
        assumptions=['IEEE 754 binary64 / binary32 semantics for double / float and the x86-64 values of the FE_* macros', 'a kernel is entered with the rounding mode its top-level context names (the backend\'s documented precondition)'],
        rule='one case = one feasible joint path of (real interpreter on the FPy function, C++ evaluator on clang\'s AST of every distinct emitted text) for a (program, argument shape)',
        explanation='translation validation of the C++ backend per program and option set; the emitted text is evaluated symbolically through clang\'s AST',
    )
