"""
C17 — Stochastic rounding picks a neighbour with the exact probability.

The real `RealFloat.round(..., num_randbits=k, rng=stub)` and the `Context.round` of every family that
accepts random bits are executed with a symbolic operand and a *symbolic draw* r in [0, 2^k); the generator
is a stub returning r (and counting calls).  Per path the solver decides, for every operand and every draw:
result in {lo, hi}; representable => unchanged; threshold law `rounds-away(r) <=> r >= 2^k - T(x)` (or the
mirrored convention `r < T(x)`, per configuration) where T(x) is the operand's distance past lo in units of
gap/2^k rounded by the base mode — which is the counting statement without enumerating draws; exactly one
draw per rounding of a finite non-zero operand.
"""
import os
import time

PROPERTY = 'C17'
LEVEL = 'model_checking'
BUDGET_S = {'quick': 3600, 'thorough': 14400}

from . import ctxgrid as G

TIER = {
    'quick': dict(CW=6, E=5, W=32, WO=40, ks=[1, 2, 3]),
    'thorough': dict(CW=8, E=7, W=48, WO=56, ks=[1, 2, 3, 4, 5]),
}


def bounds(tier):
    b = dict(TIER[tier]); b['K'] = b['E'] + 3 + max(b['ks']) + 2
    return b


def ctx_descs(tier):
    ds = [
        dict(fam='MPFloat', pmax=3),
        dict(fam='MPSFloat', pmax=3, emin=-1),
        dict(fam='MPBFloat', pmax=3, emin=-2, maxval=[0, 1, 7]),
        dict(fam='IEEE', es=2, nbits=5),
        dict(fam='EFloat', es=2, nbits=4, enable_inf=False, nan_kind='MAX_VAL', eoffset=1),
        dict(fam='MPFixed', nmin=-2),
        dict(fam='MPBFixed', nmin=-1, maxval=[0, 0, 21], ov='SATURATE'),
        dict(fam='Fixed', signed=True, scale=-1, nbits=5, ov='SATURATE'),
        dict(fam='SMFixed', scale=0, nbits=4, ov='SATURATE'),
    ]
    if tier == 'thorough':
        ds += [dict(fam='MPFloat', pmax=1), dict(fam='MPFloat', pmax=5), dict(fam='MPSFloat', pmax=2, emin=2),
               dict(fam='IEEE', es=3, nbits=7), dict(fam='MPFixed', nmin=1), dict(fam='Fixed', signed=False, scale=1, nbits=4, ov='SATURATE')]
    return ds


def tasks(tier, seed):
    b = bounds(tier)
    ts = []
    modes = G.MODES
    shapes = [(3, -4), (3, None), (None, -2), (1, None), (2, 1)]
    if tier == 'thorough':
        shapes += [(5, -6), (4, None), (None, 2)]
    for k in b['ks'] + [None]:
        for rm in modes:
            if tier == 'quick' and k not in (1, 2) and rm not in ('RNE', 'RTZ', 'RAZ', 'RTP'):
                continue
            for s in (0, 1):
                for (p, n) in shapes:
                    if tier == 'quick' and (p, n) in [(1, None), (2, 1)] and rm not in ('RNE', 'RNA'):
                        continue
                    ts.append(dict(kind='kernel', name='kernel/k%s/%s/s%d/p%s/n%s' % (k, rm, s, p, n), k=k, rm=rm, s=s, p=p, n=n,
                                   rng='numpy' if (s + (k or 0)) % 2 else 'random'))
    for d in ctx_descs(tier):
        for k in (b['ks'][:2] if tier == 'quick' else b['ks'][:3]):
            for rm in (['RNE', 'RTZ', 'RTP'] if tier == 'quick' else modes):
                for s in (0, 1):
                    dd = dict(d, rm=rm)
                    ts.append(dict(kind='ctx', name='ctx/%s/k%d/s%d' % (G.name_of(dd), k, s), desc=dd, k=k, s=s, rng='random' if s else 'numpy'))
    # operations that reach the stochastic rounder through the MPFR engine: the round-to-odd intermediate requested by the
    # context's round_params must keep every digit the draw is compared with (harness/c02.py glue lemma, stochastic arm)
    from . import c02
    ts += [t for t in c02.tasks(tier, seed) if t['name'].startswith('glue-stoch/')]
    return ts


def required_witnesses(tier):
    return ['unrepresentable', 'representable', 'away', 'toward', 'pre-rounding-carry', 'subnormal', 'one-draw', 'T-full', 'T-zero-inexact']


def describe(tier):
    b = bounds(tier)
    R = '/repo/fpy2/number/'
    return dict(
        functions=['RealFloat.round', 'RealFloat.round_at', 'RealFloat._round_at_stochastic', 'RealFloat._generate_randbits', 'RealFloat._round_at', 'RealFloat.split',
                   '*Context.round with num_randbits=k (MPFloat, MPSFloat, MPBFloat, IEEE, EFloat, MPFixed, MPBFixed, Fixed, SMFixed)',
                   '*Context.round_params with num_randbits=k + gmputils.mpfr_call / _round_odd (operations reaching the stochastic rounder through the MPFR engine; MPFR replaced by its contract stub, see C02)'],
        files=[R + 'number/reals.py', R + 'gmputils.py'] + [R + 'context/' + f for f in ('mp_float.py', 'mps_float.py', 'mpb_float.py', 'efloat.py', 'ieee754.py', 'mp_fixed.py', 'mpb_fixed.py', 'fixed.py', 'sm_fixed.py')],
        bounds=dict(significand_bits=b['CW'], exponent_abs=b['E'], random_bits=b['ks'] + ['None (all lost bits)'], engine_width=b['W'], oracle_width=b['WO']),
        outside=['k above the stated values', 'operands wider than the bounds', 'the quality of the generator itself', 'ExpContext (no stochastic rounding implemented)'],
        stubs=['rng: object whose getrandbits(k)/integers(0, 2**k) returns an arbitrary r with 0 <= r < 2**k (one fresh symbolic variable), calls counted',
               'module-level name `int` in reals.py rebound to a pass-through class', 'number formatting stubbed'],
        assumptions=['the set of draws that round away is a threshold set (r >= 2^k - T, or r < T); other shapes with the right count would be reported',
                     'overflow arm of bounded families is excluded by assuming the unbounded result is in range (C01 covers overflow)'],
        rule='one case = one feasible path of the real stochastic rounding code for a (shape/context, k, base mode, sign) configuration',
        explanation='bounded model checking with the random draw as a symbolic variable',
    )


def run_task(task):
    if task['kind'] == 'glue':
        from . import c02
        return c02.run_task(task)
    import z3
    import random as pyrandom
    from pysym.core import explore, SymInt, bv
    from pysym import shims
    from pysym.values import denote_mag
    import spec.dsl as dsl
    from spec.dsl import lift
    from spec import formats as F, ctxround as CR
    from spec.rounding import round_detail, quantum
    import fpy2.number.number.reals as reals
    import fpy2.number.context.context as cctx
    import fpy2 as fp
    from fpy2 import RealFloat, Float
    tier = task.get('tier', 'quick')
    b = bounds(tier)
    CW, E, W, K = b['CW'], b['E'], b['W'], b['K']
    dsl.WO = b['WO']
    shims.install_int_pass(reals, cctx)
    shims.stub_formatting()
    s = bool(task['s'])
    k = task['k']
    calls = [0]
    cur_r = [None]
    cur_e = [None]

    def draw(kk):
        calls[0] += 1
        e = cur_e[0]
        r = cur_r[0]
        # contract of the generator: 0 <= r < 2**kk
        kt = bv(kk)
        e.assume(z3.And(r.t >= 0, z3.ULT(r.t, z3.BitVecVal(1, W) << kt)))
        return r

    class NumpyLike:
        def integers(self, lo, hi):
            # hi = 1 << k
            calls[0] += 1
            e = cur_e[0]; r = cur_r[0]
            e.assume(z3.And(r.t >= bv(lo), r.t < bv(hi)))
            return r

    class Scripted(pyrandom.Random):
        def getrandbits(self, kk):
            return draw(kk)

    rng = NumpyLike() if task['rng'] == 'numpy' else Scripted()
    samples = []; cexs = []

    def den(c, exp):
        return denote_mag(c, exp, K, W=dsl.WO)

    kmax = max(b['ks']) if k is None else k

    if task['kind'] == 'kernel':
        P, N = task['p'], task['n']
        rm = fp.RM[task['rm']]
        spec_p, spec_n = P, N
        call = lambda x: x.round(max_p=P, min_n=N, rm=rm, num_randbits=k, rng=rng)
        desc = None
    else:
        desc = task['desc']
        ctx = G.build(desc, rng=rng, num_randbits=k)
        sp = F.spec_of(desc)
        spec_p, spec_n = sp.p, sp.n
        call = lambda x: ctx.round(x)

    def setup(e):
        c = e.fresh('c', 1, (1 << CW) - 1)
        x = e.fresh('exp', -E, E)
        r = e.fresh('r', 0, (1 << (kmax if k is not None else (CW + 2 * E + 4))) - 1)
        return c, x, r

    def run(e, c, x, r):
        calls[0] = 0
        cur_r[0] = r; cur_e[0] = e
        X = den(c, x)
        xo = RealFloat(s, x, c)
        if desc is not None:
            # stay inside the format's range: the overflow arm belongs to C01
            if sp.bounded:
                hi0 = round_detail(X, s, spec_p, spec_n, 'RAZ', K)['R']
                e.assume(hi0 <= CR.scaled(sp.neg_max if s else sp.pos_max, K))
        try:
            y = call(xo)
        except Exception as ex:  # noqa
            e.require(False, info={'raised': repr(ex)[:200]}, tag='AB')
            return
        if y.isinf if hasattr(y, 'isinf') else False:
            e.require(False, info={'result': 'inf'}, tag='AB')
            return
        R = den(y.c, y.exp)
        d0 = round_detail(X, s, spec_p, spec_n, 'RTZ', K)
        lo, hi, q = d0['lo'], d0['hi'], d0['q']
        rep = d0['exact']
        # units of gap / 2^k
        if k is None:
            # all lost bits are random bits: the unit is the operand's own lsb (or finer): T is exact
            # number of random bits kk = max(0, n+1-exp) = q - (exp+K)
            ke = q - (lift(x) + K)
            ke = z3.If(ke < 0, z3.BitVecVal(0, dsl.WO), ke)
            unit_q = q - ke
            T = z3.LShR(X - lo, unit_q)
            full = z3.BitVecVal(1, dsl.WO) << ke
        else:
            unit_q = q - k
            dk = round_detail(X, s, None, None, task['rm'] if desc is None else desc['rm'], K) if False else None
            # x rounded by the base mode at the finer grid (quantum 2^(q-k)); K leaves room so q-k >= 0
            from spec.rounding import RTZ
            one = z3.BitVecVal(1, dsl.WO) << unit_q
            rem = X & (one - 1)
            lo_f = X - rem
            base = task['rm'] if desc is None else desc['rm']
            half = z3.LShR(one, 1)
            ev = (z3.LShR(lo_f, unit_q) & 1) == 0
            ex = rem == 0
            up = {'RNE': z3.Or(z3.UGT(rem, half), z3.And(rem == half, z3.Not(ev))), 'RNA': z3.UGE(rem, half),
                  'RTP': z3.BoolVal(not s), 'RTN': z3.BoolVal(s), 'RTZ': z3.BoolVal(False), 'RAZ': z3.BoolVal(True),
                  'RTO': ev, 'RTE': z3.Not(ev)}[base]
            xr = z3.If(ex, X, z3.If(up, lo_f + one, lo_f))
            T = z3.LShR(xr - lo, unit_q)
            full = z3.BitVecVal(1 << k, dsl.WO)
            e.oblige(unit_q >= 0, 'scale-room-for-random-bits')
        rr = lift(r)
        away = R == hi
        common = z3.And(z3.Or(R == lo, R == hi), z3.Implies(rep, R == X), z3.Or(R == 0, z3.BoolVal(bool(y.s) == s)),
                        z3.BoolVal(calls[0] == 1))
        lawA = z3.Implies(z3.Not(rep), away == z3.UGE(rr + T, full))
        lawB = z3.Implies(z3.Not(rep), away == z3.ULT(rr, T))
        e.cover('unrepresentable', z3.Not(rep)); e.cover('representable', rep)
        e.cover('away', z3.And(z3.Not(rep), away)); e.cover('toward', z3.And(z3.Not(rep), z3.Not(away)))
        e.cover('pre-rounding-carry', z3.And(z3.Not(rep), T == full)); e.cover('T-full', T == full)
        e.cover('T-zero-inexact', z3.And(z3.Not(rep), T == 0))
        if spec_n is not None and spec_p is not None:
            e.cover('subnormal', z3.And(z3.Not(rep), q == spec_n + 1 + K))
        if calls[0] == 1:
            e.cover('one-draw', True)
        okA = e.require(z3.And(common, lawA), info={'law': 'A'}, tag='A')
        okB = True
        if not okA:
            okB = e.require(z3.And(common, lawB), info={'law': 'B'}, tag='B')
        if len(samples) < 2:
            samples.append({'task': task['name'], 'example_input': e.model_inputs(), 'proved_threshold_law': okA or okB})

    eng = explore(run, setup, W=W, bl_max=W - 6)
    # a configuration passes if every path satisfies convention A, or every path satisfies convention B
    cA = [c for c in eng.cex if c['tag'] in ('A', 'AB')]
    cB = [c for c in eng.cex if c['tag'] in ('B', 'AB')]
    nA_paths = len(cA)
    if not cA:
        bad = []
    elif eng.paths and len([c for c in eng.cex if c['tag'] == 'B']) == 0 and len([c for c in eng.cex if c['tag'] == 'AB']) == 0 and nA_paths == eng.paths:
        bad = []      # convention B holds on every path
    else:
        bad = cA
    for cx in bad:
        if cx.get('unknown') or cx.get('inputs') is None:
            cexs.append({'case': None})
        else:
            t = {kk: v for kk, v in task.items() if kk != 'name'}
            cexs.append({'case': {'task': t, 'inputs': cx['inputs'], 'K': K}, 'failed_obligations': cx.get('failed_obligations')})
    return dict(paths=eng.paths, decisions=eng.decisions, queries=eng.checks, unsat=eng.unsat, sat=eng.sat, unknown=eng.unknown,
                solve_s=eng.solve_s, requires=eng.requires, aborted=eng.aborted, witness=eng.witness, notes=eng.notes, cex=cexs, samples=samples)
