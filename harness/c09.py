"""
C09 — Inlining, specialisation and hoisting preserve results.

inline (one site / all / recursive / one level), monomorphize (pinned caller context), close and lift_context run
concretely; original and result run symbolically side by side (harness/tv.py).  For monomorphize(ctx=C) the
comparison is f(*args, ctx=C) versus g(*args).
"""
PROPERTY = 'C09'
LEVEL = 'translation_validation'
BUDGET_S = {'quick': 3600, 'thorough': 14400}

from . import tv, corpus


def _programs(tier):
    return corpus.by_tag('inline', 'close', 'lift_context', 'context')


def tasks(tier, seed):
    ts = []
    for p in _programs(tier):
        for shape in tv.arg_shapes(p, tier):
            if tier == 'quick' and 'heavy' in p['tags'] and sum(c[1] for c in shape if c[0] == 'list') > 2:
                continue
            ts.append(dict(kind='tv', name='calls/%s/%s' % (p['name'], '-'.join(str(c[-1]) if len(c) > 1 else 'r' for c in shape)), prog=p['name'], shape=[list(c) for c in shape],
                           cost=sum(c[1] if c[0] == 'list' else 1 for c in shape)))
    return ts


def required_witnesses(tier):
    return ['returns', 'program-changed']


def variants_of(task):
    import fpy2 as fp
    from fpy2 import strategies as st
    from fpy2.strategies import TransformDeclined, TransformError
    p = next(q for q in corpus.P if q['name'] == task['prog'])
    f, _ = tv.load_program(p)
    ctx = tv.caller_ctx()
    out = []

    def add(label, thunk, ctxs=None):
        try:
            g = thunk()
        except (TransformDeclined, TransformError, ValueError, TypeError):
            return
        out.append((label, f, g, ctxs or (ctx, ctx)))
    try:
        nsite = len(st.sites(st.inline, f))
    except Exception:  # noqa
        nsite = 0
    if nsite:
        for rec in (True, False):
            add('inline(all,recursive=%s)' % rec, lambda: st.inline(f, None, recursive=rec))
            for j in range(nsite):
                add('inline(where=%d,recursive=%s)' % (j, rec), lambda: st.inline(f, j, recursive=rec))
        add('inline>inline', lambda: st.inline(st.inline(f, None, recursive=False), None, recursive=False))
        import fpy2 as _fp
        for nm, fn in sorted((k, v) for k, v in _.items() if isinstance(v, _fp.Function) and v is not f):
            add('inline(funcs=[%s])' % nm, lambda fn=fn: st.inline(f, funcs=[fn]))
        add('inline>simplify', lambda: st.simplify(st.inline(f)))
    for C, nm in ((fp.MPSFloatContext(3, -2), 'MPS(3,-2)'), (fp.MPSFloatContext(4, -3, fp.RM.RTZ), 'MPS(4,-3,RTZ)'), (fp.MPFloatContext(2, fp.RM.RTP), 'MP(2,RTP)'),
                  (fp.MPSFloatContext(3, -2, fp.RM.RTN), 'MPS(3,-2,RTN)')):      # the format of the corpus's C3 / C3UP with another rounding mode
        add('monomorphize(ctx=%s)' % nm, lambda: st.monomorphize(f, C), (C, None))
        if nsite:
            add('monomorphize(ctx=%s)>inline' % nm, lambda: st.inline(st.monomorphize(f, C)), (C, None))
    add('close', lambda: st.close(f))
    add('lift_context', lambda: st.lift_context(f))
    add('lift_context>simplify', lambda: st.simplify(st.lift_context(f)))
    if nsite:
        add('inline>lift_context', lambda: st.lift_context(st.inline(f)))
    seen = {f.format(): 'original'}; uniq = []
    for v in out:
        txt = v[2].format() + repr(v[3][1])
        if txt not in seen:
            seen[txt] = v[0]; uniq.append(v)
    return uniq


def describe(tier):
    R = '/repo/fpy2/'
    return dict(
        functions=['strategies.inline/monomorphize/close/lift_context', 'transform.func_inline/monomorphize/specialize/free_var_elim/lift_context', 'analysis.call_graph', 'module', 'interpret.byte on original and result (symbolic arguments)'],
        files=[R + 'strategies/func_inline.py', R + 'strategies/mono.py', R + 'strategies/free_var.py', R + 'strategies/context_lift.py', R + 'transform/func_inline.py', R + 'transform/monomorphize.py',
               R + 'transform/specialize.py', R + 'transform/free_var_elim.py', R + 'transform/lift_context.py', R + 'analysis/call_graph.py', R + 'module.py'],
        bounds=dict(programs=len(_programs(tier)), pinned_contexts=4, argument_significand_bits=tv.TIER[tier]['CW']),
        outside=['monomorphize with pinned argument types', 'programs outside the corpus'],
        stubs=['validated operation summaries; int / Fraction proxies; number formatting'],
        assumptions=['monomorphize(ctx=C): original evaluated with ctx=C, result with no context'],
        rule='one case = one feasible joint path of (original, every transformed variant) for a (program, argument shape)',
        explanation='translation validation per (program, transform variant)',
    )


def run_task(task):
    try:
        vs = tv.with_timeout(lambda: variants_of(task), 120)
    except tv.TransformTimeout:
        return tv.timeout_result(task, 'a transform did not terminate on %s' % task['prog'])
    if not vs:
        return dict(paths=0, requires=0, cex=[], samples=[{'task': task['name'], 'note': 'no transform applies'}], witness={}, extra={'programs_without_rewrite': 1})
    res = tv.run_joint(task, vs, task.get('tier', 'quick'))
    res['witness']['program-changed'] = res['witness'].get('program-changed', 0) + 1
    return res
