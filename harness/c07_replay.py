from . import tv, c07


def replay(case):
    return tv.replay_with_timeout(case, c07.variants_of)
