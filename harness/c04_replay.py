"""Concrete judge for C04: reference evaluator vs the real interpreter, real operations, no shims."""


def replay(case):
    from . import c04, corpus, tv
    t = case['task']; inp = case['inputs']
    if t['kind'] == 'sumcheck':
        # a mismatch between a summary and the real operation is a fault of the machinery (or a changed operation that C01 / C02 report)
        return {'violates': None, 'error': 'operation summary disagrees with the real operation: %s' % (inp,)}
    if t['kind'] == 'entry':
        bad, _ = c04.entry_problems()
        mine = [b for b in bad if b[:3] == inp['row'][:3]]
        return {'violates': bool(mine), 'observed': mine[:2] or 'not reproduced', 'key': 'entry:' + str(inp['row'][0])}
    p = next(q for q in corpus.P if q['name'] == t['prog'])
    if t['kind'] == 'special':
        r = c04.judge_concrete(p, inp['args'], t['caller'])
        return {'violates': r not in (None, 'skip'), 'observed': {'program': p['name'], 'arguments': [tv._show(a) for a in c04.build_concrete(inp['args'])], 'problem': r}, 'key': '%s:special' % p['name']}
    import fpy2.ops as ops
    from fpy2.interpret import byte
    from spec.fpy_ref import Unsupported, Stuck
    shape = [tuple(c) for c in t['shape']]
    f, _ = tv.load_program(p)
    S = dict(add=ops.add, sub=ops.sub, mul=ops.mul, fma=ops.fma, neg=ops.neg, fabs=ops.fabs, round=ops.round)
    ref = c04.make_ref(p, S)
    C = c04.caller_of(t['caller'])
    try:
        want = ('ok', ref.run(p['entry'], tv.concrete_args(shape, inp), C))
    except Unsupported as ex:
        return {'violates': False, 'observed': 'outside the reference evaluator: %s' % ex, 'key': 'ok'}
    except Stuck as ex:
        want = ('stuck', str(ex))
    try:
        got = ('ok', byte.BytecodeInterpreter().eval(f, tv.concrete_args(shape, inp), C, convert=False))
    except Exception as ex:  # noqa
        got = ('raise', repr(ex)[:160])
    args = [tv._show(a) for a in tv.concrete_args(shape, inp)]
    if want[0] == 'stuck':
        bad = got[0] != 'raise'
        return {'violates': bad, 'observed': {'arguments': args, 'reference': 'stuck: ' + want[1], 'real': tv._show(got[1]) if bad else got[1]}, 'key': '%s:stuck' % p['name']}
    if got[0] == 'raise':
        return {'violates': True, 'observed': {'arguments': args, 'reference': tv._show(want[1]), 'real raised': got[1]}, 'key': '%s:raise' % p['name']}
    bad = not tv.conc_eq(want[1], got[1])
    return {'violates': bad, 'observed': {'arguments': args, 'caller': c04.CALLERS[t['caller']], 'reference': tv._show(want[1]), 'real': tv._show(got[1])}, 'key': '%s:value' % p['name']}
