"""Concrete judge for C15: the accepted program on the concrete inputs, real code, no shims."""


def replay(case):
    from . import c15
    from fpy2.interpret import byte
    fn, why = c15.load(case['src'])
    if fn is None:
        return {'violates': False, 'observed': 'program rejected on replay: %s' % why, 'key': 'ok'}
    args = c15.build_args(case['inputs'], case['params'], case['uses_xs'], case['shape'], False)
    from . import tv
    rt = byte.BytecodeInterpreter()
    try:
        r = rt.eval(fn, args, tv.caller_ctx(), convert=False)
    except Exception as ex:  # noqa
        if c15.is_unbound_failure(ex):
            return {'violates': True, 'observed': {'program': case['src'], 'arguments': [tv._show(a) for a in args], 'raised': repr(ex)[:200]}, 'key': 'unbound:' + _shape_key(case['src'])}
        return {'violates': False, 'observed': 'other exception %r' % ex, 'key': 'ok'}
    if r is None:
        return {'violates': True, 'observed': {'program': case['src'], 'arguments': [tv._show(a) for a in args], 'returned': None}, 'key': 'fallthrough:' + _shape_key(case['src'])}
    return {'violates': False, 'observed': tv._show(r) if not isinstance(r, object) else str(r)[:80], 'key': 'ok'}


def _shape_key(src):
    """the construct whose scoping is at fault is what identifies a finding: last compound keyword before the failing use"""
    kinds = [k for k in ('for ', 'while ', 'if ', 'with ', ' for i in xs]') if k in src]
    return '+'.join(k.strip() for k in kinds) or 'straight-line'
