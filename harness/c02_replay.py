"""Concrete judge for C02/C03 on the unpatched code with the real MPFR, plus the concrete tables."""
import math
import random
from fractions import Fraction
from . import ctxgrid as G
from .c01_common import outcome_of, concrete_denote

KC = 80   # concrete oracle scale: every rounding position in the grids lies far above 2^-KC


def odd_ext(v: Fraction, K=KC):
    """|v| * 2^K as an integer, with a trailing 1 standing for any non-zero remainder (exact for every rounding
    position above 2^-(K-1))"""
    a = abs(v) * (1 << K)
    fl = a.numerator // a.denominator
    return (fl << 1) | (1 if fl != a else 0)


def judge(desc, v, out_fn, zero_neg=None, n_at=None, inexact_rule=None, KK=None):
    """v: exact Fraction result; out_fn: thunk running the real code. Returns (ok, observed)"""
    from spec import formats as F, ctxround as CR
    sp = F.spec_of(desc)
    K = (KK or KC) + 1
    def run():
        r = out_fn()
        if isinstance(r, Fraction):      # exact rational result under REAL
            class _R:
                isnan = False; isinf = False; inexact = False; overflow = False
            o = _R(); o.s = r < 0; o.c = abs(r) * (1 << K); o.exp = -K
            if o.c.denominator != 1:
                o.c = None
            else:
                o.c = int(o.c)
            o.frac = r
            return o
        return r
    out = outcome_of(run, K, lambda c, e: (concrete_denote(K)(c, e) if c is not None else -1))
    X = odd_ext(v, K - 1)
    if desc['fam'] == 'Real':
        r = out.get('_r')
        if out['raised'] is None and hasattr(r, 'frac'):
            return r.frac == v, out
        ok = out['raised'] is None and out['kind'] == 'fin' and Fraction(out['D'], 1 << K) == abs(v) and (v == 0 or out['sign'] == (v < 0))
        return ok, out
    if v != 0:
        o = dict(out)
        if inexact_rule is not None and out['raised'] is None and out.get('kind') == 'fin':
            want = inexact_rule(Fraction(out['D'], 1 << K) * (-1 if out['sign'] else 1))
            if bool(out['inexact']) != want:
                return False, out
            o_t = dict(out, inexact=True); o_f = dict(out, inexact=False)
            return bool(CR.post_finite(desc, sp, K, v < 0, X, n_at, o_t)) or bool(CR.post_finite(desc, sp, K, v < 0, X, n_at, o_f)), out
        return bool(CR.post_finite(desc, sp, K, v < 0, X, n_at, o)), out
    # exact zero
    cands = [False, True] if (zero_neg is None or desc.get('rm') == 'RTN') else [zero_neg]
    if inexact_rule is not None and out['raised'] is None and out.get('kind') == 'fin':
        want = inexact_rule(Fraction(0))
        if bool(out['inexact']) != want:
            return False, out
        outs = [dict(out, inexact=True), dict(out, inexact=False)]
    else:
        outs = [out]
    return any(bool(CR.post_finite(desc, sp, K, zs, 0, n_at, o)) for zs in cands for o in outs), out


def _pub(out):
    return {k: (str(v) if not isinstance(v, (bool, str, type(None), int)) else v) for k, v in out.items() if k != '_r'}


def _f(s, e, c):
    from fpy2 import Float
    return Float(bool(s), e, c)


def _fr(x):
    return Fraction(-int(x.c) if x.s else int(x.c)) * Fraction(2) ** int(x.exp)


def pymod(a, b):
    return a - (a / b).__floor__() * b


def replay(case):
    import fpy2 as fp
    import fpy2.number.gmputils as gu
    t = case['task']; inp = case['inputs']; kind = t['kind']
    if kind in ('special', 'fraction', 'structural'):
        return {'violates': True, 'observed': inp, 'key': kind + ':' + str(inp['row'][:2])}
    if kind == 'glue':
        desc = t['desc']; K = case['K']; Y = inp['Y']; neg = bool(t['neg']); sticky = bool(t['sticky']); kst = t.get('k', 0)
        v = Fraction(3 * Y + 1, 3 << K) if sticky else Fraction(Y, 1 << K)
        v = -v if neg else v
        if kst:
            # all draws: count statement on the exact value
            from .c17_replay import _round_grid, NumpyLike
            from spec import formats as F
            sp = F.spec_of(desc)
            a = abs(v)
            e = (a.numerator.bit_length() - a.denominator.bit_length())
            e = e if Fraction(2) ** e <= a else e - 1
            n = sp.n if sp.p is None else (e - sp.p if sp.n is None else max(sp.n, e - sp.p))
            gap = Fraction(2) ** (n + 1)
            lo = _round_grid(a, gap, 'RTZ', neg); hi = _round_grid(a, gap, 'RAZ', neg)
            unit = gap / (1 << kst)
            T = int((_round_grid(a, unit, desc['rm'], neg) - lo) / unit)
            away = 0; bad = []
            for r in range(1 << kst):
                ctx = G.build(desc, rng=NumpyLike(r), num_randbits=kst)
                p, nn = ctx.round_params()
                y = ctx.round(gu.mpfr_value(v, prec=p, n=nn))
                yv = abs(_fr(y))
                if yv not in (lo, hi):
                    bad.append(('not a neighbour', r, str(yv)))
                if lo != hi and yv == hi:
                    away += 1
            if lo != hi and away != T:
                bad.append(('count', away, T))
            return {'violates': bool(bad), 'observed': {'value': str(v), 'problems': bad[:4]}, 'key': 'glue-stoch'}
        ctx = G.build(desc)
        p, n = ctx.round_params()
        ok, out = judge(desc, v, lambda: ctx.round(gu.mpfr_value(v, prec=p, n=n)))
        return {'violates': not ok, 'observed': {'exact_value': str(v), 'round_params': [p, n], 'outcome': _pub(out)}, 'key': 'glue:' + desc['fam']}
    if kind == 'mpfrpath':
        desc = t['desc']; op = t['op']; ctx = G.build(desc)
        a = _f(t['sa'], inp['ea'], inp['ca'])
        b = _f(t['sb'], inp['eb'], inp['cb']) if 'cb' in inp else None
        c = _f(t.get('sc', 0), inp['ec'], inp['cc']) if 'cc' in inp else None
        va, vb, vc = _fr(a), (_fr(b) if b is not None else None), (_fr(c) if c is not None else None)
        if op == 'sqrt':
            # irrational in general: judge through a high-precision square root
            import gmpy2
            with gmpy2.context(precision=400):
                r = gmpy2.sqrt(gmpy2.mpfr(va))
            v = Fraction(*r.as_integer_ratio())
            if v * v != va:
                v = v + Fraction(1, 1 << 390)     # strictly between representable values: sticky
        else:
            v = {'add': lambda: va + vb, 'sub': lambda: va - vb, 'mul': lambda: va * vb, 'fma': lambda: va * vb + vc, 'neg': lambda: -va,
                 'fabs': lambda: abs(va), 'copysign': lambda: -abs(va) if t['sb'] else abs(va), 'fdim': lambda: max(va - vb, Fraction(0)),
                 'div': lambda: va / vb, 'mod': lambda: pymod(va, vb)}[op]()
        from .c02 import _zero_sign
        args = (a,) if b is None else (a, b) if c is None else (a, b, c)
        ok, out = judge(desc, v, lambda: getattr(fp.ops, op)(*args, ctx=ctx), zero_neg=_zero_sign(op, t))
        return {'violates': not ok, 'observed': {'exact_value': str(v)[:80], 'outcome': _pub(out)}, 'key': 'mpfrpath:' + op}
    if kind == 'rint':
        desc = t['desc']; op = t['op']; ctx = G.build(desc)
        a = _f(t['sa'], inp['ea'], inp['ca']); va = _fr(a)
        if op == 'nearbyint':
            ok, out = judge(desc, va, lambda: fp.ops.nearbyint(a, ctx=ctx), zero_neg=bool(t['sa']), n_at=-1)
        else:
            I = {'floor': math.floor(va), 'ceil': math.ceil(va), 'trunc': math.trunc(va),
                 'roundint': (math.floor(abs(va) + Fraction(1, 2)) * (-1 if va < 0 else 1))}[op]
            ok, out = judge(desc, Fraction(I), lambda: getattr(fp.ops, op)(a, ctx=ctx), zero_neg=bool(t['sa']), inexact_rule=lambda res: res != va or res != I)
        return {'violates': not ok, 'observed': {'operand': str(va), 'outcome': _pub(out)}, 'key': 'rint:' + op}
    if kind == 'realpath':
        op = t['op']
        a = _f(t['sa'], inp['ea'], inp['ca']); va = _fr(a)
        b = _f(t['sb'], inp['eb'], inp['cb']) if 'cb' in inp else None
        c = _f(0, inp['ec'], inp['cc']) if 'cc' in inp else None
        desc = {'fam': 'Real'}
        if op == 'pow':
            n = inp['k']; ok, out = judge(desc, va ** n, lambda: fp.ops.pow(a, n, ctx=fp.REAL))
        elif op == 'div':
            j = inp['k']; den = _f(t['sb'], j - 2, 1); ok, out = judge(desc, va / _fr(den), lambda: fp.ops.div(a, den, ctx=fp.REAL))
        else:
            vb = _fr(b) if b is not None else None
            v = {'add': lambda: va + vb, 'sub': lambda: va - vb, 'mul': lambda: va * vb, 'fma': lambda: va * vb + _fr(c), 'neg': lambda: -va, 'fabs': lambda: abs(va),
                 'copysign': lambda: -abs(va) if t['sb'] else abs(va), 'floor': lambda: Fraction(math.floor(va)), 'ceil': lambda: Fraction(math.ceil(va)),
                 'trunc': lambda: Fraction(math.trunc(va)), 'roundint': lambda: Fraction(math.floor(abs(va) + Fraction(1, 2)) * (-1 if va < 0 else 1))}[op]()
            args = (a,) if b is None else (a, b) if c is None else (a, b, c)
            ok, out = judge(desc, v, lambda: getattr(fp.ops, op)(*args, ctx=fp.REAL))
        return {'violates': not ok, 'observed': {'outcome': _pub(out)}, 'key': 'realpath:' + op}
    raise ValueError(kind)


# ---------------------------------------------------------------------------------------------------------------
# concrete tables

def _ieee_ref(op, fa, fb=None):
    """IEEE 754 special-value behaviour via Python floats (binary64 is wide enough for the table's operands)"""
    try:
        if op == 'add':
            return fa + fb
        if op == 'sub':
            return fa - fb
        if op == 'mul':
            return fa * fb
        if op == 'div':
            if fb == 0:
                if fa == 0 or math.isnan(fa):
                    return math.nan
                return math.copysign(math.inf, fa) * math.copysign(1, fb)
            return fa / fb
        if op == 'sqrt':
            return math.sqrt(fa) if fa >= 0 or math.isnan(fa) else math.nan
        if op == 'neg':
            return -fa
        if op == 'fabs':
            return abs(fa)
        if op == 'copysign':
            return math.copysign(fa, fb)
        if op == 'fdim':
            if math.isnan(fa) or math.isnan(fb):
                return math.nan
            return fa - fb if fa > fb else 0.0
        if op == 'hypot':
            return math.hypot(fa, fb)
        if op == 'fmod':
            return math.fmod(fa, fb)
        if op == 'remainder':
            return math.remainder(fa, fb)
        if op == 'cbrt':
            return math.cbrt(fa)
    except ValueError:
        return math.nan
    raise KeyError(op)


def table_special(task):
    """NaN / infinity / signed-zero operands through the real ops + real MPFR, against IEEE 754 (python floats)"""
    import fpy2 as fp
    from fpy2 import Float
    vals = {'nan': math.nan, '+inf': math.inf, '-inf': -math.inf, '+0': 0.0, '-0': -0.0, '1.5': 1.5, '-2': -2.0, '0.375': 0.375}
    ctxs = [fp.IEEEContext(5, 16, fp.RM.RNE), fp.MPFloatContext(6, fp.RM.RTZ), fp.IEEEContext(8, 32, fp.RM.RTP)]
    n = 0; bad = []; samples = []

    def same(r, f):
        if math.isnan(f):
            return r.isnan
        if math.isinf(f):
            return r.isinf and bool(r.s) == (f < 0)
        if r.is_nar():
            return False
        return r.as_rational() == Fraction(f) and (f != 0 or bool(r.s) == (math.copysign(1, f) < 0))
    for ci, ctx in enumerate(ctxs):
        for ka, fa in vals.items():
            A = Float.from_float(fa)
            for op in ('neg', 'fabs', 'sqrt', 'cbrt'):
                n += 1
                ref = _ieee_ref(op, fa)
                r = getattr(fp.ops, op)(A, ctx=ctx)
                # finite non-special results are covered symbolically; here only the special structure
                if (math.isnan(ref) or math.isinf(ref) or ref == 0) and not same(r, ref):
                    bad.append([op, ka, '', ci, str(r)])
            for kb, fb in vals.items():
                B = Float.from_float(fb)
                for op in ('add', 'sub', 'mul', 'div', 'copysign', 'fdim', 'hypot', 'fmod', 'remainder'):
                    n += 1
                    ref = _ieee_ref(op, fa, fb)
                    r = getattr(fp.ops, op)(A, B, ctx=ctx)
                    special = math.isnan(ref) or math.isinf(ref) or ref == 0
                    if special:
                        if ref == 0 and op in ('add', 'sub') and ctx.rm == fp.RM.RTN:
                            continue
                        if ref == 0 and op in ('fdim', 'fmod', 'remainder'):
                            if not (not r.is_nar() and r.is_zero()):
                                bad.append([op, ka, kb, ci, str(r)])
                            continue
                        if not same(r, ref):
                            bad.append([op, ka, kb, ci, str(r)])
                    # invalid / divzero flags
                    if math.isnan(ref) and not (math.isnan(fa) or math.isnan(fb)) and not r.invalid:
                        bad.append([op + ' invalid flag', ka, kb, ci, ''])
                    if op == 'div' and math.isinf(ref) and not math.isinf(fa) and fb == 0 and not r.divzero:
                        bad.append(['div divzero flag', ka, kb, ci, ''])
                for kc, fc in (('+0', 0.0), ('-0', -0.0), ('+inf', math.inf), ('nan', math.nan), ('1.5', 1.5)):
                    n += 1
                    C = Float.from_float(fc)
                    try:
                        ref = fa * fb + fc if not (math.isinf(fa * fb) and math.isinf(fc) and (fa * fb) != fc) else math.nan
                    except Exception:
                        ref = math.nan
                    if (math.isinf(fa) and fb == 0) or (fa == 0 and math.isinf(fb)):
                        ref = math.nan
                    r = fp.ops.fma(A, B, C, ctx=ctx)
                    if (math.isnan(ref) or math.isinf(ref)) and not same(r, ref):
                        bad.append(['fma', ka, kb + ',' + kc, ci, str(r)])
    samples.append({'special_rows': n})
    return n, bad, samples


def table_fraction(task):
    """non-dyadic Fraction operands and results: exact rational engine + mpfr_value re-rounding (real MPFR)"""
    import fpy2 as fp
    rnd = random.Random(task.get('seed', 0))
    descs = [dict(fam='MPFloat', pmax=3), dict(fam='MPSFloat', pmax=4, emin=-3), dict(fam='IEEE', es=3, nbits=7), dict(fam='MPFixed', nmin=-3),
             dict(fam='Fixed', signed=True, scale=-2, nbits=8, ov='SATURATE'), dict(fam='MPFloat', pmax=24), dict(fam='Real')]
    n = 0; bad = []
    fr = [Fraction(1, 3), Fraction(-2, 7), Fraction(5, 3), Fraction(1, 10), Fraction(-22, 7), Fraction(1, 96), Fraction(7, 3)]
    fr += [Fraction(rnd.randint(-60, 60), rnd.choice([3, 5, 6, 7, 9, 11, 12])) for _ in range(10)]
    fl = [Fraction(3, 4), Fraction(-5, 1), Fraction(1, 8), Fraction(0)]
    for d in descs:
        for rm in G.MODES:
            dd = dict(d, rm=rm)
            ctx = G.build(dd)
            for a in fr:
                if d['fam'] != 'Real':     # REAL.round cannot return a non-dyadic rational as a Float (ops keep it a Fraction)
                    n += 1
                    ok, out = judge(dd, a, lambda: ctx.round(a))
                    if not ok:
                        bad.append(['round', str(a), G.name_of(dd), str(_pub(out))[:120]])
                for b in fl + fr[:3]:
                    B = b if b.denominator & (b.denominator - 1) else fp.Float.from_rational(b)
                    for op, v in (('add', a + b), ('sub', a - b), ('mul', a * b), ('div', a / b if b else None), ('fma', a * b + Fraction(1, 3))):
                        if v is None:
                            continue
                        n += 1
                        if op == 'fma':
                            ok, out = judge(dd, v, lambda: fp.ops.fma(a, B, Fraction(1, 3), ctx=ctx))
                        else:
                            ok, out = judge(dd, v, lambda: getattr(fp.ops, op)(a, B, ctx=ctx))
                        if not ok:
                            bad.append([op, str(a) + ',' + str(b), G.name_of(dd), str(_pub(out))[:120]])
    return n, bad, [{'fraction_rows': n}]


UNARY_FN = {'sqrt': 'sqrt', 'cbrt': 'cbrt', 'neg': '_gmp_neg', 'fabs': '_gmp_abs'}
BINARY_FN = {'add': 'add', 'sub': 'sub', 'mul': 'mul', 'div': 'div', 'hypot': 'hypot', 'fmod': 'fmod', 'remainder': 'remainder', 'pow': '_gmp_pow', 'copysign': 'copy_sign'}


def table_structural(task, unary=None, binary=None, consts=None):
    """every MPFR engine wrapper hands the operands over exactly, asks for round_params() + 2 digits (or the two-pass
    sequence 2, e-n+2) and calls the function it is named after"""
    import fpy2 as fp
    import fpy2.number.gmputils as gu
    import gmpy2
    unary = UNARY_FN if unary is None else unary
    binary = BINARY_FN if binary is None else binary
    rec = []
    orig = gu._mpfr_call_with_prec

    def spy(prec, fn, args):
        r = orig(prec, fn, args)
        rec.append((prec, getattr(fn, '__name__', repr(fn)), tuple(args), r))
        return r
    gu._mpfr_call_with_prec = spy
    n = 0; bad = []
    try:
        ctxs = [fp.MPFloatContext(5), fp.MPSFloatContext(4, -3), fp.IEEEContext(5, 16), fp.MPFixedContext(-4), fp.MPFloatContext(3, fp.RM.RNE, 2), fp.MPFixedContext(-2, fp.RM.RNE, 1)]
        xs = [fp.Float(False, -3, 11), fp.Float(False, 1, 3)]
        for ctx in ctxs:
            p, nn = ctx.round_params()
            for x in xs:
                for y in xs:
                    items = [(op, fnname, (x,)) for op, fnname in unary.items()] + [(op, fnname, (x, y)) for op, fnname in binary.items()]
                    if binary is BINARY_FN:
                        items.append(('fma', 'fma', (x, y, x)))
                    for op, fnname, args in items:
                        n += 1
                        rec.clear()
                        try:
                            getattr(fp.ops, op)(*args, ctx=ctx)
                        except ValueError:
                            pass        # e.g. a NaN result under a context without NaN: the call structure is already recorded
                        if not rec:
                            bad.append([op, 'no MPFR call', repr(ctx)[:40]]); continue
                        names = {r[1] for r in rec}
                        if names != {fnname}:
                            bad.append([op, 'called %s, expected %s' % (sorted(names), fnname), repr(ctx)[:40]])
                        for (_, _, cargs, _) in rec:
                            got = [Fraction(*gmpy2.mpfr(a).as_integer_ratio()) for a in cargs]
                            want = [_fr(a) for a in args]
                            if got != want:
                                bad.append([op, 'operands changed on the way to MPFR', repr(ctx)[:40]])
                        precs = [r[0] for r in rec]
                        if p is not None:
                            if precs != [p + 2]:
                                bad.append([op, 'precisions %s, expected [%d]' % (precs, p + 2), repr(ctx)[:40]])
                        else:
                            r0 = rec[0][3]
                            if precs[0] != 2:
                                bad.append([op, 'first pass precision %s' % precs, repr(ctx)[:40]])
                            elif not (r0.is_zero() or r0.is_nan() or r0.is_infinite()):
                                e = gmpy2.get_exp(r0) - 1
                                want = [2] if e <= nn else [2, e - nn + 2]
                                if precs != want:
                                    bad.append([op, 'precisions %s, expected %s' % (precs, want), repr(ctx)[:40]])
            if consts:
                for cname in consts:
                    n += 1
                    rec.clear()
                    getattr(fp.ops, cname)(ctx=ctx)
                    precs = [r[0] for r in rec]
                    if p is not None and precs != [p + 2]:
                        bad.append([cname, 'precisions %s, expected [%d]' % (precs, p + 2), repr(ctx)[:40]])
                    if p is None and (not precs or precs[0] != 2):
                        bad.append([cname, 'first pass precision %s' % precs, repr(ctx)[:40]])
    finally:
        gu._mpfr_call_with_prec = orig
    return n, bad, [{'structural_rows': n}]
