"""
The MPFR boundary replaced by its documented contract (DESIGN.md §1.3), shared by C02 and C03.

`gmputils._mpfr_call_with_prec(prec, fn, args)` is the only place the repository calls into MPFR for
arithmetic.  Under gmpy2's context (precision=prec, round=RoundToZero) MPFR returns the exact real result
truncated toward zero to `prec` significant bits, with `rc != 0` iff something was cut off (MPFR manual,
"Rounding" / ternary value).  Two stubs implement exactly that contract:

* `install_symbolic_result(...)`: the exact result is *the symbolic variable* (Y + eps) * 2^-K — every real the
  C call could be approximating, whatever the function (the "glue lemma").
* `install_exact_ops(...)`: for add/sub/mul/fma/div/sqrt/neg/abs the exact result is computed from the symbolic
  operands (float_to_mpfr becomes the identity on (s, exp, c)).
"""
import z3


class FakeMpfr:
    """what gmpy2 hands back: a finite non-zero value (mantissa, exponent), or a special"""
    def __init__(self, neg, mant=0, exp=0, inexact=False, kind='fin'):
        self.neg, self.mant, self.exp_, self.rc, self.kind = neg, mant, exp, (1 if inexact else 0), kind

    def is_signed(self): return self.neg
    def is_nan(self): return self.kind == 'nan'
    def is_infinite(self): return self.kind == 'inf'
    def is_zero(self): return self.kind == 'zero'
    def as_mantissa_exp(self): return (-self.mant if self.neg else self.mant), self.exp_


def truncate(Y, prec, base_exp, sticky):
    """truncate the positive integer Y (SymInt, value Y * 2^base_exp, plus eps iff sticky) to `prec` bits toward zero.
    returns (mant, exp, inexact)"""
    bl = Y.bit_length()
    drop = bl - prec
    if drop > 0:
        mant = Y >> drop
        lost = (Y & ((1 << drop) - 1)) != 0
        return mant, base_exp + drop, (lost or sticky)
    return Y, base_exp, sticky


class GmpShim:
    """stands in for the module `gmpy2` inside gmputils while a stub is installed"""
    def __init__(self, real):
        self._real = real

    def get_exp(self, r):
        if isinstance(r, FakeMpfr):
            return r.mant.bit_length() + r.exp_      # MPFR's exponent convention: value in [1/2, 1) * 2^exp
        return self._real.get_exp(r)

    def __getattr__(self, name):
        return getattr(self._real, name)


def install_symbolic_result(cur):
    """cur: dict with keys Y (SymInt > 0), K, sticky (bool), neg (bool), 'calls' list (filled with requested precisions)"""
    from pysym import shims
    import fpy2.number.gmputils as gu

    def stub(prec, fn, args):
        cur['calls'].append(prec)
        mant, exp, inex = truncate(cur['Y'], prec, -cur['K'], cur['sticky'])
        return FakeMpfr(cur['neg'], mant, exp, inex)
    shims.patch(gu, '_mpfr_call_with_prec', stub)
    shims.patch(gu, 'gmp', GmpShim(gu.gmp))
    shims.install_int_pass(gu)


def install_exact_ops(cur, S=16):
    """float_to_mpfr := identity; _mpfr_call_with_prec := exact result of the symbolic operands, truncated.
    cur['calls'] collects (prec, fn-name)."""
    from pysym import shims
    from pysym.core import SymInt, cur as cur_eng
    import fpy2.number.gmputils as gu
    import fpy2.number.engine.gmp as eg
    gmp = gu.gmp if not isinstance(gu.gmp, GmpShim) else gu.gmp._real

    def ident(x):
        return x

    def signed(x):
        """(m, exp): signed significand and exponent of a finite Float"""
        return (-x.c if x.s else x.c), x.exp

    def stub(prec, fn, args):
        name = getattr(fn, '__name__', repr(fn))
        cur['calls'].append((prec, name))
        e = cur_eng()
        if any(a.is_nar() for a in args):
            raise NotImplementedError('exact-ops stub: special operands are checked concretely against the real MPFR')
        if name == 'copy_sign':
            m, ex = signed(args[0]); m = abs(m)
            if m == 0:
                return FakeMpfr(bool(args[1].s), kind='zero')
            mant, exp, inex = truncate(m, prec, ex, False)
            return FakeMpfr(bool(args[1].s), mant, exp, inex)
        if name in ('add', 'sub', '_gmp_neg', '_gmp_abs', 'mul', 'fma'):
            if name in ('add', 'sub'):
                (m1, e1), (m2, e2) = signed(args[0]), signed(args[1])
                if name == 'sub':
                    m2 = -m2
                ex = min(e1, e2)
                m = (m1 << (e1 - ex)) + (m2 << (e2 - ex))
                zero_neg = args[0].s and (args[1].s != (name == 'sub'))
            elif name == 'mul':
                (m1, e1), (m2, e2) = signed(args[0]), signed(args[1])
                m = m1 * m2; ex = e1 + e2
                zero_neg = args[0].s != args[1].s
            elif name == 'fma':
                (m1, e1), (m2, e2), (m3, e3) = signed(args[0]), signed(args[1]), signed(args[2])
                mp = m1 * m2; ep = e1 + e2
                ex = min(ep, e3)
                m = (mp << (ep - ex)) + (m3 << (e3 - ex))
                zero_neg = (args[0].s != args[1].s) and args[2].s
            elif name == '_gmp_neg':
                m, ex = signed(args[0]); m = -m
                zero_neg = not args[0].s
            else:
                m, ex = signed(args[0]); m = abs(m)
                zero_neg = False
            if m == 0:
                # exact zero: RTZ context -> +0 unless the IEEE sign rule says -0 (both addends negative zero etc.)
                if name in ('add', 'sub', 'fma') and not zero_neg:
                    zero_neg = False
                return FakeMpfr(bool(zero_neg), kind='zero')
            neg = m < 0
            mant, exp, inex = truncate(abs(m), prec, ex, False)
            return FakeMpfr(bool(neg), mant, exp, inex)
        if name == 'div':
            (m1, e1), (m2, e2) = signed(args[0]), signed(args[1])
            neg = args[0].s != args[1].s
            if m2 == 0 or m1 == 0:
                raise NotImplementedError('exact-ops stub: zero operands of div are checked concretely')
            a = abs(m1) << S
            b = abs(m2)
            q = a // b
            r = a - q * b
            mant, exp, inex = truncate(q, prec, e1 - e2 - S, bool(r != 0))
            return FakeMpfr(bool(neg), mant, exp, inex)
        if name == 'sqrt':
            m1, e1 = signed(args[0])
            if m1 <= 0:
                raise NotImplementedError('exact-ops stub: sqrt of zero/negative values is checked concretely')
            # make the exponent even, scale by 2^(2S): Y = floor(sqrt(c * 2^(2S + odd)))
            odd = e1 & 1
            a = m1 << (2 * S + odd)
            Y = e.fresh_aux('sqrtY', 0, (1 << (e.W // 2 - 1)) - 1)
            e.assume(z3.And((Y * Y).t <= a.t if isinstance(a, SymInt) else (Y * Y).t <= a, ((Y + 1) * (Y + 1)).t > (a.t if isinstance(a, SymInt) else a)))
            rem = a - Y * Y
            mant, exp, inex = truncate(Y, prec, ((e1 - odd) >> 1) - S, bool(rem != 0))
            return FakeMpfr(False, mant, exp, inex)
        raise NotImplementedError('exact-ops stub: ' + name)
    shims.patch(gu, '_mpfr_call_with_prec', stub)
    shims.patch(gu, 'gmp', GmpShim(gu.gmp))
    shims.patch(gu, 'float_to_mpfr', ident)
    shims.patch(eg, 'float_to_mpfr', ident)
    shims.install_int_pass(gu)
