"""Concrete judge for C11: the real interpreter versus the C++ evaluator on clang's AST of the emitted text, real operations."""


def replay(case):
    from . import c11, c12, tv
    t = case['task']; inp = case['inputs']
    if case.get('variant') == 'does-not-compile':
        p, f, variants, declined = c11.variants_of(t)
        bad = [(lab, fd[1]) for lab, _t, fd in variants if isinstance(fd, tuple)]
        return {'violates': bool(bad), 'observed': {'clang rejects the emitted translation unit': [list(b) for b in bad[:2]]}, 'key': '%s:does-not-compile' % t['prog']}
    if t.get('special'):
        args = c12.build_concrete(inp['args'])
    else:
        args = list(tv.concrete_args([tuple(c) for c in t['shape']], inp))
    problems, info = c11.judge_concrete(t, args)
    info['arguments'] = [tv._show(a) for a in args]
    info['problems'] = [list(p) for p in problems[:4]]
    key = '%s:%s' % (t['prog'], problems[0][0].split(' (+')[0]) if problems else 'ok'
    return {'violates': bool(problems), 'observed': info, 'key': key}
