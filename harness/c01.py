"""
C01 — Rounding under any context is correct rounding.

The real `Context.round / round_at / round_integer` of every family is executed on operands whose
significand and exponent are symbolic; each feasible path ends in one solver query
`path-condition ∧ ¬(result == correct rounding ∧ flags truthful)`.
"""
import itertools
import os
import time

PROPERTY = 'C01'
LEVEL = 'model_checking'
BUDGET_S = {'quick': 3600, 'thorough': 14400}

from . import ctxgrid as G

TIER = {
    'quick': dict(CW=6, E=6, W=32, WO=40),
    'thorough': dict(CW=9, E=10, W=48, WO=56),
}


def bounds(tier):
    b = dict(TIER[tier])
    b['K'] = b['E'] + 3
    return b


# ---------------------------------------------------------------------------------------------------------
# grids

def _mpb_descs():
    out = []
    # [s, exp, c] maxval; pmax, emin
    out.append(dict(fam='MPBFloat', pmax=3, emin=-2, maxval=[0, 1, 7]))                    # binade-aligned (14)
    out.append(dict(fam='MPBFloat', pmax=3, emin=-2, maxval=[0, 1, 5]))                    # not aligned (10)
    out.append(dict(fam='MPBFloat', pmax=3, emin=-1, maxval=[0, 0, 6], neg_maxval=[1, 2, 5]))  # asymmetric (+6 / -20)
    out.append(dict(fam='MPBFloat', pmax=2, emin=0, maxval=[0, 2, 3], enable_inf=False, inf_value=[0, 2, 3]))
    out.append(dict(fam='MPBFloat', pmax=2, emin=0, maxval=[0, 2, 3], enable_inf=False))
    out.append(dict(fam='MPBFloat', pmax=1, emin=-1, maxval=[0, 3, 1], enable_nan=False, nan_value=[0, 0, 0]))
    return out


def _fixed_descs(tier):
    out = []
    for signed, scale, nbits in [(True, 0, 4), (False, -2, 3), (True, 2, 3), (False, 0, 1), (True, -3, 2)]:
        out.append(dict(fam='Fixed', signed=signed, scale=scale, nbits=nbits))
    out.append(dict(fam='SMFixed', scale=-1, nbits=4))
    out.append(dict(fam='SMFixed', scale=1, nbits=2))
    out.append(dict(fam='MPBFixed', nmin=-2, maxval=[0, -1, 11], neg_maxval=[1, -1, 6]))
    out.append(dict(fam='MPBFixed', nmin=0, maxval=[0, 1, 5], enable_inf=True, enable_nan=True))
    out.append(dict(fam='MPBFixed', nmin=-1, maxval=[0, 0, 9], enable_neg_zero=False, inf_value=[0, 0, 9]))
    if tier == 'thorough':
        for signed, scale, nbits in [(True, -1, 6), (False, 1, 5), (True, 0, 8), (False, -3, 7)]:
            out.append(dict(fam='Fixed', signed=signed, scale=scale, nbits=nbits))
        out.append(dict(fam='SMFixed', scale=0, nbits=6))
    return out


def _efloat_descs(tier, seed):
    import random
    allv = G.valid_efloat(tier)
    out = []
    for (es, nbits, inf, nk) in allv:
        for eo in (0,):
            out.append(dict(fam='EFloat', es=es, nbits=nbits, enable_inf=inf, nan_kind=nk, eoffset=eo))
    rnd = random.Random(seed)
    # a few with non-zero exponent offsets and substitutes
    extra = []
    for (es, nbits, inf, nk) in allv:
        if nbits >= 3:
            extra.append(dict(fam='EFloat', es=es, nbits=nbits, enable_inf=inf, nan_kind=nk, eoffset=rnd.choice([-2, 3])))
    rnd.shuffle(extra)
    out += extra[: (12 if tier == 'quick' else 200)]
    out.append(dict(fam='IEEE', es=2, nbits=4))
    out.append(dict(fam='IEEE', es=3, nbits=6))
    if tier == 'thorough':
        out.append(dict(fam='IEEE', es=4, nbits=8))
        out.append(dict(fam='IEEE', es=2, nbits=7))
    return out


def tasks(tier, seed):
    import random
    rnd = random.Random(seed)
    ts = []
    modes = G.MODES
    # A. kernel with symbolic precision and position
    for rm in modes:
        for s in (0, 1):
            for shape in ('pn', 'p', 'n'):
                ts.append(dict(kind='kernel', name='kernel/%s/%s/s%d' % (shape, rm, s), rm=rm, s=s, shape=shape))
    # B. unbounded families with symbolic parameters
    for fam in ('MPFloat', 'MPSFloat', 'MPFixed'):
        for rm in modes:
            for s in (0, 1):
                ops = ['RealFloat'] if tier == 'quick' and rm not in ('RNE', 'RTP') else ['RealFloat', 'Float', 'FloatFlagged', 'int', 'Fraction']
                for opk in ops:
                    for meth in (['round', 'round_at'] if opk == 'RealFloat' else ['round']):
                        ts.append(dict(kind='ctx', name='sym/%s/%s/s%d/%s/%s' % (fam, rm, s, opk, meth), desc=dict(fam=fam, rm=rm),
                                       symparams=True, s=s, op=opk, meth=meth))
    # C. bounded families on concrete grids
    bounded = _mpb_descs() + _fixed_descs(tier)
    ef = _efloat_descs(tier, seed)
    for d in bounded:
        ovs = ['OVERFLOW', 'SATURATE', 'ASSERT'] + (['WRAP'] if d['fam'] != 'MPBFloat' else [])
        for ov in ovs:
            for rm in modes:
                if tier == 'quick' and ov in ('ASSERT',) and rm not in ('RNE', 'RTZ'):
                    continue
                for s in (0, 1):
                    dd = dict(d, rm=rm, ov=ov)
                    ts.append(dict(kind='ctx', name='grid/%s/s%d/round' % (G.name_of(dd), s), desc=dd, s=s, op='RealFloat', meth='round'))
    # extended floats: every valid format; modes/overflow rotate through the list in quick
    i = 0
    for d in ef:
        for ov in ['OVERFLOW', 'SATURATE', 'ASSERT']:
            for rm in modes:
                i += 1
                if tier == 'quick' and (i + seed) % 6 != 0:
                    continue
                for s in (0, 1):
                    dd = dict(d, rm=rm, ov=ov)
                    ts.append(dict(kind='ctx', name='grid/%s/s%d/round' % (G.name_of(dd), s), desc=dd, s=s, op='RealFloat', meth='round'))
    # other operand kinds / methods / exact=True on a rotating subset of the bounded grid
    allb = bounded + ef
    rnd.shuffle(allb)
    for j, d in enumerate(allb[: (24 if tier == 'quick' else 200)]):
        rm = modes[j % 8]
        ovs = ['OVERFLOW', 'SATURATE'] + (['WRAP'] if d['fam'] in ('Fixed', 'SMFixed', 'MPBFixed') else [])
        ov = ovs[j % len(ovs)]
        dd = dict(d, rm=rm, ov=ov)
        for s in (0, 1):
            for opk, meth, ex in [('Float', 'round', False), ('FloatFlagged', 'round', False), ('int', 'round', False), ('RealFloat', 'round_at', False),
                                  ('RealFloat', 'round_integer', False), ('RealFloat', 'round', True), ('Fraction', 'round', False)]:
                ts.append(dict(kind='ctx', name='grid/%s/s%d/%s/%s%s' % (G.name_of(dd), s, opk, meth, '/exact' if ex else ''),
                               desc=dd, s=s, op=opk, meth=meth, exact=ex))
    # G. non-dyadic operands (Fraction / str reach gmputils.mpfr_value): the exact operand is the symbolic variable of the
    #    MPFR glue lemma (harness/glue.py), rounded through the context's own round()
    gl = [dict(fam='MPFloat', pmax=2), dict(fam='MPSFloat', pmax=3, emin=-1), dict(fam='IEEE', es=2, nbits=5), dict(fam='MPFixed', nmin=-1), dict(fam='MPFixed', nmin=1),
          dict(fam='Fixed', signed=True, scale=0, nbits=5, ov='SATURATE'), dict(fam='SMFixed', scale=-1, nbits=5, ov='SATURATE'), dict(fam='MPBFixed', nmin=0, maxval=[0, 1, 5], ov='SATURATE')]
    for d in gl:
        for rm in (modes if tier == 'thorough' else ['RNE', 'RNA', 'RTP', 'RTZ']):
            for neg in (0, 1):
                for sticky in (0, 1):
                    dd = dict(d, rm=rm)
                    ts.append(dict(kind='glue', name='nondyadic/%s/neg%d/st%d' % (G.name_of(dd), neg, sticky), desc=dd, neg=neg, sticky=sticky))
    # H. exponential contexts (powers of two only): in-range operands round to the correct power of two
    for nb, eo in ((3, 0), (2, 1), (4, -3)):
        for rm in modes:
            for ov in ('OVERFLOW', 'SATURATE'):
                if tier == 'quick' and ov == 'SATURATE' and rm not in ('RNE', 'RTZ'):
                    continue
                ts.append(dict(kind='exp', name='exp/nbits%d/eo%d/%s/%s' % (nb, eo, rm, ov), nbits=nb, eoffset=eo, rm=rm, ov=ov))
    # D. real context
    for s in (0, 1):
        for opk in ('RealFloat', 'Float', 'int'):
            ts.append(dict(kind='ctx', name='real/s%d/%s' % (s, opk), desc=dict(fam='Real'), s=s, op=opk, meth='round'))
    # E. special operands (NaN, infinities): concrete table, every descriptor
    specials = []
    for d in bounded + ef + [dict(fam='MPFloat', pmax=3), dict(fam='MPFloat', pmax=2, enable_nan=False, nan_value=[0, 0, 1]),
                             dict(fam='MPFloat', pmax=2, enable_inf=False), dict(fam='MPSFloat', pmax=2, emin=-1, enable_inf=False, inf_value=[0, 3, 3]),
                             dict(fam='MPFixed', nmin=-2), dict(fam='MPFixed', nmin=0, enable_nan=True, enable_inf=True),
                             dict(fam='MPFixed', nmin=0, nan_value=[0, 1, 5], inf_value=[1, 1, 3]), dict(fam='Real')]:
        specials.append(d)
    for k in range(0, len(specials), 40):
        ts.append(dict(kind='special', name='special/%d' % k, descs=specials[k:k + 40]))
    # F. spec self-check (the oracle against the set definition) for every distinct format shape in the grid
    ts.append(dict(kind='selfcheck', name='selfcheck/efloat-sets', descs=ef))
    for rm in modes:
        ts.append(dict(kind='selfcheck_round', name='selfcheck/round/%s' % rm, rm=rm))
    return ts


def required_witnesses(tier):
    return ['tie', 'carry', 'exact', 'inexact', 'subnormal', 'overflow-arm', 'overflow-to-inf', 'overflow-to-max',
            'saturate', 'wrap', 'assert-raise', 'zero-result', 'neg-zero-cleared', 'exact-raise', 'nondyadic-two-pass', 'exp-top-value', 'exp-out-of-range']


def describe(tier):
    b = bounds(tier)
    R = '/repo/fpy2/number/'
    return dict(
        functions=['Context._round_prepare', 'MPFloatContext.round/round_at/_round_at', 'MPSFloatContext.*', 'MPBFloatContext._round_at/_is_overflowing/_overflow_to_infinity',
                   'EFloatContext.round/round_at/_fixup', 'IEEEContext', 'MPFixedContext._round_at', 'MPBFixedContext._round_at (incl. WRAP via MPFixedFormat.to_ordinal/from_ordinal)',
                   'FixedContext', 'SMFixedContext', 'RealContext.round', 'Context.representable_under', 'RealFloat.round/round_at/_round_params/_round_at/split/_round_increment/_round_increment_direction/_tiny_pre/_tiny_post/normalize/compare',
                   'RoundingMode.to_direction', 'Flags', 'RealFloat.from_int/from_rational', 'Float.__init__'],
        files=[R + 'number/reals.py', R + 'number/floats.py', R + 'number/flags.py', R + 'round.py'] + [R + 'context/' + f for f in
               ('context.py', 'mp_float.py', 'mps_float.py', 'mpb_float.py', 'efloat.py', 'ieee754.py', 'mp_fixed.py', 'mpb_fixed.py', 'fixed.py', 'sm_fixed.py', 'real.py', 'format.py')],
        bounds=dict(significand_bits=b['CW'], exponent_abs=b['E'], engine_width=b['W'], oracle_width=b['WO'], scale_K=b['K'],
                    symbolic_pmax='1..CW+1', symbolic_position='-E-2..E', efloat_nbits_max=5 if tier == 'quick' else 8),
        outside=['operands wider than the stated significand/exponent bounds', 'non-dyadic Fraction operands and str operands (reach gmputils.mpfr_value: see C02/C03 glue lemma)',
                 'python float operands (C struct/math boundary)', 'num_randbits != 0 (C17)', 'ExpContext (its treatment of zero/negative values is not stated by the property)'],
        stubs=['module-level name `int` in reals.py / context.py rebound to a pass-through class (representation only)'],
        assumptions=['z3 decides QF_BV correctly', 'sign of the operand and the class (finite/inf/nan) are enumerated, not symbolic',
                     'overflow under OVERFLOW mode with RTO/RTE may give either infinity or the largest value (not stated by the documentation)',
                     'substitute values may carry the substitute\'s or the operand\'s sign (families differ; not stated)'],
        rule='one case = one feasible path of the real rounding code for a (context, mode, sign, operand kind, method) configuration; its postcondition is decided for all (c, exp[, p, n]) on the path',
        explanation='bounded model checking of the real rounding code by symbolic execution (pysym, z3 QF_BV)',
    )


# ---------------------------------------------------------------------------------------------------------
# worker side

def run_task(task):
    kind = task['kind']
    if kind == 'special':
        return _run_special(task)
    if kind == 'selfcheck':
        return _run_selfcheck_sets(task)
    if kind == 'selfcheck_round':
        return _run_selfcheck_round(task)
    if kind == 'glue':
        return _run_glue(task)
    if kind == 'exp':
        return _run_exp(task)
    return _run_symbolic(task, task.get('tier', 'quick'))


def _engine_stats(eng, extra=None):
    d = dict(paths=eng.paths, decisions=eng.decisions, queries=eng.checks, unsat=eng.unsat, sat=eng.sat, unknown=eng.unknown,
             solve_s=eng.solve_s, requires=eng.requires, aborted=eng.aborted, witness=eng.witness, notes=eng.notes)
    if extra:
        d.update(extra)
    return d


def _run_symbolic(task, tier):
    import z3
    from pysym.core import explore, Engine, SymInt, bv
    from pysym import shims
    from pysym.values import denote_mag
    import spec.dsl as dsl
    from spec.dsl import lift
    from spec import formats as F, ctxround as CR
    from spec.rounding import round_detail
    from .c01_common import outcome_of
    import fpy2.number.number.reals as reals
    import fpy2.number.context.context as cctx
    from fpy2 import RealFloat, Float
    from fractions import Fraction
    b = bounds(tier)
    CW, E, W, K = b['CW'], b['E'], b['W'], b['K']
    dsl.WO = b['WO']
    shims.install_int_pass(reals, cctx)
    shims.stub_formatting()
    s = bool(task['s'])
    samples = []
    cexs = []

    def den(c, exp):
        return denote_mag(c, exp, K, W=dsl.WO)

    if task['kind'] == 'kernel':
        from fpy2 import RM
        rm = RM[task['rm']]
        shape = task['shape']

        def setup(e):
            c = e.fresh('c', 0, (1 << CW) - 1)
            x = e.fresh('exp', -E, E)
            p = e.fresh('p', 1, CW + 1) if 'p' in shape else None
            n = e.fresh('n', -E - 2, E) if 'n' in shape else None
            return c, x, p, n

        def run(e, c, x, p, n):
            X = den(c, x)
            out = outcome_of(lambda: _as_float(RealFloat(s, x, c).round(max_p=p, min_n=n, rm=rm)), K, den)
            d = round_detail(X, s, lift(p) if p is not None else None, lift(n) if n is not None else None, task['rm'], K)
            if out['raised'] is not None:
                post = False
            else:
                post = z3.And(out['D'] == d['R'], z3.BoolVal(out['sign'] == s), z3.BoolVal(out['inexact']) == d['inexact'])
            _covers(e, d, out, None)
            ok = e.require(post, info={'outcome': _pub(out)})
            if len(samples) < 2:
                samples.append({'task': task['name'], 'example_input': e.model_inputs(), 'outcome': _pub(out), 'proved': ok})
        eng = explore(run, setup, W=W, bl_max=W - 6)
        for cx in eng.cex:
            cexs.append(_case(task, cx, b))
        return _engine_stats(eng, dict(cex=cexs, samples=samples))

    # ---- context-level ---------------------------------------------------------------------------------------
    desc = task['desc']
    symp = task.get('symparams', False)
    opk = task['op']
    meth = task['meth']
    exact = task.get('exact', False)
    spec0 = None if symp else F.spec_of(desc)
    ctx0 = None if symp else G.build(desc)

    def setup(e):
        if opk == 'int':
            c = e.fresh('c', 1 if s else 0, (1 << CW) - 1)     # the int -0 is +0
            x = None
        elif opk == 'Fraction':
            c = e.fresh('c', 1, (1 << CW) - 1)
            e.assume((c.t & 1) == 1)
            x = e.fresh('exp', -E, -1)
        else:
            c = e.fresh('c', 0, (1 << CW) - 1)
            x = e.fresh('exp', -E, E)
        pm = em = nm = None
        if symp:
            fam = desc['fam']
            if fam in ('MPFloat', 'MPSFloat'):
                pm = e.fresh('pmax', 1, CW + 1)
            if fam == 'MPSFloat':
                em = e.fresh('emin', -E, E)
            if fam == 'MPFixed':
                nm = e.fresh('nmin', -E - 2, E)
        n_at = e.fresh('n_at', -E - 2, E) if meth == 'round_at' else None
        return c, x, pm, em, nm, n_at

    def run(e, c, x, pm, em, nm, n_at):
        import fpy2 as fp
        if symp:
            fam = desc['fam']
            rm = fp.RM[desc['rm']]
            if fam == 'MPFloat':
                ctx = fp.MPFloatContext(pm, rm); spec = F.FormatSpec(lift(pm), None)
            elif fam == 'MPSFloat':
                ctx = fp.MPSFloatContext(pm, em, rm); spec = F.FormatSpec(lift(pm), lift(em) - lift(pm))
            else:
                ctx = fp.MPFixedContext(nm, rm); spec = F.FormatSpec(None, lift(nm), has_nan=False, has_inf=False)
        else:
            ctx, spec = ctx0, spec0
        if opk == 'RealFloat':
            xo = RealFloat(s, x, c); X = den(c, x)
        elif opk == 'Float':
            xo = Float(s, x, c); X = den(c, x)
        elif opk == 'FloatFlagged':
            # an operand that is itself the result of an earlier (overflowing, inexact) operation: its flags are history
            xo = Float(s, x, c, overflow=True, inexact=True, invalid=True, divzero=True, carry=True, tiny_pre=True, tiny_post=True); X = den(c, x)
        elif opk == 'int':
            xo = -c if s else c; X = den(c, 0)
        elif opk == 'Fraction':
            k = e.choose(x.t)                    # denominator exponent: enumerated
            xo = object.__new__(Fraction)
            xo._numerator = -c if s else c
            xo._denominator = 1 << (-k)
            X = den(c, k)
        if meth == 'round':
            call = lambda: ctx.round(xo, exact=exact) if exact else ctx.round(xo)
            na = None
        elif meth == 'round_at':
            call = lambda: ctx.round_at(xo, n_at)
            na = lift(n_at)
        else:
            call = lambda: ctx.round_integer(xo)
            na = -1
        out = outcome_of(call, K, den)
        post = CR.post_finite(desc, spec, K, s, X, na, out, exact=exact)
        if out['raised'] is None and desc['fam'] != 'Real':
            # the independent membership definition and the repository's own test must both accept the result
            rep = bool(ctx.representable_under(out['_r']))
            post = dsl.And(post, rep)
        d = round_detail(X, s, spec.p, (spec.n if na is None else (na if spec.n is None else dsl.Max(na, spec.n))), desc.get('rm', 'RNE'), K) if desc['fam'] != 'Real' else None
        _covers(e, d, out, spec, desc, K, s, exact)
        ok = e.require(post, info={'outcome': _pub(out)})
        if len(samples) < 2:
            samples.append({'task': task['name'], 'example_input': e.model_inputs(), 'outcome': _pub(out), 'proved': ok})

    eng = explore(run, setup, W=W, bl_max=W - 6)
    for cx in eng.cex:
        cexs.append(_case(task, cx, b))
    return _engine_stats(eng, dict(cex=cexs, samples=samples))


def _as_float(r):
    """RealFloat result -> object with isnan/isinf attributes"""
    class _R:
        pass
    o = _R()
    o.isnan = False; o.isinf = False; o.s = r.s; o.c = r.c; o.exp = r.exp; o.inexact = r.inexact; o.overflow = False
    return o


def _pub(out):
    return {k: (v if isinstance(v, (bool, str, type(None))) else '<term>') for k, v in out.items() if k != '_r'}


def _covers(e, d, out, spec, desc=None, K=None, s=False, exact=False):
    """coverage witnesses: which regions of the property this path reaches"""
    import z3
    from spec import ctxround as CR
    if d is None:
        return
    if out['raised'] is None:
        e.cover('tie', d['tie'])
        e.cover('carry', d['carry'])
        e.cover('exact', d['exact'])
        e.cover('inexact', d['inexact'])
        if out.get('kind') == 'fin':
            e.cover('zero-result', z3.And(d['R'] == 0, d['inexact']))
    if spec is not None and spec.n is not None and spec.p is not None:
        from spec.dsl import bitlen
        # below the normal range: quantum pinned by n
        pass
    if desc is None:
        e.cover('subnormal', True) if False else None
        return
    if spec.n is not None and spec.p is not None and out['raised'] is None:
        e.cover('subnormal', z3.And(d['q'] == spec.n + 1 + K, d['inexact']) if not isinstance(d['q'], int) else False)
    if spec.bounded:
        maxS = CR.scaled(spec.neg_max if s else spec.pos_max, K)
        ovf = d['R'] > maxS
        e.cover('overflow-arm', ovf)
        ov = desc.get('ov', 'OVERFLOW')
        if out['raised'] is None:
            if out.get('kind') == 'inf':
                e.cover('overflow-to-inf', ovf)
            if ov == 'OVERFLOW' and out.get('kind') == 'fin':
                e.cover('overflow-to-max', ovf)
            if ov == 'SATURATE':
                e.cover('saturate', ovf)
            if ov == 'WRAP':
                e.cover('wrap', ovf)
        elif out['raised'] == 'OverflowError':
            e.cover('assert-raise', ovf)
    if out['raised'] == 'ValueError' and exact:
        e.cover('exact-raise', True)
    if out['raised'] is None and out.get('kind') == 'fin' and s and not spec.has_neg_zero and out.get('sign') is False:
        e.cover('neg-zero-cleared', d['R'] == 0)


def _case(task, cx, b):
    if cx.get('unknown') or cx.get('inputs') is None:
        return {'case': None, 'why': 'unknown'}
    t = {k: v for k, v in task.items() if k not in ('name',)}
    return {'case': {'task': t, 'inputs': cx['inputs'], 'K': b['K']}, 'failed_obligations': cx.get('failed_obligations'), 'info': cx.get('info')}


# ---- concrete parts --------------------------------------------------------------------------------------

def _run_special(task):
    from . import c01_replay as RP
    n = 0; cex = []
    samples = []
    for d in task['descs']:
        for rm in ('RNE', 'RTZ'):
            for ov in ('OVERFLOW', 'SATURATE'):
                if d['fam'] in ('MPFloat', 'MPSFloat', 'MPFixed', 'Real') and ov != 'OVERFLOW':
                    continue
                dd = dict(d, rm=rm, ov=ov)
                for cls in ('nan', 'inf'):
                    for s in (0, 1):
                        case = {'task': {'kind': 'special', 'desc': dd, 'cls': cls, 's': s}, 'inputs': {}, 'K': 12}
                        v = RP.replay(case)
                        n += 1
                        if v['violates']:
                            cex.append({'case': case})
                        elif len(samples) < 1:
                            samples.append({'special': cls, 'desc': G.name_of(dd), 'observed': v.get('observed')})
    return dict(paths=0, requires=0, cex=cex, samples=samples, extra={'concrete_special_cases': n})


def _run_selfcheck_sets(task):
    """the (p, n, max) description used by the oracle is exactly the independently decoded value set"""
    from spec import formats as F
    from fractions import Fraction
    n = 0; bad = []
    for d in task['descs']:
        sp = F.spec_of(d)
        vs = getattr(sp, 'value_set', None)
        if vs is None:
            continue
        n += 1
        # every decoded value is a member by (p, n, max) and every (p, n, max) member is decoded
        mx = sp.pos_max
        for v in vs:
            if not sp.contains(v):
                bad.append((G.name_of(d), str(v), 'decoded value outside (p,n,max)'))
        # enumerate members by definition
        u = Fraction(2) ** (sp.n + 1)
        k = 0
        while k * u <= mx:
            v = k * u
            if sp.contains(v) and v not in vs:
                bad.append((G.name_of(d), str(v), 'member by (p,n,max) not decoded'))
            k += 1
        if (-mx in vs) != (mx in vs) and mx != 0:
            bad.append((G.name_of(d), 'asymmetric'))
    if bad:
        raise RuntimeError('oracle self-check failed: %r' % bad[:5])
    return dict(paths=0, requires=0, extra={'selfcheck_value_sets': n}, witness={'selfcheck-sets': 1})


def _run_selfcheck_round(task):
    """lo <= X <= hi, both members, no member strictly between — for symbolic p and n (oracle vs set definition)"""
    import z3
    import spec.dsl as dsl
    from spec.rounding import round_detail, is_member
    dsl.WO = 40
    W = dsl.WO
    K = 9
    X = z3.BitVec('X', W); p = z3.BitVec('p', W); n = z3.BitVec('n', W); M = z3.BitVec('M', W)
    s = z3.Solver()
    s.add(X >= 0, X < (1 << 21), p >= 1, p <= 8, n >= -8, n <= 6, M >= 0, M < (1 << 23))
    q = 0; t0 = time.time()
    res = []
    for shape in ('pn', 'p', 'n'):
        pp = p if 'p' in shape else None
        nn = n if 'n' in shape else None
        for neg in (False, True):
            d = round_detail(X, neg, pp, nn, task['rm'], K)
            lo, hi, R = d['lo'], d['hi'], d['R']
            good = z3.And(lo <= X, X <= hi, is_member(lo, pp, nn, K), is_member(hi, pp, nn, K),
                          z3.Or(R == lo, R == hi), z3.Implies(d['exact'], z3.And(R == X, lo == X)),
                          z3.Implies(z3.And(is_member(M, pp, nn, K), lo < M, M < hi), False),
                          z3.Implies(z3.Not(d['exact']), lo < hi),
                          z3.Implies(is_member(X, pp, nn, K), d['exact']))
            s.push(); s.add(z3.Not(good)); r = s.check(); q += 1
            res.append(str(r)); s.pop()
    if any(r != 'unsat' for r in res):
        raise RuntimeError('rounding oracle self-check failed: %s' % res)
    return dict(paths=0, requires=q, unsat=q, queries=q, solve_s=time.time() - t0, extra={'selfcheck_round_queries': q},
                witness={'selfcheck-round': 1})


def _run_glue(task):
    """ctx.round(<non-dyadic Fraction>): Context._round_prepare -> gmputils.mpfr_value -> mpfr_call -> _round_odd -> _round_at,
    with the MPFR conversion replaced by its contract and the exact operand symbolic (Y + eps) * 2^-K"""
    import z3
    from fractions import Fraction
    from pysym.core import explore
    from pysym import shims
    from pysym.values import denote_mag
    import spec.dsl as dsl
    from spec.dsl import lift
    from spec import formats as F, ctxround as CR
    from spec.rounding import round_detail
    from .c01_common import outcome_of
    from . import glue
    import fpy2.number.number.reals as reals
    import fpy2.number.context.context as cctx
    tier = task.get('tier', 'quick')
    W = 32; dsl.WO = 48; WO = 48
    shims.install_int_pass(reals, cctx)
    shims.stub_formatting()
    desc = task['desc']; neg = bool(task['neg']); sticky = bool(task['sticky'])
    ctx = G.build(desc); sp = F.spec_of(desc)
    YW = 9 if tier == 'quick' else 12
    if sp.p is not None:
        K = sp.p + 5; ylo = 1 << (sp.p + 2)
    else:
        K = max(1 - sp.n, 2) + 1; ylo = 2
    cur = {'calls': []}
    glue.install_symbolic_result(cur)
    samples = []

    def setup(e):
        return (e.fresh('Y', ylo, (1 << YW) - 1),)

    def run(e, Y):
        cur.update(Y=Y, K=K, sticky=sticky, neg=neg); cur['calls'] = []
        X = (lift(Y) << 1) | (1 if sticky else 0)
        out = outcome_of(lambda: ctx.round(Fraction(1, 3)), K + 1, lambda c, x: denote_mag(c, x, K + 1, W=WO))
        for pr in cur['calls']:
            e.oblige(lift(Y.bit_length()) >= lift(pr), 'model-has-fewer-digits-than-requested')
        post = CR.post_finite(desc, sp, K + 1, neg, X, None, out)
        d = round_detail(X, neg, sp.p, sp.n, desc['rm'], K + 1)
        e.oblige(d['q'] >= 1, 'rounding-position-above-model-lsb')
        if len(cur['calls']) == 2:
            e.cover('nondyadic-two-pass', True)
        ok = e.require(post, info={'requested': [str(c) for c in cur['calls']]})
        if len(samples) < 2:
            samples.append({'task': task['name'], 'exact_operand': dict(e.model_inputs(), K=K, sticky=sticky, neg=neg), 'proved': ok})
    eng = explore(run, setup, W=W, bl_max=W - 6)
    cexs = []
    for cx in eng.cex:
        if cx.get('unknown') or cx.get('inputs') is None:
            cexs.append({'case': None})
        else:
            tt = {k: v for k, v in task.items() if k not in ('name', 'cost')}
            cexs.append({'case': {'task': tt, 'inputs': cx['inputs'], 'K': K}, 'failed_obligations': cx.get('failed_obligations')})
    return _engine_stats(eng, dict(cex=cexs, samples=samples))


def _run_exp(task):
    """ExpContext: members are the powers of two 2^emin..2^emax (and NaN). An operand whose 1-digit rounding lies in that
    range must round to it; everything else must give a member (NaN, the minimum or the maximum value)."""
    import z3
    from pysym.core import explore
    from pysym import shims
    from pysym.values import denote_mag
    import spec.dsl as dsl
    from spec.rounding import round_detail
    from .c01_common import outcome_of
    import fpy2 as fp
    from fpy2 import RealFloat
    import fpy2.number.number.reals as reals
    import fpy2.number.context.context as cctx
    W = 32; dsl.WO = 48; WO = 48
    shims.install_int_pass(reals, cctx)
    shims.stub_formatting()
    nb, eo, rm = task['nbits'], task['eoffset'], task['rm']
    ctx = fp.ExpContext(nb, eo, fp.RM[rm], fp.OV[task['ov']])
    bias = (1 << (nb - 1)) - 1 - eo
    emin, emax = -bias, (1 << nb) - 2 - bias
    CW, E = 5, max(abs(emin), abs(emax)) + 3
    K = E + 2
    samples = []

    def setup(e):
        return e.fresh('c', 1, (1 << CW) - 1), e.fresh('exp', -E, E)

    def run(e, c, x):
        X = denote_mag(c, x, K, W=WO)
        out = outcome_of(lambda: ctx.round(RealFloat(False, x, c)), K, lambda cc, xx: denote_mag(cc, xx, K, W=WO))
        d = round_detail(X, False, 1, None, rm, K)
        R = d['R']
        lo, hi = 1 << (emin + K), 1 << (emax + K)
        inr = z3.And(R >= lo, R <= hi)
        e.cover('exp-top-value', R == hi); e.cover('exp-out-of-range', z3.Not(inr))
        if out['raised'] is not None:
            post = z3.Not(inr) if out['raised'] in ('ValueError', 'OverflowError') else False
        elif out['kind'] == 'nan':
            # below the smallest member a mode that rounds a positive value upward has a member to go to (the minimum): NaN is wrong there
            post = z3.And(z3.Not(inr), z3.Not(R < lo)) if (rm in ('RTP', 'RAZ') and task['ov'] == 'OVERFLOW') else z3.Not(inr)
        elif out['kind'] == 'fin' and rm in ('RTZ', 'RTN') and task['ov'] == 'OVERFLOW':
            # toward zero there is no member below the minimum: the minimum (which lies above the operand) is not a correct result
            post = z3.And(z3.BoolVal(out['sign'] is False), inr if True else False, out['D'] == R, z3.BoolVal(bool(out['inexact'])) == d['inexact']) if False else \
                z3.And(z3.BoolVal(out['sign'] is False), z3.Not(R < lo), z3.If(inr, z3.And(out['D'] == R, z3.BoolVal(bool(out['inexact'])) == d['inexact']), z3.And(out['D'] == hi, z3.BoolVal(bool(out['inexact']) and bool(out['overflow'])))))
        elif out['kind'] == 'fin':
            post = z3.And(z3.BoolVal(out['sign'] is False), z3.If(inr, z3.And(out['D'] == R, z3.BoolVal(bool(out['inexact'])) == d['inexact']),
                                                                         # out of range: the bound on the side that was exceeded; the value changed (inexact), and above the top the overflow flag is raised
                                                                         z3.If(R > hi, z3.And(out['D'] == hi, z3.BoolVal(bool(out['inexact']) and bool(out['overflow']))), z3.And(out['D'] == lo, z3.BoolVal(bool(out['inexact']))))))
        else:
            post = False
        ok = e.require(post, info={'outcome': _pub(out)})
        if len(samples) < 2:
            samples.append({'task': task['name'], 'example_input': e.model_inputs(), 'outcome': _pub(out), 'proved': ok})
    eng = explore(run, setup, W=W, bl_max=W - 6)
    cexs = []
    for cx in eng.cex:
        if cx.get('unknown') or cx.get('inputs') is None:
            cexs.append({'case': None})
        else:
            tt = {k: v for k, v in task.items() if k not in ('name', 'cost')}
            cexs.append({'case': {'task': tt, 'inputs': cx['inputs'], 'K': K}, 'failed_obligations': cx.get('failed_obligations')})
    return _engine_stats(eng, dict(cex=cexs, samples=samples))
