from . import tv, c08


def replay(case):
    return tv.replay_with_timeout(case, c08.variants_of)
