"""
Independent reading of FPy literal spellings (oracle for C06).  No regular expressions, no float(), no Fraction(str):
characters are consumed one by one and the value is assembled from Python integers.
"""
from fractions import Fraction

DIG = {c: i for i, c in enumerate('0123456789abcdef')}


def exact_decimal(text):
    """value of a Python decimal float/int literal spelling (underscores, upper-case E, '1.', '.5' allowed); (sign_negative, Fraction)"""
    s = text.strip().replace('_', '')
    neg = False
    k = 0
    if k < len(s) and s[k] in '+-':
        neg = s[k] == '-'; k += 1
    ip = 0; nd = 0
    while k < len(s) and s[k] in '0123456789':
        ip = ip * 10 + DIG[s[k]]; k += 1; nd += 1
    fp_ = 0; fl = 0
    if k < len(s) and s[k] == '.':
        k += 1
        while k < len(s) and s[k] in '0123456789':
            fp_ = fp_ * 10 + DIG[s[k]]; fl += 1; k += 1
    if nd == 0 and fl == 0:
        raise ValueError(text)
    ex = 0
    if k < len(s) and s[k] in 'eE':
        k += 1
        eneg = False
        if s[k] in '+-':
            eneg = s[k] == '-'; k += 1
        ed = 0
        while k < len(s) and s[k] in '0123456789':
            ex = ex * 10 + DIG[s[k]]; k += 1; ed += 1
        if ed == 0:
            raise ValueError(text)
        if eneg:
            ex = -ex
    if k != len(s):
        raise ValueError(text)
    num = ip * 10 ** fl + fp_
    e10 = ex - fl
    v = Fraction(num * 10 ** e10, 1) if e10 >= 0 else Fraction(num, 10 ** (-e10))
    return neg, (-v if neg else v)


def exact_hex(text):
    """value of a hexadecimal float string  [sign] 0x h[.h] [p exp]  (lower case, as FPy's pattern reads it)"""
    s = text.strip()
    neg = False; k = 0
    if s[k] in '+-':
        neg = s[k] == '-'; k += 1
    if s[k:k + 2] != '0x':
        raise ValueError(text)
    k += 2
    ip = 0; nd = 0
    while k < len(s) and s[k] in DIG:
        ip = ip * 16 + DIG[s[k]]; k += 1; nd += 1
    fp_ = 0; fl = 0
    if k < len(s) and s[k] == '.':
        k += 1
        while k < len(s) and s[k] in DIG:
            fp_ = fp_ * 16 + DIG[s[k]]; fl += 1; k += 1
    ex = 0
    if k < len(s) and s[k] == 'p':
        k += 1; eneg = False
        if s[k] in '+-':
            eneg = s[k] == '-'; k += 1
        while k < len(s) and s[k] in '0123456789':
            ex = ex * 10 + DIG[s[k]]; k += 1
        if eneg:
            ex = -ex
    if k != len(s) or (nd == 0 and fl == 0):
        raise ValueError(text)
    num = ip * 16 ** fl + fp_
    e2 = ex - 4 * fl
    v = Fraction(num * 2 ** e2, 1) if e2 >= 0 else Fraction(num, 2 ** (-e2))
    return neg, (-v if neg else v)


def show(v):
    from fpy2 import Float
    if isinstance(v, Float):
        if v.isnan:
            return 'nan'
        if v.isinf:
            return '-inf' if v.s else '+inf'
        r = v.as_rational()
        return '-0' if (r == 0 and v.s) else str(r)
    return str(v)


def round_frac(q, p, rm):
    """q (Fraction) rounded to p significant binary digits (unbounded exponent) under rm in RNE/RTZ/RAZ/RTP/RTN/RNA; exact Fraction result"""
    if q == 0:
        return Fraction(0)
    neg = q < 0
    a = -q if neg else q
    # find e with 2^(p-1) <= a / 2^e < 2^p
    e = a.numerator.bit_length() - a.denominator.bit_length() - p
    while a / Fraction(2) ** e >= 2 ** p:
        e += 1
    while a / Fraction(2) ** e < 2 ** (p - 1):
        e -= 1
    m = a / Fraction(2) ** e
    lo = m.numerator // m.denominator
    rem = m - lo
    if rem == 0:
        r = lo
    else:
        up = {'RTZ': False, 'RAZ': True, 'RTP': not neg, 'RTN': neg}.get(rm)
        if up is None:
            half = Fraction(1, 2)
            if rem > half:
                up = True
            elif rem < half:
                up = False
            else:
                up = (lo % 2 == 1) if rm == 'RNE' else True
        r = lo + 1 if up else lo
    v = Fraction(r) * Fraction(2) ** e
    return -v if neg else v
