"""Concrete judge for C13: traced run on the unpatched code with the real operations."""


def replay(case):
    from . import c13, c04, corpus, tv
    t = case['task']; inp = case['inputs']
    p = next(q for q in corpus.P if q['name'] == t['prog'])
    if t['kind'] == 'special':
        args = c04.build_concrete(inp['args'])
    else:
        args = tv.concrete_args([tuple(c) for c in t['shape']], inp)
    bad, n = c13.concrete_violations(p, args, tv.caller_ctx())
    if case.get('fact'):
        bad = [b for b in bad if b[0] == case['fact']] or bad
    return {'violates': bool(bad), 'observed': {'program': p['name'], 'arguments': [tv._show(a) for a in args], 'facts checked': n, 'contradicted': [[k, {a: str(b)[:120] for a, b in i.items()}] for k, i in bad[:3]]},
            'key': '%s:%s' % (p['name'], bad[0][0] if bad else 'ok')}
