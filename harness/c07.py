"""
C07 — simplify never changes what a program returns.

Constant folding, copy propagation and dead-code elimination run concretely (every subset of the enable_* switches of
`simplify`, each pass alone, and every order of the three passes); original and result run symbolically side by side
through the real interpreter (harness/tv.py).
"""
import itertools

PROPERTY = 'C07'
LEVEL = 'translation_validation'
BUDGET_S = {'quick': 3600, 'thorough': 14400}

from . import tv, corpus


def _programs(tier):
    return corpus.P


def tasks(tier, seed):
    ts = []
    for p in _programs(tier):
        for shape in tv.arg_shapes(p, tier):
            if tier == 'quick' and 'heavy' in p['tags'] and sum(c[1] for c in shape if c[0] == 'list') > 2:
                continue
            ts.append(dict(kind='tv', name='simplify/%s/%s' % (p['name'], '-'.join(str(c[-1]) if len(c) > 1 else 'r' for c in shape)), prog=p['name'], shape=[list(c) for c in shape],
                           cost=sum(c[1] if c[0] == 'list' else 1 for c in shape)))
    return ts


def required_witnesses(tier):
    return ['returns', 'program-changed']


def variants_of(task):
    from fpy2 import strategies as st
    from fpy2.transform import ConstFold, CopyPropagate, DeadCodeEliminate
    p = next(q for q in corpus.P if q['name'] == task['prog'])
    f, _ = tv.load_program(p)
    ctx = tv.caller_ctx()
    out = []
    crashed = []

    def add(label, thunk):
        from fpy2.strategies import TransformDeclined
        try:
            out.append((label, f, thunk(), (ctx, ctx)))
        except TransformDeclined:
            pass
        except tv.TransformTimeout:
            raise
        except Exception as ex:  # noqa  a pass that crashes produces no program: recorded, not a change of result
            crashed.append('%s: %r' % (label, ex))
    flags = ['enable_const_fold', 'enable_copy_prop', 'enable_dead_code_elim']
    for combo in itertools.product([False, True], repeat=3):
        if not any(combo):
            continue
        kw = dict(zip(flags, combo))
        add('simplify(%s)' % ','.join(k.replace('enable_', '') for k, v in kw.items() if v), lambda kw=kw: st.simplify(f, **kw))
    add('simplify(no-context-fold)', lambda: st.simplify(f, enable_const_fold_context=False))
    add('simplify(no-op-fold)', lambda: st.simplify(f, enable_const_fold_op=False))
    passes = {'cf': lambda a: ConstFold.apply(a), 'cp': lambda a: CopyPropagate.apply(a), 'dce': lambda a: DeadCodeEliminate.apply(a)}

    def chain(order):
        a = f.ast
        for k in order:
            a = passes[k](a)
        return f.with_ast(a)
    for order in itertools.permutations(passes):
        add('passes(%s)' % '>'.join(order), lambda order=order: chain(order))
    for k in passes:
        add('pass(%s)' % k, lambda k=k: chain([k]))
    variants_of.crashed = crashed
    # drop variants that produce a program already in the list
    seen = {}; uniq = []
    for v in out:
        txt = v[2].format()
        if txt not in seen:
            seen[txt] = v[0]; uniq.append(v)
    return uniq


def describe(tier):
    R = '/repo/fpy2/'
    return dict(
        functions=['strategies.simplify', 'transform.ConstFold/CopyPropagate/DeadCodeEliminate (+SubstVar)', 'analysis.PartialEval/DefineUse/ReachingDefs/Purity/LiveVars (through the passes)',
                   'interpret.byte.BytecodeCompiler/BytecodeInterpreter.eval on original and result (symbolic arguments)'],
        files=[R + 'strategies/simple.py', R + 'transform/const_fold.py', R + 'transform/copy_propagate.py', R + 'transform/dead_code.py', R + 'transform/subst_var.py', R + 'analysis/partial_eval.py',
               R + 'analysis/define_use.py', R + 'analysis/reaching_defs.py', R + 'analysis/purity.py', R + 'analysis/live_vars.py'],
        bounds=dict(programs=len(_programs(tier)), argument_significand_bits=tv.TIER[tier]['CW'], argument_exponent=tv.EXP0, list_lengths='as listed per program (0..5)', loops='as long as the enumerated lengths / counts'),
        outside=['programs outside the corpus', 'arguments outside half-integers of the stated width (specials: see C04)', 'elementary functions and division in program bodies'],
        stubs=['ops.add/sub/mul/fma/neg/fabs/round -> validated summaries (C20 validates them exhaustively on its domain, C02 proves them)', 'int / Fraction proxies, number formatting'],
        assumptions=['the original and the result are evaluated under the same caller context MPSFloatContext(4, -3)'],
        rule='one case = one feasible joint path of (original, transformed) for a (program, argument shape) with every transform variant compared on it',
        explanation='translation validation per (program, transform variant): transforms run concretely, programs run symbolically, equality decided by z3',
    )


def run_task(task):
    try:
        vs = tv.with_timeout(lambda: variants_of(task), 90)
    except tv.TransformTimeout:
        return tv.timeout_result(task, 'simplify / a pass did not terminate on %s' % task['prog'])
    p = next(q for q in corpus.P if q['name'] == task['prog'])
    f, _ = tv.load_program(p)
    changed = [v for v in vs if v[2].format() != v[1].format()]
    if not vs:
        return dict(paths=0, requires=0, cex=[], samples=[], witness={}, notes=['every variant crashed: %s' % getattr(variants_of, 'crashed', [])[:2]], extra={'transform_crashes': len(getattr(variants_of, 'crashed', []))})
    res = tv.run_joint(task, changed or vs[:1], task.get('tier', 'quick'))
    cr = getattr(variants_of, 'crashed', [])
    if cr:
        res.setdefault('notes', []).append('transform crashed (no program produced): %s' % cr[0][:160])
        res.setdefault('extra', {})['transform_crashes'] = len(cr)
    if changed:
        res['witness']['program-changed'] = res['witness'].get('program-changed', 0) + 1
    return res
