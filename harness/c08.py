"""
C08 — Loop and iterator restructuring preserves results.

unroll_for / unroll_while (every loop by index and all at once, counts 1..4, both remainder strategies), split (factors
1..4, both strategies, every loop), elim_iter (zip / enumerate) and fuse (any / all over comprehensions) run
concretely; original and result run symbolically side by side (harness/tv.py) for every enumerated list length
0..5, so every residue class of every factor and "shorter than the factor" are inside the bound.
"""
PROPERTY = 'C08'
LEVEL = 'translation_validation'
BUDGET_S = {'quick': 3600, 'thorough': 14400}

from . import tv, corpus


def _programs(tier):
    return corpus.by_tag('loop', 'unroll_for', 'unroll_while', 'split', 'elim_iter', 'fuse', 'comprehension')


def tasks(tier, seed):
    ts = []
    for p in _programs(tier):
        for shape in tv.arg_shapes(p, 'thorough'):
            if tier == 'quick' and 'heavy' in p['tags'] and sum(c[1] for c in shape if c[0] == 'list') > 2:
                continue        # symbolic x symbolic products / many comparisons: longer lists in the thorough tier
            ts.append(dict(kind='tv', name='loops/%s/%s' % (p['name'], '-'.join(str(c[-1]) if len(c) > 1 else 'r' for c in shape)), prog=p['name'], shape=[list(c) for c in shape],
                           cost=sum(c[1] if c[0] == 'list' else 1 for c in shape)))
    return ts


def required_witnesses(tier):
    return ['returns', 'program-changed', 'precondition-refusal']


def _lens(task):
    return [c[1] for c in task['shape'] if c[0] in ('list', 'int')]


def variants_of(task):
    from fpy2 import strategies as st
    from fpy2.strategies import TransformDeclined, TransformError
    from fpy2.transform.for_unroll import ForUnrollStrategy
    from fpy2.transform.split_loop import SplitLoopStrategy
    p = next(q for q in corpus.P if q['name'] == task['prog'])
    f, _ = tv.load_program(p)
    ctx = tv.caller_ctx()
    out = []
    lens = _lens(task)

    def add(label, thunk, allow=None):
        try:
            g = thunk()
        except (TransformDeclined, TransformError, ValueError, TypeError):
            return
        out.append((label, f, g, (ctx, ctx)) + ((allow,) if allow else ()))

    def strict_ok(k):
        # STRICT asserts divisibility at run time: an AssertionError is its documented refusal exactly when, on this run, some for
        # loop of the ORIGINAL program iterates a number of times that is not a multiple of k (the trip count of
        # `range(1, len(xs) + 1, 2)` is not a list length, so the counts are observed on a traced run of the original)
        def allow(ex, args=None):
            if not isinstance(ex, AssertionError):
                return False
            if args is None:
                return any(n % k != 0 for n in lens)
            return any(n % k != 0 for n in trip_counts(f, args, ctx))
        allow.wants_args = True
        return allow

    def nsites(strategy, **kw):
        try:
            return len(st.sites(strategy, f, **kw))
        except Exception:  # noqa
            return 0
    nfor = nsites(st.unroll_for)
    nwhile = nsites(st.unroll_while)
    for times in (1, 2, 3, 4):
        for strat in ForUnrollStrategy:
            for where in [None] + list(range(nfor)):
                if nfor:
                    add('unroll_for(times=%d,%s,where=%s)' % (times, strat.name, where), lambda: st.unroll_for(f, where, times, strategy=strat), strict_ok(times + 1) if strat.name == 'STRICT' else None)
        for where in [None] + list(range(nwhile)):
            if nwhile:
                add('unroll_while(times=%d,where=%s)' % (times, where), lambda: st.unroll_while(f, where, times))
    nsplit = nsites(st.split, factor=2) if nfor else 0
    for factor in (1, 2, 3, 4):
        for strat in SplitLoopStrategy:
            for where in [None] + list(range(nfor)):
                if nfor:
                    add('split(factor=%d,%s,where=%s)' % (factor, strat.name, where), lambda: st.split(f, factor, where, strategy=strat), strict_ok(factor) if strat.name == 'STRICT' else None)
    if 'split_var' in p['tags']:
        # the factor is read from the parameter k (a run-time value): STRICT asserts divisibility by it
        kval = next(c[1] for c in task['shape'] if c[0] == 'int')
        for strat in SplitLoopStrategy:
            add('split(factor=k,%s)' % strat.name, lambda: st.split(f, 'k', None, strategy=strat),
                (lambda ex: isinstance(ex, AssertionError)) if (strat.name == 'STRICT' and any(n % kval != 0 for n in lens[:1])) else None)
    add('elim_iter', lambda: st.elim_iter(f))
    add('elim_iter(no-zip)', lambda: st.elim_iter(f, enable_zip=False))
    add('elim_iter(no-enumerate)', lambda: st.elim_iter(f, enable_enumerate=False))
    add('fuse', lambda: st.fuse(f))
    # compositions the documentation recommends: iterators first, then the loop operators
    def comp():
        g = st.elim_iter(f)
        return st.unroll_for(g, None, 1)
    add('elim_iter>unroll_for(1)', comp)
    add('split(2)>unroll_for(1)', lambda: st.unroll_for(st.split(f, 2), None, 1))
    seen = {f.format(): 'original'}; uniq = []
    for v in out:
        txt = v[2].format()
        if txt not in seen:
            seen[txt] = v[0]; uniq.append(v)
    return uniq


def trip_counts(f, args, ctx):
    """number of iterations of every for loop the original program enters on these arguments (traced run of the original)"""
    from . import tracer
    from fpy2.ast import fpyast as A
    from fpy2.ast.visitor import DefaultVisitor
    from fpy2.interpret import byte
    iters = set()

    class V(DefaultVisitor):
        def _visit_for(self, stmt, c):
            iters.add(id(stmt.iterable))
            return super()._visit_for(stmt, c)
    V()._visit_function(f.ast, None)
    counts = []

    def cb(e, v):
        if id(e) in iters:
            try:
                counts.append(len(v))
            except TypeError:
                pass
        return v
    try:
        tracer.run_traced(byte.BytecodeInterpreter(), f, args, ctx, cb)
    except Exception:  # noqa
        pass
    return counts


def describe(tier):
    R = '/repo/fpy2/'
    return dict(
        functions=['strategies.unroll_for/unroll_while/split/elim_iter/fuse', 'transform.for_unroll/while_unroll/split_loop/zip_elim/enumerate_elim/iter_elim/reduce_fusion/rename_target', 'utils.gensym',
                   'interpret.byte on original and result (symbolic arguments)'],
        files=[R + 'strategies/loop_unroll.py', R + 'strategies/loop_split.py', R + 'strategies/iter_elim.py', R + 'strategies/reduce_fusion.py', R + 'transform/for_unroll.py', R + 'transform/while_unroll.py',
               R + 'transform/split_loop.py', R + 'transform/zip_elim.py', R + 'transform/enumerate_elim.py', R + 'transform/iter_elim.py', R + 'transform/reduce_fusion.py', R + 'transform/rename_target.py',
               R + 'transform/utils.py', R + 'utils/gensym.py'],
        bounds=dict(programs=len(_programs(tier)), list_lengths='0..5 (every residue of every factor <= 4)', unroll_counts='1..4', split_factors='1..4 (constant)', argument_significand_bits=tv.TIER[tier]['CW']),
        outside=['variable split factors', 'programs outside the corpus', 'list lengths above 5'],
        stubs=['validated operation summaries; int / Fraction proxies; number formatting'],
        assumptions=['STRICT variants may refuse (AssertionError) exactly when some enumerated length is not a multiple of the factor'],
        rule='one case = one feasible joint path of (original, every transformed variant) for a (program, argument shape)',
        explanation='translation validation per (program, transform variant)',
    )


def run_task(task):
    try:
        vs = tv.with_timeout(lambda: variants_of(task), 120)
    except tv.TransformTimeout:
        return tv.timeout_result(task, 'a loop transform did not terminate on %s' % task['prog'])
    if not vs:
        return dict(paths=0, requires=0, cex=[], samples=[{'task': task['name'], 'note': 'no transform applies'}], witness={}, extra={'programs_without_rewrite': 1})
    res = tv.run_joint(task, vs, task.get('tier', 'quick'))
    res['witness']['program-changed'] = res['witness'].get('program-changed', 0) + 1
    return res
