"""Concrete judge for C17: for the operand of the case, enumerate every draw on the unpatched code and check
the counting statement of the property directly."""
import random
from fractions import Fraction
from . import ctxgrid as G


def _round_grid(v: Fraction, unit: Fraction, rm: str, neg: bool) -> Fraction:
    """round magnitude v to a multiple of unit by mode rm (sign `neg`)"""
    qf = v / unit
    lo = qf.numerator // qf.denominator
    rem = qf - lo
    if rem == 0:
        return v
    even = lo % 2 == 0
    half = Fraction(1, 2)
    up = {'RNE': rem > half or (rem == half and not even), 'RNA': rem >= half, 'RTP': not neg, 'RTN': neg,
          'RTZ': False, 'RAZ': True, 'RTO': even, 'RTE': not even}[rm]
    return (lo + (1 if up else 0)) * unit


class Scripted(random.Random):
    def __init__(self, r):
        super().__init__()
        self.r = r; self.calls = 0

    def getrandbits(self, k):
        self.calls += 1
        return self.r


class NumpyLike:
    def __init__(self, r):
        self.r = r; self.calls = 0

    def integers(self, lo, hi):
        self.calls += 1
        return self.r


def replay(case):
    import fpy2 as fp
    from fpy2 import RealFloat
    from spec import formats as F
    t = case['task']; inp = case['inputs']
    if t['kind'] == 'glue':
        from .c02_replay import replay as r2
        return r2(case)
    s = bool(t['s']); c = inp['c']; exp = inp['exp']; k = t['k']
    x = RealFloat(s, exp, c)
    v = Fraction(c) * Fraction(2) ** exp
    if t['kind'] == 'kernel':
        P, N = t['p'], t['n']; base = t['rm']
        mk = lambda rng: (lambda: x.round(max_p=P, min_n=N, rm=fp.RM[base], num_randbits=k, rng=rng))
    else:
        desc = t['desc']; sp = F.spec_of(desc); P, N = sp.p, sp.n; base = desc['rm']
        mk = lambda rng: (lambda: G.build(desc, rng=rng, num_randbits=k).round(x))
    # neighbours
    e = c.bit_length() - 1 + exp
    n = N if P is None else (e - P if N is None else max(N, e - P))
    gap = Fraction(2) ** (n + 1)
    lo = _round_grid(v, gap, 'RTZ', s); hi = _round_grid(v, gap, 'RAZ', s)
    rep = lo == hi
    kk = max(0, n + 1 - exp) if k is None else k
    unit = gap / (1 << kk)
    T = (_round_grid(v, unit, base, s) - lo) / unit
    assert T.denominator == 1
    T = int(T)
    away = 0; bad = []
    Rng = NumpyLike if t.get('rng') == 'numpy' else Scripted
    results = {}
    for r in range(1 << kk):
        rng = Rng(r)
        try:
            y = mk(rng)()
        except Exception as ex:  # noqa
            bad.append(('raised', r, repr(ex)[:100])); continue
        yv = Fraction(int(y.c)) * Fraction(2) ** int(y.exp)
        if getattr(y, 'isinf', False) or getattr(y, 'isnan', False):
            bad.append(('special', r)); continue
        if yv not in (lo, hi) or (yv != 0 and bool(y.s) != s):
            bad.append(('not-a-neighbour', r, str(yv)))
        if rep and yv != v:
            bad.append(('representable-changed', r, str(yv)))
        if rng.calls != 1:
            bad.append(('draws', r, rng.calls))
        # determinism
        y2 = mk(Rng(r))()
        if (y2.c, y2.exp, y2.s) != (y.c, y.exp, y.s):
            bad.append(('not-a-function-of-draw', r))
        if not rep and yv == hi:
            away += 1
        results[r] = str(yv)
    if not rep and away != T:
        bad.append(('count', away, 'expected', T))
    key = 'count-after-carry' if (not rep and T == (1 << kk) and any(b[0] == 'count' for b in bad) and len(bad) == 1) else 'other'
    return {'violates': bool(bad), 'observed': {'x': str(v), 'lo': str(lo), 'hi': str(hi), 'k': kk, 'T_expected_away_draws': T,
            'away_draws': away, 'problems': bad[:5], 'results_by_draw': dict(list(results.items())[:8])}, 'key': key}
