"""Concrete judge for C12: reference FPCore evaluator (real operations) and titanfp's interpreter on the core versus the real
FPy interpreter on f / on the re-read functions; no shims, no summaries."""


def replay(case):
    from . import c12, tv
    t = case['task']; inp = case['inputs']
    if t.get('special'):
        args = c12.build_concrete(inp['args'])
    else:
        args = list(tv.concrete_args([tuple(c) for c in t['shape']], inp))
    problems, info = c12.judge_concrete(t, args)
    info['arguments'] = [tv._show(a) for a in args]
    if case.get('variant'):
        lab = case['variant'].split(':')[0]
        mine = [p for p in problems if p[0].split(':')[0] == lab]
        problems = mine or problems
    if problems and info.get('reference-disagrees-with-titanfp'):
        # the reference evaluator itself is in doubt on this input: not a verdict about fpy
        return {'violates': None, 'error': 'reference FPCore evaluator disagrees with titanfp on this input: %s' % info, 'observed': info}
    info['problems'] = [list(p) for p in problems[:4]]
    key = '%s:%s' % (t['prog'], problems[0][0]) if problems else 'ok'
    return {'violates': bool(problems), 'observed': info, 'key': key}
