from . import tv, c09


def replay(case):
    return tv.replay_with_timeout(case, c09.variants_of)
