"""Concrete judge for C05 on the unpatched code (Fractions as the reference)."""
import math
from fractions import Fraction


def _mk(kind, s, inp, tag):
    from fpy2 import Float, RealFloat
    s = bool(s)
    if kind in ('RealFloat', 'Float'):
        c, e = inp['c' + tag], inp['e' + tag]
        return (RealFloat if kind == 'RealFloat' else Float)(s, e, c), Fraction(-c if s else c) * Fraction(2) ** e
    if kind == 'int':
        c = inp['c' + tag]
        v = -c if s else c
        return v, Fraction(v)
    c, k = inp['c' + tag], inp['k' + tag]
    f = Fraction(-c if s else c, 1 << k)
    return f, f


def _val(r):
    from fpy2 import Float
    if isinstance(r, Float) and r.isnan:
        return 'nan'
    if isinstance(r, Float) and r.isinf:
        return '-inf' if r.s else '+inf'
    return Fraction(-int(r.c) if r.s else int(r.c)) * Fraction(2) ** int(r.exp)


def replay(case):
    from fpy2 import Float, RealFloat
    from fpy2.utils import Ordering
    t = case['task']; inp = case['inputs']; kind = t['kind']
    problems = []
    key = kind
    try:
        if kind == 'special':
            return {'violates': True, 'observed': inp, 'key': 'special:' + str(inp['row'][0])}
        if kind == 'arith':
            a, va = _mk(t['ka'], t['sa'], inp, 'a'); b, vb = _mk(t['kb'], t['sb'], inp, 'b')
            op = t['op']
            r = a + b if op == 'add' else a - b if op == 'sub' else a * b
            ex = va + vb if op == 'add' else va - vb if op == 'sub' else va * vb
            if not isinstance(r, (RealFloat, Float)) or _val(r) != ex:
                problems.append((op, str(_val(r) if isinstance(r, (RealFloat, Float)) else r), str(ex)))
            elif ex == 0:
                sa, sb = bool(t['sa']), bool(t['sb'])
                zs = (sa != sb) if op == 'mul' else (sa and sb) if op == 'add' else (sa and not sb and t['kb'] in ('RealFloat', 'Float'))
                if bool(r.s) != zs:
                    problems.append(('sign of zero', op, bool(r.s), zs))
            key = 'arith:' + op
        elif kind == 'unary':
            a, va = _mk(t['ka'], t['s'], inp, 'a'); b, vb = _mk(t['ka'], t['s'], inp, 'p')
            s = bool(t['s'])
            for nm, r, ev, es in (('neg', -a, -va, not s), ('pos', +a, va, s), ('abs', abs(a), abs(va), False)):
                if _val(r) != ev or bool(r.s) != es:
                    problems.append((nm, str(_val(r)), bool(r.s), str(ev), es))
            for n in range(5):
                r = b ** n
                if _val(r) != vb ** n or (n > 0 and bool(r.s) != (s and n % 2 == 1)):
                    problems.append(('pow', n, str(_val(r))))
            key = 'unary:' + (problems[0][0] if problems else 'ok') + ':' + t['ka']
        elif kind == 'cmp':
            a, va = _mk(t['ka'], t['sa'], inp, 'a'); b, vb = _mk(t['kb'], t['sb'], inp, 'b')
            got = [bool(a < b), bool(a <= b), bool(a > b), bool(a >= b), bool(a == b), bool(a != b)]
            exp = [va < vb, va <= vb, va > vb, va >= vb, va == vb, va != vb]
            if got != exp:
                problems.append(('cmp', got, exp))
            if isinstance(a, (RealFloat, Float)) and not (isinstance(a, RealFloat) and isinstance(b, Float)):
                cm = a.compare(b)
                if cm != (Ordering.LESS if va < vb else Ordering.EQUAL if va == vb else Ordering.GREATER):
                    problems.append(('compare', str(cm)))
        elif kind == 'hash':
            a, va = _mk(t['ka'], t['s'], inp, 'a'); b, vb = _mk(t['kb'], t['s'], inp, 'b')
            if va != vb:
                return {'violates': False, 'observed': 'values differ (assumption)', 'key': 'hash:pre'}
            if hash(a) != hash(b):
                problems.append(('hash', hash(a), hash(b)))
        elif kind == 'struct':
            a, va = _mk(t['ka'], t['s'], inp, 'a'); n = inp['n']; s = bool(t['s'])
            hi, lo = a.split(n)
            vhi, vlo = _val(hi), _val(lo)
            u = Fraction(2) ** (n + 1)
            if vhi + vlo != va or (vhi / u).denominator != 1 or abs(vlo) >= u or (vhi != 0 and bool(hi.s) != s) or (vlo != 0 and bool(lo.s) != s):
                problems.append(('split', str(vhi), str(vlo)))
            if bool(a.is_more_significant(n)) != (vlo == 0):
                problems.append(('is_more_significant',))
            ar = a if isinstance(a, RealFloat) else a._real
            digit = (abs(va) / Fraction(2) ** n)
            digit = (digit.numerator // digit.denominator) & 1
            if bool(ar.bit(n)) != bool(digit):
                problems.append(('bit',))
            key = 'struct:' + (problems[0][0] if problems else 'ok')
        elif kind == 'normalize':
            a, va = _mk(t['ka'], t['s'], inp, 'a'); p = inp.get('p'); n = inp.get('n')
            c = inp['ca']; e = inp['ea']
            tz = (c & -c).bit_length() - 1 if c else 0
            pmin = c.bit_length() - tz if c else 0
            lsb = e + tz
            need = (p is not None and pmin > p) or (n is not None and c != 0 and lsb < n + 1)
            try:
                r = a.normalize(p, n); raised = False
            except ValueError:
                raised = True
            if raised != need:
                problems.append(('raise', raised, need))
            elif not raised:
                bl = int(r.c).bit_length()
                if _val(r) != va or bool(r.s) != bool(t['s']):
                    problems.append(('value', str(_val(r))))
                w = t['which']
                if w == 'p' and c and bl != p:
                    problems.append(('shape p', bl))
                if w == 'n' and r.exp != n + 1:
                    problems.append(('shape n', r.exp))
                if w == 'pn' and c and not (r.exp >= n + 1 and bl <= p and (bl == p or r.exp == n + 1)):
                    problems.append(('shape pn', bl, r.exp))
        elif kind == 'toint':
            a, va = _mk(t['ka'], t['s'], inp, 'a')
            try:
                i = int(a); raised = False
            except ValueError:
                raised = True
            if raised != (va.denominator != 1) or (not raised and i != va):
                problems.append(('int', raised))
            if bool(a.is_integer()) != (va.denominator == 1):
                problems.append(('is_integer',))
            for nm, fn in (('floor', math.floor), ('ceil', math.ceil), ('trunc', math.trunc), ('round', round)):
                if fn(a) != fn(va):
                    problems.append((nm, fn(a), fn(va)))
        elif kind == 'conv':
            s = bool(t['s'])
            i, vi = _mk('int', s, inp, 'i'); f, vf = _mk('Fraction', s, inp, 'f'); a, va = _mk('RealFloat', s, inp, 'a')
            if _val(RealFloat.from_int(i)) != vi or _val(Float.from_int(i)) != vi:
                problems.append(('from_int',))
            if _val(RealFloat.from_rational(f)) != vf or _val(Float.from_rational(f)) != vf:
                problems.append(('from_rational',))
            if a.as_rational() != va or _val(Float.from_real(a)) != va:
                problems.append(('as_rational',))
    except Exception as ex:  # noqa
        problems.append(('raised', repr(ex)[:200]))
    return {'violates': bool(problems), 'observed': {'problems': [list(map(str, p)) for p in problems[:4]]}, 'key': key}


def special_table():
    """IEEE special-value rules for Float arithmetic / comparison / conversion: concrete enumeration"""
    from fpy2 import Float, RealFloat
    import itertools
    vals = {'nan': Float(isnan=True), '+inf': Float(isinf=True), '-inf': Float(isinf=True, s=True), '+0': Float(False, 3, 0), '-0': Float(True, -2, 0),
            '1': Float(False, 0, 1), '-3': Float(True, 0, 3), '0.5r': Float(False, -3, 4)}
    ref = {'nan': math.nan, '+inf': math.inf, '-inf': -math.inf, '+0': 0.0, '-0': -0.0, '1': 1.0, '-3': -3.0, '0.5r': 0.5}

    def same(r, f):
        if isinstance(r, float):
            r = Float.from_float(r)
        if isinstance(r, RealFloat) and not isinstance(r, Float):
            r = Float(r.s, r.exp, r.c)
        if math.isnan(f):
            return r.isnan
        if math.isinf(f):
            return r.isinf and r.s == (f < 0)
        return (not r.is_nar()) and r.as_rational() == Fraction(f) and (f != 0 or r.s == (math.copysign(1, f) < 0))
    n = 0; bad = []
    for (ka, a), (kb, b) in itertools.product(vals.items(), vals.items()):
        fa, fb = ref[ka], ref[kb]
        for nm, fn in (('add', lambda x, y: x + y), ('sub', lambda x, y: x - y), ('mul', lambda x, y: x * y)):
            n += 1
            try:
                if not same(fn(a, b), fn(fa, fb)):
                    bad.append([nm, ka, kb])
            except Exception as ex:  # noqa
                bad.append([nm + ' raised ' + type(ex).__name__, ka, kb])
        n += 1
        got = [bool(a < b), bool(a <= b), bool(a > b), bool(a >= b), bool(a == b)]
        if got != [fa < fb, fa <= fb, fa > fb, fa >= fb, fa == fb]:
            bad.append(['cmp', ka, kb])
        if not a.isnan and not b.isnan and fa == fb and hash(a) != hash(b):
            bad.append(['hash', ka, kb])
    # a host float on one side (the API accepts it): RealFloat / Float with every special double, both operand orders
    reals = {'5': (RealFloat(False, 0, 5), 5.0), '-5': (RealFloat(True, 0, 5), -5.0), '+0': (RealFloat(False, 0, 0), 0.0), '-0': (RealFloat(True, 0, 0), -0.0), '0.75r': (RealFloat(False, -4, 12), 0.75)}
    hosts = [math.nan, math.inf, -math.inf, 0.0, -0.0, 2.5, -1.0]
    for (ka, (a, fa)), h in itertools.product(list(reals.items()) + [(k, (v, ref[k])) for k, v in vals.items()], hosts):
        for nm, fn in (('add', lambda x, y: x + y), ('sub', lambda x, y: x - y), ('mul', lambda x, y: x * y), ('radd', lambda x, y: y + x), ('rsub', lambda x, y: y - x), ('rmul', lambda x, y: y * x)):
            n += 1
            try:
                if not same(fn(a, h), fn(fa, h)):
                    bad.append([nm + ' host float', ka, repr(h)])
            except Exception as ex:  # noqa
                bad.append([nm + ' host float raised ' + type(ex).__name__, ka, repr(h)])
    # comparisons and hashing against host floats, with redundant (wide) encodings of values a double holds
    wide = {'1e18': (RealFloat.from_int(10 ** 18), Fraction(10 ** 18)), '2^64': (RealFloat(False, 0, 2 ** 64), Fraction(2 ** 64)), '1 wide': (RealFloat(False, -60, 1 << 60), Fraction(1)),
            '-2.5 wide': (RealFloat(True, -70, 5 << 69), Fraction(-5, 2)), 'F 3 wide': (Float(False, -62, 3 << 62), Fraction(3)), '2^70+1': (RealFloat(False, 0, 2 ** 70 + 1), Fraction(2 ** 70 + 1))}
    for (ka, (a, qa)), h in itertools.product(wide.items(), [1e18, 2.0 ** 64, 1.0, -2.5, 3.0, 2.0 ** 70, 0.5]):
        qh = Fraction(h)
        n += 1
        try:
            got = [bool(a == h), bool(a != h), bool(a < h), bool(a <= h), bool(a > h), bool(a >= h), bool(h == a), bool(h < a)]
            want = [qa == qh, qa != qh, qa < qh, qa <= qh, qa > qh, qa >= qh, qh == qa, qh < qa]
            if got != want:
                bad.append(['cmp host float', ka, repr(h)])
            if qa == qh and hash(a) != hash(h):
                bad.append(['hash host float', ka, repr(h)])
        except Exception as ex:  # noqa
            bad.append(['cmp host float raised ' + type(ex).__name__, ka, repr(h)])
    # hashing is a function of the value, whatever was computed or hashed before (hash first, then derive a new value from it)
    for ka, a in list(vals.items()) + [(k, v[0]) for k, v in reals.items()]:
        if isinstance(a, Float) and a.isnan:
            continue
        n += 1
        try:
            hash(a)
            for nm, b in (('neg', -a), ('abs', abs(a)), ('pos', +a), ('sq', a * a if not (isinstance(a, Float) and a.isinf) else a ** 2)):
                if isinstance(b, Float) and b.is_nar():
                    fb = -math.inf if b.s else math.inf
                    if hash(b) != hash(fb):
                        bad.append(['hash after ' + nm, ka])
                elif hash(b) != hash(b.as_rational() if isinstance(b, Float) else Fraction(b.m) * Fraction(2) ** b.exp):
                    bad.append(['hash after ' + nm, ka])
        except Exception as ex:  # noqa
            bad.append(['hash after op raised ' + type(ex).__name__, ka])
    # a rational that is not dyadic has no exact RealFloat / Float: from_rational refuses it however close its denominator is to a power of two
    for q in (Fraction(1, 2 ** 52 - 1), Fraction(3, 2 ** 60 + 1), Fraction(1, 2 ** 1100 + 3), Fraction(5, 2 ** 49 + 1), Fraction(1, 3), Fraction(7, 2 ** 53 - 1)):
        for nm, fn in (('RealFloat.from_rational', lambda: RealFloat.from_rational(q)), ('Float.from_rational', lambda: Float.from_rational(q)),
                       ('RealFloat + Fraction', lambda: RealFloat(False, 0, 1) + q), ('Float * Fraction', lambda: Float(False, 0, 3) * q)):
            n += 1
            try:
                r = fn()
            except (ValueError, TypeError, ArithmeticError):
                continue
            want = q if 'from' in nm else (1 + q if '+' in nm else 3 * q)
            rv = r.as_rational() if isinstance(r, Float) else Fraction(r.m) * Fraction(2) ** r.exp
            if rv != want:
                bad.append([nm + ' returned a different number', str(q)[:40]])
    for ka, a in vals.items():
        fa = ref[ka]
        n += 3
        if not same(-a, -fa):
            bad.append(['neg', ka])
        if not same(+a, +fa):
            bad.append(['pos', ka])
        if not same(abs(a), abs(fa)):
            bad.append(['abs', ka])
        for k in range(0, 4):
            n += 1
            try:
                if not same(a ** k, fa ** k):
                    bad.append(['pow%d' % k, ka])
            except Exception as ex:  # noqa
                bad.append(['pow%d raised' % k, ka])
        # conversions either return the same value or raise
        n += 1
        try:
            i = int(a)
            if a.is_nar() or Fraction(i) != a.as_rational():
                bad.append(['int', ka])
        except (ValueError, OverflowError):
            pass
        n += 1
        try:
            f = float(a)
            if not same(Float.from_float(f), fa):
                bad.append(['float', ka])
        except (ValueError, OverflowError):
            pass
        if not a.is_nar() and hash(a) != hash(fa) and not math.isnan(fa):
            bad.append(['hash vs float', ka])
    return n, bad
