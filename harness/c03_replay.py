"""Concrete tables for C03 (real MPFR; high-precision MPFR as the reference) and replay of glue cases."""
import random
from fractions import Fraction
from . import ctxgrid as G
from . import c02_replay as R2
from .c03 import UNARY, BINARY, CONSTS


def replay(case):
    t = case['task']
    if t['kind'] == 'glue':
        return R2.replay(case)
    return {'violates': True, 'observed': case['inputs'], 'key': t['kind'] + ':' + str(case['inputs']['row'][:2])}


def _frac(m):
    a, b = m.as_integer_ratio()
    return Fraction(int(a), int(b))


def _ref_const(name, prec=3000):
    import gmpy2
    with gmpy2.context(precision=prec):
        pi = gmpy2.const_pi()
        v = {'const_pi': lambda: pi, 'const_pi_2': lambda: pi / 2, 'const_pi_4': lambda: pi / 4, 'const_e': lambda: gmpy2.exp(1), 'const_ln2': lambda: gmpy2.const_log2(),
             'const_sqrt2': lambda: gmpy2.sqrt(2), 'const_sqrt1_2': lambda: gmpy2.sqrt(gmpy2.mpfr(0.5)), 'const_log2e': lambda: 1 / gmpy2.const_log2(),
             'const_log10e': lambda: 1 / gmpy2.log(10), 'const_1_pi': lambda: 1 / pi, 'const_2_pi': lambda: 2 / pi, 'const_2_sqrt_pi': lambda: 2 / gmpy2.sqrt(pi)}[name]()
    return _frac(v)


def table_c03_const(task):
    """every constant, every precision 1..pmax, 8 modes, plus subnormal / fixed-point / bounded targets"""
    import fpy2 as fp
    name = task['const']; P = task['pmax']
    v = _ref_const(name)
    KK = P + 40
    n = 0; bad = []
    descs = [dict(fam='MPFloat', pmax=p) for p in range(1, P + 1)]
    descs += [dict(fam='MPSFloat', pmax=5, emin=1), dict(fam='MPSFloat', pmax=3, emin=3), dict(fam='IEEE', es=5, nbits=16), dict(fam='IEEE', es=2, nbits=4),
              dict(fam='MPFixed', nmin=-7), dict(fam='MPFixed', nmin=-1), dict(fam='MPFixed', nmin=1), dict(fam='Fixed', signed=True, scale=-3, nbits=8, ov='SATURATE')]
    for d in descs:
        for rm in G.MODES:
            dd = dict(d, rm=rm)
            ctx = G.build(dd)
            n += 1
            ok, out = R2.judge(dd, v, lambda: getattr(fp.ops, name)(ctx=ctx), KK=KK)
            if not ok:
                bad.append([name, G.name_of(dd), str(R2._pub(out))[:160]])
    return n, bad, [{'constant': name, 'configurations': n}]


def table_c03_structural(task):
    return R2.table_structural(task, unary=UNARY, binary=BINARY, consts=CONSTS)


EXACT = [('exp', (0,), 1), ('log', (1,), 0), ('pow', (2, 10), 1024), ('sqrt', (4,), 2), ('cbrt', (27,), 3), ('exp2', (3,), 8), ('exp10', (2,), 100),
         ('log2', (8,), 3), ('log10', (1000,), 3), ('sin', (0,), 0), ('tan', (0,), 0), ('asin', (0,), 0), ('atan', (0,), 0), ('cos', (0,), 1), ('cosh', (0,), 1),
         ('sinh', (0,), 0), ('tanh', (0,), 0), ('asinh', (0,), 0), ('atanh', (0,), 0), ('acosh', (1,), 0), ('acos', (1,), 0), ('expm1', (0,), 0), ('log1p', (0,), 0),
         ('erf', (0,), 0), ('erfc', (0,), 1), ('tgamma', (5,), 24), ('tgamma', (1,), 1), ('lgamma', (1,), 0), ('lgamma', (2,), 0), ('atan2', (0, 1), 0),
         ('hypot', (3, 4), 5), ('pow', (3, 3), 27), ('pow', (Fraction(1, 2), 3), Fraction(1, 8)), ('pow', (4, Fraction(1, 2)), 2), ('exp2', (-3,), Fraction(1, 8)),
         ('sqrt', (Fraction(9, 4),), Fraction(3, 2)), ('log2', (Fraction(1, 4),), -2)]


def table_c03_exact(task):
    """an exactly representable true result is returned exactly and not flagged inexact"""
    import fpy2 as fp
    n = 0; bad = []
    descs = [dict(fam='MPFloat', pmax=p) for p in (1, 2, 3, 5, 11, 24, 53, 200)] + [dict(fam='MPSFloat', pmax=8, emin=-10), dict(fam='IEEE', es=5, nbits=16),
             dict(fam='MPFixed', nmin=-4), dict(fam='MPFixed', nmin=-1)]
    for d in descs:
        for rm in G.MODES:
            dd = dict(d, rm=rm)
            ctx = G.build(dd)
            from spec import formats as F
            sp = F.spec_of(dd)
            for fn, args, want in EXACT:
                want = Fraction(want)
                if not sp.contains(want):
                    continue
                n += 1
                xs = [fp.Float.from_rational(Fraction(a)) for a in args]
                try:
                    r = getattr(fp.ops, fn)(*xs, ctx=ctx)
                    if r.is_nar() or r.as_rational() != want or r.inexact:
                        bad.append([fn, str(args), G.name_of(dd), 'got %s inexact=%s' % (r.as_rational() if not r.is_nar() else 'nar', r.inexact)])
                except Exception as ex:  # noqa
                    bad.append([fn, str(args), G.name_of(dd), repr(ex)[:80]])
    return n, bad, [{'exact_rows': n}]


SAMPLES = {
    'acos': [Fraction(1, 2), Fraction(-3, 4), Fraction(1, 1024)], 'acosh': [Fraction(3, 2), 7, Fraction(1025, 1024)], 'asin': [Fraction(1, 2), Fraction(-7, 8)],
    'asinh': [Fraction(1, 2), -5], 'atan': [1, Fraction(-1, 8), 1000], 'atanh': [Fraction(1, 2), Fraction(-15, 16)], 'cos': [1, Fraction(25, 8), 100],
    'cosh': [1, Fraction(-1, 4)], 'erf': [Fraction(1, 2), 3], 'erfc': [Fraction(1, 2), 3], 'exp': [1, -3, Fraction(1, 1024), 20], 'exp2': [Fraction(1, 2), Fraction(-7, 4)],
    'exp10': [Fraction(1, 2), -2], 'expm1': [Fraction(1, 1024), 1], 'lgamma': [Fraction(5, 2), 10], 'log': [2, Fraction(3, 8), 1000], 'log10': [2, 5],
    'log1p': [Fraction(1, 1024), 1], 'log2': [3, Fraction(5, 8)], 'sin': [1, 3, Fraction(1, 1024)], 'sinh': [1, Fraction(-1, 4)], 'tan': [1, Fraction(3, 2)], 'tanh': [Fraction(1, 2), 5],
    'tgamma': [Fraction(1, 2), Fraction(7, 2)], 'sqrt': [2, Fraction(1, 8), 10], 'cbrt': [2, -10, Fraction(1, 4)],
    'pow': [(2, Fraction(1, 2)), (3, Fraction(-5, 4)), (Fraction(1, 2), Fraction(1, 2))], 'atan2': [(1, 2), (-3, -1), (1, -1024)], 'hypot': [(1, 1), (3, 5)],
}


def _ref_fn(fn, args, prec=2000):
    import gmpy2
    with gmpy2.context(precision=prec):
        xs = [gmpy2.mpfr(gmpy2.mpq(Fraction(a).numerator, Fraction(a).denominator)) for a in args]
        if fn == 'pow':
            v = xs[0] ** xs[1]
        elif fn == 'tgamma':
            v = gmpy2.gamma(xs[0])
        elif fn == 'lgamma':
            v = gmpy2.lgamma(xs[0])[0]
        else:
            v = getattr(gmpy2, fn)(*xs)
    return _frac(v)


def table_c03_sample(task):
    """sampled operands of one function against a 2000-bit MPFR reference, precisions 1..pmax (subset), 8 modes"""
    import fpy2 as fp
    fn = task['fn']; P = task['pmax']
    rnd = random.Random(task.get('seed', 0))
    precs = sorted(set([1, 2, 3, 4, 5, 8, 11, 24, 53, P] + [rnd.randint(6, P) for _ in range(4)]))
    descs = [dict(fam='MPFloat', pmax=p) for p in precs] + [dict(fam='MPSFloat', pmax=6, emin=0), dict(fam='IEEE', es=5, nbits=16), dict(fam='MPFixed', nmin=-9), dict(fam='MPFixed', nmin=0)]
    n = 0; bad = []
    KK = P + 60
    for args in SAMPLES[fn]:
        args = args if isinstance(args, tuple) else (args,)
        v = _ref_fn(fn, args)
        xs = [fp.Float.from_rational(Fraction(a)) for a in args]
        for d in descs:
            for rm in G.MODES:
                dd = dict(d, rm=rm)
                ctx = G.build(dd)
                n += 1
                ok, out = R2.judge(dd, v, lambda: getattr(fp.ops, fn)(*xs, ctx=ctx), KK=KK)
                if not ok:
                    bad.append([fn, str(args), G.name_of(dd), str(R2._pub(out))[:140]])
    return n, bad, [{'function': fn, 'rows': n}]
