"""
C02 — Arithmetic rounds the exact result exactly once.

Four symbolic obligations over the unmodified code (ops.py, engine/gmp.py, engine/real.py, gmputils.py):
  glue      MPFR glue lemma: for *every* real result the C call could be approximating (symbolic Y, sticky),
            mpfr_call -> _round_odd -> ctx.round is the single correct rounding with a truthful inexact flag
  mpfrpath  ops.add/sub/mul/fma/neg/fabs/div/sqrt/mod/fdim on symbolic Floats through the production MPFR path,
            the C call replaced by its contract computed from the operands
  realpath  the exact engine under REAL
  rint      the round-to-integer family under rounding contexts
and concrete tables against the real MPFR for special operands, non-dyadic Fractions and the call structure of
every engine wrapper.
"""
import os
import time

PROPERTY = 'C02'
LEVEL = 'model_checking'
BUDGET_S = {'quick': 3600, 'thorough': 14400}

from . import ctxgrid as G

TIER = {'quick': dict(YW=9, CW=4, E=2, W=32, WO=40, MCW=3, ME=1), 'thorough': dict(YW=12, CW=6, E=4, W=48, WO=64, MCW=4, ME=2)}


def glue_ctxs(tier):
    ds = [dict(fam='MPFloat', pmax=1), dict(fam='MPFloat', pmax=3), dict(fam='MPSFloat', pmax=3, emin=-1), dict(fam='MPSFloat', pmax=2, emin=1),
          dict(fam='IEEE', es=2, nbits=5), dict(fam='MPBFloat', pmax=2, emin=-1, maxval=[0, 0, 3], ov='SATURATE'),
          dict(fam='MPFixed', nmin=-2), dict(fam='MPFixed', nmin=1), dict(fam='Fixed', signed=True, scale=-1, nbits=5, ov='SATURATE'),
          dict(fam='MPBFixed', nmin=0, maxval=[0, 1, 5], ov='OVERFLOW', enable_inf=True)]
    if tier == 'thorough':
        ds += [dict(fam='MPFloat', pmax=5), dict(fam='MPSFloat', pmax=4, emin=-2), dict(fam='IEEE', es=3, nbits=7), dict(fam='MPFixed', nmin=-4),
               dict(fam='EFloat', es=2, nbits=5, enable_inf=False, nan_kind='MAX_VAL', eoffset=1)]
    return ds


def path_ctxs(tier):
    ds = [dict(fam='MPFloat', pmax=2), dict(fam='IEEE', es=2, nbits=5), dict(fam='MPFixed', nmin=-1)]
    if tier == 'thorough':
        ds += [dict(fam='MPSFloat', pmax=3, emin=-1), dict(fam='Fixed', signed=True, scale=-1, nbits=5, ov='SATURATE')]
    if tier == 'thorough':
        ds += [dict(fam='MPFloat', pmax=4), dict(fam='MPSFloat', pmax=2, emin=2), dict(fam='MPFixed', nmin=2)]
    return ds


OPS2 = ['add', 'sub', 'mul', 'div', 'mod', 'fdim', 'copysign']
OPS1 = ['neg', 'fabs', 'sqrt']
RINT = ['ceil', 'floor', 'trunc', 'roundint', 'nearbyint']


def tasks(tier, seed):
    ts = []
    modes = G.MODES
    for d in glue_ctxs(tier):
        for rm in modes:
            for neg in (0, 1):
                for sticky in (0, 1):
                    dd = dict(d, rm=rm)
                    ts.append(dict(kind='glue', name='glue/%s/neg%d/st%d' % (G.name_of(dd), neg, sticky), desc=dd, neg=neg, sticky=sticky))
    # stochastic-widened round_params: the intermediate must carry the extra digits the draw looks at
    for d in [dict(fam='MPFloat', pmax=2), dict(fam='MPSFloat', pmax=2, emin=0), dict(fam='MPFixed', nmin=-1),
              # bounded families (their round_params are separate code); ranges wide enough that the modelled results do not overflow
              dict(fam='MPBFixed', nmin=-2, maxval=[0, 3, 5], ov='SATURATE'), dict(fam='Fixed', signed=True, scale=-1, nbits=8, ov='SATURATE'), dict(fam='SMFixed', scale=-1, nbits=8, ov='SATURATE'),
              dict(fam='IEEE', es=3, nbits=6), dict(fam='MPBFloat', pmax=2, emin=-4, maxval=[0, 3, 3], ov='SATURATE')]:
        for k in (1, 2):
            for rm in ('RNE', 'RTZ', 'RAZ'):
                for neg in (0, 1):
                    for sticky in (0, 1):
                        dd = dict(d, rm=rm)
                        ts.append(dict(kind='glue', name='glue-stoch/%s/k%d/neg%d/st%d' % (G.name_of(dd), k, neg, sticky), desc=dd, neg=neg, sticky=sticky, k=k))
    quick = tier == 'quick'
    qm = ['RNE', 'RTP'] if quick else modes
    for ci, d in enumerate(path_ctxs(tier)):
        for rm in qm:
            dd = dict(d, rm=rm)
            for op in OPS2:
                for sa in (0, 1):
                    for sb in (0, 1):
                        if quick:
                            # quick: the end-to-end run is an integration check (glue lemma + structural table carry the claim):
                            # every operation once per sign pair on the first context under RNE, the operand-dependent ones elsewhere too
                            full = (ci == 0 and rm == 'RNE')
                            if not full and not (op in ('fdim', 'mod', 'div') and (sa, sb) in ((0, 1), (1, 0)) and rm == 'RNE'):
                                continue
                        ts.append(dict(kind='mpfrpath', name='mpfr/%s/%s/s%d%d' % (op, G.name_of(dd), sa, sb), desc=dd, op=op, sa=sa, sb=sb, cost=10 if op in ('mod', 'div', 'mul') else 5))
            for op in OPS1:
                for sa in (0, 1):
                    if op == 'sqrt' and sa:
                        continue
                    if quick and not (ci == 0 or op == 'sqrt') :
                        continue
                    ts.append(dict(kind='mpfrpath', name='mpfr/%s/%s/s%d' % (op, G.name_of(dd), sa), desc=dd, op=op, sa=sa, sb=0))
            for sa in (0, 1):
                for sb in (0, 1):
                    for sc in (0, 1):
                        if quick and not (ci == 0 and rm == 'RNE' and (sa, sb, sc) in ((0, 0, 1), (1, 0, 0))):
                            continue
                        ts.append(dict(kind='mpfrpath', name='mpfr/fma/%s/s%d%d%d' % (G.name_of(dd), sa, sb, sc), desc=dd, op='fma', sa=sa, sb=sb, sc=sc, cost=12))
            for op in RINT:
                for sa in (0, 1):
                    ts.append(dict(kind='rint', name='rint/%s/%s/s%d' % (op, G.name_of(dd), sa), desc=dd, op=op, sa=sa))
    for op in ['add', 'sub', 'mul', 'fma', 'neg', 'fabs', 'copysign', 'pow', 'ceil', 'floor', 'trunc', 'roundint']:
        for sa in (0, 1):
            for sb in (0, 1):
                if op in ('neg', 'fabs', 'pow', 'ceil', 'floor', 'trunc', 'roundint') and sb:
                    continue
                ts.append(dict(kind='realpath', name='real/%s/s%d%d' % (op, sa, sb), op=op, sa=sa, sb=sb))
    ts.append(dict(kind='special', name='concrete/special'))
    ts.append(dict(kind='fraction', name='concrete/fraction', seed=seed))
    ts.append(dict(kind='structural', name='concrete/structural'))
    return ts


def required_witnesses(tier):
    return ['glue-tie-excluded', 'glue-inexact', 'glue-exact', 'glue-two-pass', 'glue-two-pass-recompute', 'glue-subnormal', 'glue-overflow',
            'path-cancellation', 'path-inexact', 'path-exact', 'path-zero-result', 'rint-inexact', 'real-exact', 'stoch-away', 'stoch-toward']


def describe(tier):
    t = TIER[tier]
    R = '/repo/fpy2/'
    return dict(
        functions=['ops.add/sub/mul/div/fma/sqrt/neg/fabs/copysign/fdim/mod/pow/ceil/floor/trunc/roundint/nearbyint/_normalize/_cvt_to_real',
                   'MPFREngine.add/sub/mul/div/fma/sqrt/neg/fabs/copysign/fdim/_fdim/mod/_mod/_mpfr_eval', 'RealEngine.add/sub/mul/fma/neg/fabs/copysign/pow/div/_real_rint/ceil/floor/trunc/roundint',
                   'gmputils.mpfr_call (both branches)/_round_odd/mpfr_value', 'Context._round_prepare', '*Context.round/round_params', 'RealFloat.round/_round_at'],
        files=[R + 'ops.py', R + 'number/engine/engine.py', R + 'number/engine/gmp.py', R + 'number/engine/real.py', R + 'number/gmputils.py', R + 'number/number/reals.py', R + 'number/number/floats.py'],
        bounds=dict(glue_Y_bits=t['YW'], operand_significand_bits=t['CW'], operand_exponent_abs=t['E'], engine_width=t['W'], pow_exponent='0..3'),
        outside=['that MPFR computes the function it is asked for (contract)', 'operands beyond the bounds', 'pow with non-integer exponent (C03)',
                 'special operands and non-dyadic Fractions are checked on concrete tables against the real MPFR, not symbolically',
                 'cbrt/hypot/fmod/remainder: covered only by the parametric glue lemma plus the structural check (their exact results are not modelled)'],
        stubs=['gmputils._mpfr_call_with_prec -> contract: exact result truncated toward zero to the requested precision, rc != 0 iff inexact (MPFR manual)',
               'gmputils.float_to_mpfr -> identity on (s, exp, c) (mpfrpath only)', 'gmpy2.get_exp on the stub object', 'module-level int pass-through in gmputils/reals', 'number formatting'],
        assumptions=['sign of an exact zero sum under RTN left open (property statement)', 'MPFR returns +0 for an exact cancellation under its RoundToZero context (MPFR manual)'],
        rule='one case = one feasible path of the real glue / engine / ops code for a (context, mode, operation, signs[, sticky]) configuration',
        explanation='bounded model checking with the MPFR call replaced by its contract; the exact real result is itself symbolic in the glue lemma',
    )


def run_task(task):
    k = task['kind']
    if k in ('special', 'fraction', 'structural'):
        from . import c02_replay as RP
        n, bad, samples = getattr(RP, 'table_' + k)(task)
        cex = [{'case': {'task': {'kind': k}, 'inputs': {'row': b}}} for b in bad]
        return dict(paths=0, requires=0, cex=cex, samples=samples[:2], extra={'concrete_%s_cases' % k: n}, witness={})
    return _run_symbolic(task)


def _stats(eng, cexs, samples):
    return dict(paths=eng.paths, decisions=eng.decisions, queries=eng.checks, unsat=eng.unsat, sat=eng.sat, unknown=eng.unknown,
                solve_s=eng.solve_s, requires=eng.requires, aborted=eng.aborted, witness=eng.witness, notes=eng.notes, cex=cexs, samples=samples)


def _run_symbolic(task):
    import z3
    from pysym.core import explore, SymInt, bv
    from pysym import shims
    from pysym.values import denote_mag
    import spec.dsl as dsl
    from spec.dsl import lift
    from spec import formats as F, ctxround as CR
    from spec.rounding import round_detail
    from .c01_common import outcome_of
    from . import glue
    import fpy2.number.number.reals as reals
    import fpy2.number.number.floats as floats
    import fpy2.number.context.context as cctx
    import fpy2 as fp
    from fpy2 import Float, RealFloat
    tier = task.get('tier', 'quick')
    t = TIER[tier]
    W = t['W']; dsl.WO = t['WO']; WO = dsl.WO
    shims.install_int_pass(reals, cctx, floats)
    shims.stub_formatting()
    kind = task['kind']
    samples = []

    def c_(v):
        return z3.BitVecVal(v, WO)

    def pub(out):
        return {k: (v if isinstance(v, (bool, str, type(None))) else '<term>') for k, v in out.items() if k != '_r'}

    # ------------------------------------------------------------------------------------------------------
    if kind == 'glue':
        desc = task['desc']; neg = bool(task['neg']); sticky = bool(task['sticky']); kst = task.get('k', 0)
        YW = t['YW']
        draw = {}

        class Rng:
            def integers(self, lo, hi):
                return draw['r']
        ctx = G.build(desc, rng=Rng() if kst else None, num_randbits=kst)
        sp = F.spec_of(desc)
        if sp.p is not None:
            K = sp.p + 5 + kst
            ylo = 1 << (sp.p + 2 + kst)
        else:
            K = max(1 - sp.n, 2) + 1 + kst
            ylo = 2
        cur = {'calls': []}
        glue.install_symbolic_result(cur)
        import fpy2.number.gmputils as gu

        def setup(e):
            Y = e.fresh('Y', ylo, (1 << YW) - 1)
            r = e.fresh('r', 0, (1 << kst) - 1) if kst else None
            return Y, r

        def run(e, Y, r):
            cur.update(Y=Y, K=K, sticky=sticky, neg=neg); cur['calls'] = []
            draw['r'] = r
            p, n = ctx.round_params()
            try:
                r_odd = gu.mpfr_call(None, (), prec=p, n=n)
            except Exception as ex:  # noqa
                e.require(False, info={'mpfr_call raised': repr(ex)[:150]}); return
            for pr in cur['calls']:
                e.oblige(lift(Y.bit_length()) >= lift(pr), 'model-has-fewer-digits-than-requested')
            X = (lift(Y) << 1) | (1 if sticky else 0)
            out = outcome_of(lambda: ctx.round(r_odd), K + 1, lambda c, x: denote_mag(c, x, K + 1, W=WO))
            if kst == 0:
                post = CR.post_finite(desc, sp, K + 1, neg, X, None, out)
                d = round_detail(X, neg, sp.p, sp.n, desc['rm'], K + 1)
                e.oblige(d['q'] >= 1, 'rounding-position-above-model-lsb')
                e.cover('glue-inexact', d['inexact']); e.cover('glue-exact', d['exact'])
                e.cover('glue-tie-excluded', z3.And(d['rem'] == d['half'] + 1, d['inexact']) if sticky else False)
                if sp.n is not None and sp.p is not None:
                    e.cover('glue-subnormal', d['q'] == sp.n + 1 + K + 1)
                if sp.bounded:
                    e.cover('glue-overflow', d['R'] > CR.scaled(sp.neg_max if neg else sp.pos_max, K + 1))
                if p is None:
                    e.cover('glue-two-pass', True)
                    if len(cur['calls']) == 2:
                        e.cover('glue-two-pass-recompute', True)
            else:
                # stochastic: threshold law on the odd-extended exact value (see C17)
                d0 = round_detail(X, neg, sp.p, sp.n, 'RTZ', K + 1)
                lo, hi, q = d0['lo'], d0['hi'], d0['q']
                unit_q = q - kst
                e.oblige(unit_q >= 1, 'rounding-position-above-model-lsb')
                one = c_(1) << unit_q
                rem = X & (one - 1); lo_f = X - rem; half = z3.LShR(one, 1)
                ev = (z3.LShR(lo_f, unit_q) & 1) == 0
                up = {'RNE': z3.Or(z3.UGT(rem, half), z3.And(rem == half, z3.Not(ev))), 'RTZ': z3.BoolVal(False), 'RAZ': z3.BoolVal(True)}[desc['rm']]
                xr = z3.If(rem == 0, X, z3.If(up, lo_f + one, lo_f))
                T = z3.LShR(xr - lo, unit_q)
                if out['raised'] is not None or out['kind'] != 'fin':
                    post = False
                else:
                    R = out['D']
                    away = R == hi
                    post = z3.And(z3.Or(R == lo, R == hi), z3.Implies(d0['exact'], R == X),
                                  z3.Implies(z3.Not(d0['exact']), away == z3.UGE(lift(r) + T, c_(1 << kst))))
                    e.cover('stoch-away', z3.And(z3.Not(d0['exact']), away)); e.cover('stoch-toward', z3.And(z3.Not(d0['exact']), z3.Not(away)))
            ok = e.require(post, info={'outcome': pub(out), 'requested': list(cur['calls'])})
            if len(samples) < 2:
                samples.append({'task': task['name'], 'example_exact_result': dict(e.model_inputs(), K=K, sticky=sticky, neg=neg),
                                'precisions_requested_of_mpfr': list(cur['calls']), 'outcome': pub(out), 'proved': ok})
        eng = explore(run, setup, W=W, bl_max=W - 6)
        return _stats(eng, _cases(task, eng, {'K': K}), samples)

    # ------------------------------------------------------------------------------------------------------
    CW, E = t['CW'], t['E']

    class Pending:
        def __init__(self, s, c, x):
            self.s, self.c, self.x = s, c, x

    def mkf(e, s, tag, lo=0, cw=None, ex=None, concrete_exp=False):
        c = e.fresh('c' + tag, lo, (1 << (cw or CW)) - 1); x = e.fresh('e' + tag, -(E if ex is None else ex), (E if ex is None else ex))
        if concrete_exp:
            return Pending(bool(s), c, x)
        return Float(bool(s), x, c)

    def fin(e, o):
        """exponents of multi-operand tasks are enumerated (deterministic choose): the alignment shifts become constants"""
        if isinstance(o, Pending):
            return Float(o.s, e.choose(o.x.t), o.c)
        return o

    def V(x, K):
        D = denote_mag(x.c, x.exp, K, W=WO)
        D = D if isinstance(D, z3.ExprRef) else c_(D)
        return -D if x.s else D

    if kind == 'mpfrpath':
        CW, E = t['MCW'], t['ME']
        desc = task['desc']; op = task['op']
        ctx = G.build(desc); sp = F.spec_of(desc)
        cur = {'calls': []}
        S = 14
        glue.install_exact_ops(cur, S=S if op != 'sqrt' else 8)
        K = E + 1
        # result scale: products double it; quotients / roots get S extra digits and one sticky digit
        narrow = op in ('div', 'sqrt', 'mod')

        def setup(e):
            two = op not in OPS1
            a = mkf(e, task['sa'], 'a', lo=1 if op in ('div', 'sqrt', 'mod') else 0, concrete_exp=two)
            b = mkf(e, task['sb'], 'b', lo=1 if op in ('div', 'mod') else 0, concrete_exp=True) if two else None
            c = mkf(e, task.get('sc', 0), 'c', concrete_exp=True) if op == 'fma' else None
            return a, b, c

        def run(e, a, b, c):
            if op in ('div', 'mod'):
                # a symbolic divisor makes the bit-vector division intractable: the divisor is enumerated, the dividend symbolic
                b = Float(b.s, e.choose(b.x.t), e.choose(b.c.t))
            a, b, c = fin(e, a), fin(e, b), fin(e, c)
            cur['calls'] = []
            Ka = K if (K % 2 == 0 or op != 'sqrt') else K + 1
            Va = V(a, Ka); Vb = V(b, Ka) if b is not None else None; Vc = V(c, 2 * Ka) if c is not None else None
            st = False
            if op == 'add':
                ex, Kr = Va + Vb, Ka
            elif op == 'sub':
                ex, Kr = Va - Vb, Ka
            elif op == 'mul':
                ex, Kr = Va * Vb, 2 * Ka
            elif op == 'fma':
                ex, Kr = Va * Vb + Vc, 2 * Ka
            elif op == 'neg':
                ex, Kr = -Va, Ka
            elif op == 'fabs':
                ex, Kr = z3.If(Va < 0, -Va, Va), Ka
            elif op == 'copysign':
                mag = z3.If(Va < 0, -Va, Va)
                ex, Kr = (-mag if task['sb'] else mag), Ka
            elif op == 'fdim':
                ex, Kr = z3.If(Va > Vb, Va - Vb, c_(0)), Ka
            elif op == 'div':
                # exact quotient with 2*S... use S2 extra digits and a sticky digit
                S2 = 20
                num = z3.If(Va < 0, -Va, Va) << S2; den = z3.If(Vb < 0, -Vb, Vb)
                q = z3.UDiv(num, den); rm_ = z3.URem(num, den)
                exq = (q << 1) | z3.If(rm_ != 0, c_(1), c_(0))
                ex, Kr = (-exq if (task['sa'] != task['sb']) else exq), S2 + 1
            elif op == 'mod':
                fl = _floordiv(Va, Vb)
                ex, Kr = Va - fl * Vb, Ka
            elif op == 'sqrt':
                S2 = 10      # sqrt(Va * 2^-Ka) scaled by 2^S2: floor(sqrt(Va << (2*S2 - Ka))) ; Ka even
                rad = Va << (2 * S2 - Ka)
                Yv = z3.BitVec('oracle_sqrt', WO)
                e.assume(z3.And(Yv >= 0, Yv < (1 << 20), Yv * Yv <= rad, (Yv + 1) * (Yv + 1) > rad))
                ex, Kr = (Yv << 1) | z3.If(Yv * Yv != rad, c_(1), c_(0)), S2 + 1
            try:
                fn = getattr(fp.ops, op)
                args = (a,) if b is None else (a, b) if c is None else (a, b, c)
                iszero = e.branch(ex == 0)
                rneg = False if iszero else e.branch(ex < 0)
                X = 0 if iszero else (-ex if rneg else ex)
                out = outcome_of(lambda: fn(*args, ctx=ctx), Kr, lambda cc, xx: denote_mag(cc, xx, Kr, W=WO))
            except NotImplementedError as ex_:
                e.require(False, info={'stub': str(ex_)}); return
            # sign of an exact zero: IEEE rules; open under RTN (and for the comparison-defined fdim / mod)
            zneg = _zero_sign(op, task)
            if iszero:
                cands = [False, True] if (zneg is None or desc.get('rm') == 'RTN') else [zneg]
                post = dsl.Or(*[CR.post_finite(desc, sp, Kr, zs, 0, None, out) for zs in cands])
                X = c_(0)
            else:
                post = CR.post_finite(desc, sp, Kr, rneg, X, None, out)
            d = round_detail(X, rneg, sp.p, sp.n, desc['rm'], Kr)
            e.oblige(d['q'] >= (1 if op in ('div', 'sqrt') else 0), 'rounding-position-above-oracle-lsb')
            if op in ('add', 'sub', 'fma'):
                e.cover('path-cancellation', z3.And(ex == 0, Va != 0))
            e.cover('path-inexact', d['inexact']); e.cover('path-exact', z3.And(d['exact'], X != 0)); e.cover('path-zero-result', X == 0)
            ok = e.require(post, info={'op': op, 'outcome': pub(out), 'mpfr_calls': [list(x) for x in cur['calls']]})
            if len(samples) < 2:
                samples.append({'task': task['name'], 'example_operands': e.model_inputs(), 'mpfr_calls': [list(x) for x in cur['calls']], 'outcome': pub(out), 'proved': ok})
        eng = explore(run, setup, W=W, bl_max=W - 6)
        return _stats(eng, _cases(task, eng, {}), samples)

    if kind == 'rint':
        desc = task['desc']; op = task['op']
        ctx = G.build(desc); sp = F.spec_of(desc)
        K = E + 1

        def setup(e):
            return (mkf(e, task['sa'], 'a'),)

        def run(e, a):
            Va = V(a, K); s = bool(task['sa'])
            unit = c_(1) << K
            frac = Va & (unit - 1); fl = Va - frac; isint = frac == 0
            half = unit >> 1
            if op == 'nearbyint':
                # round to an integer under the context's own mode: correct rounding at position -1
                mag = z3.If(Va < 0, -Va, Va)
                out = outcome_of(lambda: fp.ops.nearbyint(a, ctx=ctx), K, lambda cc, xx: denote_mag(cc, xx, K, W=WO))
                post = CR.post_finite(desc, sp, K, s, mag, -1, out)
                e.cover('rint-inexact', z3.Not(isint))
                e.require(post, info={'op': op, 'outcome': pub(out)}); return
            I = {'floor': fl, 'ceil': z3.If(isint, fl, fl + unit), 'trunc': z3.If(z3.Or(isint, Va >= 0), fl, fl + unit),
                 'roundint': z3.If(isint, fl, z3.If(frac < half, fl, z3.If(frac > half, fl + unit, z3.If(Va >= 0, fl + unit, fl))))}[op]
            mag = z3.If(I < 0, -I, I)
            out = outcome_of(lambda: getattr(fp.ops, op)(a, ctx=ctx), K, lambda cc, xx: denote_mag(cc, xx, K, W=WO))
            # the integer keeps the operand's sign (also when it is zero); then one rounding under ctx
            out2 = dict(out)
            want_inexact = None
            if out['raised'] is None and out['kind'] == 'fin':
                # documented: inexact iff the result differs from the operand
                # inexact iff the rounding changed the exact integer, or the result differs from the operand (ops.ceil doc)
                want_inexact = z3.Or(out['D'] != mag, out['D'] != z3.If(Va < 0, -Va, Va))
                out2['inexact'] = None
            post = _post_rint(CR, desc, sp, K, s, mag, out, want_inexact, z3)
            e.cover('rint-inexact', z3.Not(isint))
            ok = e.require(post, info={'op': op, 'outcome': pub(out)})
            if len(samples) < 2:
                samples.append({'task': task['name'], 'example_operand': e.model_inputs(), 'outcome': pub(out), 'proved': ok})
        eng = explore(run, setup, W=W, bl_max=W - 6)
        return _stats(eng, _cases(task, eng, {}), samples)

    if kind == 'realpath':
        op = task['op']
        K = E + 1 if op not in ('mul', 'fma') else 4

        def setup(e):
            nar = op in ('mul', 'fma')
            two = op in ('add', 'sub', 'mul', 'fma', 'copysign')
            a = mkf(e, task['sa'], 'a', cw=4 if op == 'pow' or nar else None, ex=2 if op == 'pow' else 3 if nar else None, concrete_exp=two)
            b = mkf(e, task['sb'], 'b', cw=4 if nar else None, ex=3 if nar else None, concrete_exp=True) if two else None
            c = mkf(e, 0, 'c', cw=4, ex=3, concrete_exp=True) if op == 'fma' else None
            kk = e.fresh('k', 0, 3) if op == 'pow' else e.fresh('k', 0, 4) if op == 'div' else None
            return a, b, c, kk

        def run(e, a, b, c, kk):
            a, b, c = fin(e, a), fin(e, b), fin(e, c)
            Va = V(a, K); s = bool(task['sa'])
            REAL = fp.REAL
            if op == 'pow':
                n = e.choose(kk.t)
                Va1 = V(a, 2)
                acc = c_(1)
                for _ in range(n):
                    acc = acc * Va1
                out = outcome_of(lambda: fp.ops.pow(a, n, ctx=REAL), 2 * n, lambda cc, xx: denote_mag(cc, xx, 2 * n, W=WO))
                mag = z3.If(acc < 0, -acc, acc)
                post = z3.And(z3.BoolVal(out['raised'] is None and out.get('kind') == 'fin'), out.get('D', c_(0)) == mag,
                              z3.Or(mag == 0, z3.BoolVal(out.get('sign') == (s and n % 2 == 1))), z3.BoolVal(out.get('inexact') is False))
                e.cover('real-exact', True)
                e.require(post, info={'op': 'pow', 'n': n}); return
            if op == 'div':
                # division by a power of two is exact under REAL
                j = e.choose(kk.t)
                den = Float(bool(task['sb']), j - 2, 1)
                out = outcome_of(lambda: fp.ops.div(a, den, ctx=REAL), K + 4, lambda cc, xx: denote_mag(cc, xx, K + 4, W=WO))
                want = z3.If(Va < 0, -Va, Va) << (4 - (j - 2))
                post = z3.And(z3.BoolVal(out['raised'] is None and out.get('kind') == 'fin'), out.get('D', c_(0)) == want,
                              z3.BoolVal(out.get('sign') == (s != bool(task['sb']))), z3.BoolVal(out.get('inexact') is False))
                e.require(post, info={'op': 'div by 2^j', 'j': j}); return
            Vb = V(b, K) if b is not None else None
            unit = c_(1) << K
            frac = Va & (unit - 1); fl = Va - frac; isint = frac == 0; half = unit >> 1
            table = {
                'add': (lambda: fp.ops.add(a, b, ctx=REAL), lambda: Va + Vb, K),
                'sub': (lambda: fp.ops.sub(a, b, ctx=REAL), lambda: Va - Vb, K),
                'mul': (lambda: fp.ops.mul(a, b, ctx=REAL), lambda: Va * Vb, 2 * K),
                'fma': (lambda: fp.ops.fma(a, b, c, ctx=REAL), lambda: Va * Vb + V(c, 2 * K), 2 * K),
                'neg': (lambda: fp.ops.neg(a, ctx=REAL), lambda: -Va, K),
                'fabs': (lambda: fp.ops.fabs(a, ctx=REAL), lambda: z3.If(Va < 0, -Va, Va), K),
                'copysign': (lambda: fp.ops.copysign(a, b, ctx=REAL), lambda: (lambda m: -m if task['sb'] else m)(z3.If(Va < 0, -Va, Va)), K),
                'floor': (lambda: fp.ops.floor(a, ctx=REAL), lambda: fl, K),
                'ceil': (lambda: fp.ops.ceil(a, ctx=REAL), lambda: z3.If(isint, fl, fl + unit), K),
                'trunc': (lambda: fp.ops.trunc(a, ctx=REAL), lambda: z3.If(z3.Or(isint, Va >= 0), fl, fl + unit), K),
                'roundint': (lambda: fp.ops.roundint(a, ctx=REAL), lambda: z3.If(isint, fl, z3.If(frac < half, fl, z3.If(frac > half, fl + unit, z3.If(Va >= 0, fl + unit, fl)))), K),
            }
            call, exact, Kr = table[op]
            ex = exact()
            out = outcome_of(call, Kr, lambda cc, xx: denote_mag(cc, xx, Kr, W=WO))
            mag = z3.If(ex < 0, -ex, ex)
            okv = z3.And(z3.BoolVal(out['raised'] is None and out.get('kind') == 'fin'), out.get('D', c_(0)) == mag,
                         z3.Or(mag == 0, z3.BoolVal(bool(out.get('sign'))) == (ex < 0)), z3.BoolVal(out.get('overflow') is False))
            e.cover('real-exact', True)
            ok = e.require(okv, info={'op': op, 'outcome': pub(out)})
            if len(samples) < 1:
                samples.append({'task': task['name'], 'example_operands': e.model_inputs(), 'proved': ok})
        eng = explore(run, setup, W=W, bl_max=W - 6)
        return _stats(eng, _cases(task, eng, {}), samples)
    raise ValueError(kind)


def _floordiv(a, b):
    import z3
    q = a / b
    r = z3.SRem(a, b)
    return z3.If(z3.And(r != 0, (r < 0) != (b < 0)), q - 1, q)


def _zero_sign(op, task):
    """sign bit IEEE 754 gives an exact zero result, or None when left open"""
    sa, sb, sc = bool(task.get('sa')), bool(task.get('sb')), bool(task.get('sc'))
    if op == 'add':
        return sa and sb
    if op == 'sub':
        return sa and not sb
    if op == 'mul' or op == 'div':
        return sa != sb
    if op == 'fma':
        return (sa != sb) and sc
    if op == 'neg':
        return not sa
    if op == 'fabs':
        return False
    if op == 'copysign':
        return sb
    if op == 'sqrt':
        return sa
    return None


def _post_with_zero(CR, desc, sp, Kr, rneg, X, out, zneg, e, z3):
    """post_finite, except that the sign of an exact zero result follows `zneg` (None = open), and is open under RTN
    for sums (property statement)"""
    import spec.dsl as dsl
    if out['raised'] is None and out.get('kind') == 'fin':
        # evaluate with both zero signs where the sign is open
        base_pos = CR.post_finite(desc, sp, Kr, False, X, None, out)
        base_neg = CR.post_finite(desc, sp, Kr, True, X, None, out)
        nz = CR.post_finite(desc, sp, Kr, rneg, X, None, out)
        if zneg is None or desc.get('rm') == 'RTN':
            zero_ok = dsl.Or(base_pos, base_neg)
        else:
            zero_ok = base_neg if zneg else base_pos
        return z3.If(X == 0, _b(zero_ok, z3), _b(nz, z3))
    return CR.post_finite(desc, sp, Kr, rneg, X, None, out)


def _b(x, z3):
    return x if isinstance(x, z3.ExprRef) else z3.BoolVal(bool(x))


def _post_rint(CR, desc, sp, K, s, mag, out, want_inexact, z3):
    """ops.ceil & co: the exact integer (sign of the operand) rounded once under ctx; inexact iff result != operand"""
    import spec.dsl as dsl
    if out['raised'] is not None or out.get('kind') != 'fin':
        return CR.post_finite(desc, sp, K, s, mag, None, out)
    o_t = dict(out, inexact=True); o_f = dict(out, inexact=False)
    value_ok = dsl.Or(CR.post_finite(desc, sp, K, s, mag, None, o_t), CR.post_finite(desc, sp, K, s, mag, None, o_f))
    return z3.And(_b(value_ok, z3), z3.BoolVal(bool(out['inexact'])) == want_inexact)


def _cases(task, eng, extra):
    cexs = []
    for cx in eng.cex:
        if cx.get('unknown') or cx.get('inputs') is None:
            cexs.append({'case': None})
        else:
            tt = {k: v for k, v in task.items() if k != 'name'}
            cexs.append({'case': dict({'task': tt, 'inputs': cx['inputs'], 'info': cx.get('info')}, **extra), 'failed_obligations': cx.get('failed_obligations')})
    return cexs
