"""
Program corpus for C12 (FPy <-> FPCore).  Two kinds of entries:
  P      FPy programs in the FPCore-expressible subset (explicitly rounded constants, sequential and nested contexts with
         statements after an inner block, if / while / for, tuples, fixed-size tensors, list reductions);
  CORES  FPCore texts written from the standard (annotations that update only one property, nested annotations, starred and
         unstarred binders, tensors) for the FPCore -> FPy direction.
args as in harness/corpus.py: 'real', ('list', [lengths]), ('int', [values]).  `uic`: compile with unsafe_int_cast.
"""

P = []
CORES = []


def prog(name, src, entry, args, tags=(), uic=True):
    P.append(dict(name=name, src=src, entry=entry, args=args, tags=set(tags), uic=uic))


def core(name, text, args, tags=(), entry=None):
    CORES.append(dict(name=name, text=text, args=args, tags=set(tags), entry=entry))


def namespace():
    import fpy2 as fp
    return dict(F5=fp.IEEEContext(5, 10), F4Z=fp.IEEEContext(5, 9, fp.RM.RTZ), F3U=fp.IEEEContext(5, 8, fp.RM.RTP), F3D=fp.IEEEContext(5, 8, fp.RM.RTN),
                F4A=fp.IEEEContext(5, 9, fp.RM.RNA), INT=fp.INTEGER, INTU=fp.INTEGER.with_params(rm=fp.RM.RTP),
                FX=fp.FixedContext(True, -1, 16, fp.RM.RTZ, fp.OV.SATURATE), FX0=fp.FixedContext(True, 0, 12, fp.RM.RTP, fp.OV.SATURATE))


# ---- contexts: sequence, nesting, continuation after an inner block ------------------------------------------------------
prog('seq_contexts', '''
@fp.fpy
def f(x: fp.Real, y: fp.Real) -> fp.Real:
    with F3U:
        a = x + y
    with F3D:
        b = x + y
    with F5:
        c = a - b
    return c
''', 'f', ['real', 'real'], ['context'])

prog('nested_then_after', '''
@fp.fpy
def f(x: fp.Real, y: fp.Real) -> fp.Real:
    with F5:
        a = x * y
        with F3U:
            b = a + x
        c = b + a
    return c
''', 'f', ['real', 'real'], ['context', 'nested'])

prog('nested_three_levels', '''
@fp.fpy
def f(x: fp.Real, y: fp.Real) -> fp.Real:
    with F5:
        a = x + y
        with F4Z:
            b = a * x
            with F3U:
                c = b + y
            d = c + x
        e = d * y
    return e
''', 'f', ['real', 'real'], ['context', 'nested'])

prog('after_block_at_top', '''
@fp.fpy
def f(x: fp.Real, y: fp.Real) -> fp.Real:
    with F3U:
        a = x * y
    with F5:
        b = a + x
        with F3D:
            c = b + y
        with F4Z:
            d = b * y
        e = c + d
    return e
''', 'f', ['real', 'real'], ['context', 'nested'])

prog('func_ctx_inner_block', '''
@fp.fpy(ctx=F4Z)
def f(x: fp.Real, y: fp.Real) -> fp.Real:
    a = x * y
    with F3U:
        b = a + x
    c = b + y
    return c
''', 'f', ['real', 'real'], ['context', 'nested', 'funcctx'])

prog('ctx_in_branch', '''
@fp.fpy
def f(x: fp.Real, y: fp.Real) -> fp.Real:
    with F5:
        t = x + y
        if x < y:
            with F3U:
                t = t * y
            t = t + x
        else:
            with F3D:
                t = t * x
        r = t + y
    return r
''', 'f', ['real', 'real'], ['context', 'nested', 'branch'])

prog('ctx_in_for', '''
@fp.fpy
def f(xs: list[fp.Real], y: fp.Real) -> fp.Real:
    with F5:
        acc = y
        for x in xs:
            with F3U:
                t = acc + x
            acc = t * y
    return acc
''', 'f', [('list', [0, 1, 2]), 'real'], ['context', 'nested', 'loop'])

prog('ctx_in_while', '''
@fp.fpy
def f(x: fp.Real, y: fp.Real) -> fp.Real:
    with F4Z:
        t = x
        i = 0
        while i < 2:
            with F3U:
                t = t + y
            t = t * y
            with INT:
                i = i + 1
    return t
''', 'f', ['real', 'real'], ['context', 'nested', 'loop'])

prog('real_block', '''
@fp.fpy
def f(x: fp.Real, y: fp.Real) -> fp.Real:
    with fp.REAL:
        a = x * y
        with F3U:
            b = a + x
        c = a + b
    with F4Z:
        d = c * x
    return d
''', 'f', ['real', 'real'], ['context', 'nested', 'real'])

prog('int_block', '''
@fp.fpy
def f(x: fp.Real, y: fp.Real) -> fp.Real:
    with INT:
        a = x + y
        with F5:
            b = a * x
        c = b + y
    return c
''', 'f', ['real', 'real'], ['context', 'nested', 'integer'])

prog('int_rounding_modes', '''
@fp.fpy
def f(x: fp.Real, y: fp.Real) -> tuple[fp.Real, fp.Real]:
    with INTU:
        a = x + y
    with INT:
        b = x + y
    return a, b
''', 'f', ['real', 'real'], ['context', 'integer', 'tuple'])

prog('ambient_default', '''
@fp.fpy
def f(x: fp.Real, y: fp.Real) -> fp.Real:
    a = x * y
    with F3U:
        b = a + x
    return b + y
''', 'f', ['real', 'real'], ['context', 'ambient'])

# ---- explicitly rounded constants -------------------------------------------------------------------------------------------
prog('rounded_constants', '''
@fp.fpy
def f(x: fp.Real) -> fp.Real:
    with F3U:
        a = fp.round(0.1)
        b = fp.round(1.3125)
    with F3D:
        c = fp.round(0.1)
        d = fp.round(1.3125)
    with F5:
        r = (a - c) + (b - d) + x
    return r
''', 'f', ['real'], ['constant', 'context'], uic=False)

prog('rounded_constant_kinds', '''
@fp.fpy
def f(x: fp.Real) -> fp.Real:
    with F4Z:
        a = fp.round(fp.rational(1, 3))
        b = fp.round(fp.hexfloat('0x1.38p1'))
        c = fp.round(fp.digits(21, -3, 2))
        d = fp.round(-0.0)
        r = a + b + c + d * x
    return r
''', 'f', ['real'], ['constant', 'context'], uic=False)

prog('int_literals', '''
@fp.fpy
def f(x: fp.Real) -> fp.Real:
    with F3U:
        a = x + 9
        b = a * 3
    return b
''', 'f', ['real'], ['constant', 'uic'])

# ---- control flow, bundling ---------------------------------------------------------------------------------------------------
prog('if_one_var', '''
@fp.fpy
def f(x: fp.Real, y: fp.Real) -> fp.Real:
    with F5:
        t = x
        if x > y:
            t = x - y
        r = t + y
    return r
''', 'f', ['real', 'real'], ['branch'])

prog('if_two_vars', '''
@fp.fpy
def f(x: fp.Real, y: fp.Real) -> fp.Real:
    with F4Z:
        a = x
        b = y
        if x > y:
            a = x - y
            b = a + y
        else:
            b = y - x
        r = a * b
    return r
''', 'f', ['real', 'real'], ['branch', 'bundle'])

prog('if_intro', '''
@fp.fpy
def f(x: fp.Real, y: fp.Real) -> fp.Real:
    with F5:
        if x >= y:
            m = x
            n = y
        else:
            m = y
            n = x
        r = m - n
    return r
''', 'f', ['real', 'real'], ['branch', 'bundle'])

prog('ifexpr_cmp_chain', '''
@fp.fpy
def f(x: fp.Real, y: fp.Real, z: fp.Real) -> fp.Real:
    with F5:
        a = x if x < y <= z else y
        b = z if (x == y or not (y != z)) and x <= z else a
        r = a + b
    return r
''', 'f', ['real', 'real', 'real'], ['branch', 'compare'])

prog('for_two_accs', '''
@fp.fpy
def f(xs: list[fp.Real]) -> tuple[fp.Real, fp.Real]:
    with F4Z:
        s = 0
        p = 1
        for x in xs:
            s = s + x
            p = p + s
    return s, p
''', 'f', [('list', [0, 1, 2, 3])], ['loop', 'bundle', 'tuple'])

prog('for_range', '''
@fp.fpy
def f(x: fp.Real, y: fp.Real) -> fp.Real:
    with F5:
        t = x
        for i in range(3):
            t = t + y * i
    return t
''', 'f', ['real', 'real'], ['loop', 'range'])

prog('for_range_index', '''
@fp.fpy
def f(xs: list[fp.Real], ys: list[fp.Real]) -> fp.Real:
    with F5:
        t = 0
        for i in range(len(xs)):
            t = t + xs[i] * ys[i]
    return t
''', 'f', [('list', [1, 2, 3]), ('list', 'same')], ['loop', 'range', 'tensor'])

prog('while_two_vars', '''
@fp.fpy
def f(x: fp.Real, y: fp.Real) -> tuple[fp.Real, fp.Real]:
    with F5:
        a = x
        b = y
        n = 0
        while a < b and n < 2:
            a = a + 1
            b = b - a
            n = n + 1
    return a, b
''', 'f', ['real', 'real'], ['loop', 'bundle', 'tuple'])

prog('while_zero_trips', '''
@fp.fpy
def f(x: fp.Real, y: fp.Real) -> fp.Real:
    with F3U:
        t = x
        while t < y:
            t = t + 4
        r = t - y
    return r
''', 'f', ['real', 'real'], ['loop'])

prog('nested_loops', '''
@fp.fpy
def f(xs: list[fp.Real], y: fp.Real) -> fp.Real:
    with F5:
        t = y
        for x in xs:
            for j in range(2):
                t = t + x
            if t > y:
                t = t - y
    return t
''', 'f', [('list', [0, 1]), 'real'], ['loop', 'nested'])

# ---- tuples, tensors, reductions ---------------------------------------------------------------------------------------------
prog('tuple_destructure', '''
@fp.fpy
def f(x: fp.Real, y: fp.Real) -> fp.Real:
    with F5:
        t = (x + y, (x - y, x))
        a, (b, c) = t
        r = a * b + c
    return r
''', 'f', ['real', 'real'], ['tuple'])

prog('tuple_swap_loop', '''
@fp.fpy
def f(x: fp.Real, y: fp.Real) -> tuple[fp.Real, fp.Real]:
    with F4Z:
        a = x
        b = y
        for i in range(3):
            a, b = b, a + b
    return a, b
''', 'f', ['real', 'real'], ['tuple', 'loop'])

prog('list_reductions', '''
@fp.fpy
def f(xs: list[fp.Real]) -> tuple[fp.Real, fp.Real, fp.Real]:
    with F3U:
        s = sum(xs)
    with F5:
        lo = min(xs)
        hi = max(xs)
    return s, lo, hi
''', 'f', [('list', [1, 2])], ['reduce', 'tensor'])

prog('min_max_scalars', '''
@fp.fpy
def f(x: fp.Real, y: fp.Real, z: fp.Real) -> tuple[fp.Real, fp.Real]:
    with F5:
        a = min(x, y, z)
        b = max(x - y, y - x)
    return a, b
''', 'f', ['real', 'real', 'real'], ['reduce'])

prog('any_all', '''
@fp.fpy
def f(xs: list[fp.Real], t: fp.Real) -> bool:
    with F5:
        r = any([x > t for x in xs]) and not all([x > t for x in xs])
    return r
''', 'f', [('list', [0, 1, 2]), 'real'], ['reduce', 'bool', 'comprehension'])

prog('comprehension_zip', '''
@fp.fpy
def f(xs: list[fp.Real], ys: list[fp.Real]) -> fp.Real:
    with F4Z:
        zs = [x * y for x, y in zip(xs, ys)]
        r = sum(zs)
    return r
''', 'f', [('list', [1, 2, 3]), ('list', 'same')], ['comprehension', 'tensor', 'reduce'])

prog('enumerate_weights', '''
@fp.fpy
def f(xs: list[fp.Real]) -> fp.Real:
    with F5:
        t = 0
        for i, x in enumerate(xs):
            t = t + x * i
    return t
''', 'f', [('list', [0, 1, 2, 3])], ['tensor', 'loop'])

prog('list_update', '''
@fp.fpy
def f(xs: list[fp.Real], y: fp.Real) -> list[fp.Real]:
    with F3U:
        ys = [x for x in xs]
        ys[0] = ys[0] + y
        ys[len(xs) - 1] = ys[0] * y
    return ys
''', 'f', [('list', [1, 2, 3]), 'real'], ['tensor', 'update'])

prog('list_literal_index', '''
@fp.fpy
def f(x: fp.Real, y: fp.Real) -> fp.Real:
    with F5:
        v = [x + y, x - y, x * y]
        r = v[0] + v[2] - v[1]
    return r
''', 'f', ['real', 'real'], ['tensor'])

prog('matrix', '''
@fp.fpy
def f(x: fp.Real, y: fp.Real) -> fp.Real:
    with F5:
        m = [[x, y], [y, x + y]]
        t = 0
        for row in m:
            for v in row:
                t = t + v
        r = t + m[1][1]
    return r
''', 'f', ['real', 'real'], ['tensor', 'nested'])

prog('slice_sum', '''
@fp.fpy
def f(xs: list[fp.Real]) -> fp.Real:
    with F5:
        r = sum(xs[1:3])
    return r
''', 'f', [('list', [3, 4])], ['tensor', 'slice', 'reduce'])

prog('fma_neg_abs', '''
@fp.fpy
def f(x: fp.Real, y: fp.Real, z: fp.Real) -> fp.Real:
    with F3U:
        a = fp.fma(x, y, z)
    with F3D:
        b = -(x * y)
        c = abs(b + z)
    with F5:
        r = a + b + c
    return r
''', 'f', ['real', 'real', 'real'], ['ops'])

prog('predicates', '''
@fp.fpy
def f(x: fp.Real, y: fp.Real) -> bool:
    with F3U:
        a = x - y
    return (fp.signbit(a) and not fp.isnan(a)) or fp.isinf(a)
''', 'f', ['real', 'real'], ['bool', 'ops'])

prog('round_cast', '''
@fp.fpy
def f(x: fp.Real, y: fp.Real) -> fp.Real:
    with fp.REAL:
        e = x * y + x
    with F3U:
        a = fp.round(e)
    with F3D:
        b = fp.round(e)
    with F5:
        r = a - b
    return r
''', 'f', ['real', 'real'], ['ops', 'cast'])

# ---- calls between functions ------------------------------------------------------------------------------------------------------
prog('call_inherits_ctx', '''
@fp.fpy
def g(a: fp.Real, b: fp.Real) -> fp.Real:
    return a * b + a

@fp.fpy
def f(x: fp.Real, y: fp.Real) -> fp.Real:
    with F3U:
        u = g(x, y)
    with F4Z:
        v = g(x, y)
    with F5:
        r = u - v
    return r
''', 'f', ['real', 'real'], ['call', 'context'])

prog('call_pinned_ctx', '''
@fp.fpy(ctx=F3D)
def g(a: fp.Real, b: fp.Real) -> fp.Real:
    return a * b + a

@fp.fpy
def f(x: fp.Real, y: fp.Real) -> fp.Real:
    with F5:
        u = g(x, y)
        r = u + x * y
    return r
''', 'f', ['real', 'real'], ['call', 'context', 'funcctx'])


# ---- reported by a seeding agent on the unmodified tree ---------------------------------------------------------------------------
prog('fixed_point_contexts', '''
@fp.fpy
def f(x: fp.Real, y: fp.Real) -> fp.Real:
    with FX:
        a = x * y
    with FX0:
        b = a + x
    with F5:
        r = a - b
    return r
''', 'f', ['real', 'real'], ['context', 'fixed'])

prog('for_range_step', '''
@fp.fpy
def f(x: fp.Real, y: fp.Real) -> fp.Real:
    with F5:
        t = x
        for i in range(0, 10, 3):
            t = t + y
    return t
''', 'f', ['real', 'real'], ['loop', 'range'])

prog('for_target_rebinds', '''
@fp.fpy
def f(xs: list[fp.Real], x: fp.Real) -> fp.Real:
    with F5:
        s = x * x
        for x in xs:
            s = s + x
        r = s + x
    return r
''', 'f', [('list', [1, 2]), 'real'], ['loop', 'tensor'])

prog('for_target_rebinds_two_accs', '''
@fp.fpy
def f(xs: list[fp.Real], x: fp.Real) -> fp.Real:
    with F5:
        s = x * x
        c = x
        for x in xs:
            s = s + x
            c = c - x
        r = (s + x) - c
    return r
''', 'f', [('list', [1, 2]), 'real'], ['loop', 'tensor'])

prog('while_condition_lowers_to_statements', '''
@fp.fpy
def f(x: fp.Real, y: fp.Real) -> fp.Real:
    with F5:
        i = 0
        t = x
        while (i if i < 2 else i * 2) < 5:
            i = i + 1
            t = t + y
    return t
''', 'f', ['real', 'real'], ['loop'])

prog('while_condition_minmax', '''
@fp.fpy
def f(x: fp.Real, y: fp.Real) -> fp.Real:
    with F5:
        i = 0
        t = x
        while min(i, 3) < max(2, 2):
            i = i + 1
            t = t * y + x
    return t
''', 'f', ['real', 'real'], ['loop'])


# ======== FPCore texts (FPCore -> FPy) ====================================================================================================
core('ann_round_only', '(FPCore f (x y) :precision (float 5 9) :round toZero (+ (* x y) (! :round toPositive (+ x y))))', ['real', 'real'], ['props'])
core('ann_nested_partial', '(FPCore f (x y) (! :round toNegative (! :precision (float 5 8) (+ (* x y) (! :round toPositive (* x y))))))', ['real', 'real'], ['props', 'nested'])
core('ann_precision_only', '(FPCore f (x y) :precision (float 5 10) :round toPositive (- (! :precision (float 5 8) (* x y)) (* x y)))', ['real', 'real'], ['props'])
core('ann_in_let_value', '(FPCore f (x y) :precision (float 5 10) (let ([a (! :precision (float 5 8) :round toZero (* x y))] [b (+ x y)]) (+ a b)))', ['real', 'real'], ['props', 'let'])
core('ann_in_while', '(FPCore f (x y) :precision (float 5 9) :round toZero (while (< i 2) ([i 0 (! :precision integer (+ i 1))] [t x (! :precision (float 5 8) (+ (* t y) x))]) (+ t y)))', ['real', 'real'], ['props', 'loop'])
core('ann_in_whilestar', '(FPCore f (x y) :precision (float 5 9) :round toPositive (while* (< i 2) ([i 0 (! :precision integer (+ i 1))] [t x (! :precision (float 5 8) (+ (* t y) i))]) (+ t y)))', ['real', 'real'], ['props', 'loop'])
core('ann_in_for', '(FPCore f (x y) :precision (float 5 9) :round toNegative (for ([i 3]) ([s x (! :precision (float 5 8) (+ s (* y i)))] [p y (* p s)]) (+ s p)))', ['real', 'real'], ['props', 'loop'])
core('ann_in_forstar', '(FPCore f (x y) :precision (float 5 9) :round toNegative (for* ([i 3]) ([s x (! :precision (float 5 8) (+ s (* y i)))] [p y (* p s)]) (+ s p)))', ['real', 'real'], ['props', 'loop'])
core('ann_in_if', '(FPCore f (x y) :precision (float 5 10) :round toZero (if (< x y) (! :precision (float 5 8) (+ (* x y) y)) (! :round toPositive (+ (* x y) x))))', ['real', 'real'], ['props', 'branch'])
core('ann_in_tensor', '(FPCore f (x y) :precision (float 5 9) :round toPositive (let ([t (tensor ([i 3]) (! :precision (float 5 8) (+ (* x i) y)))]) (+ (ref t 0) (+ (ref t 1) (ref t 2)))))', ['real', 'real'], ['props', 'tensor'])
core('ann_in_tensorstar', '(FPCore f (x y) :precision (float 5 9) :round toZero (let ([t (tensor* ([i 3]) ([a x (! :precision (float 5 8) (+ a y))]) (* a i))]) (+ (ref t 1) (ref t 2))))', ['real', 'real'], ['props', 'tensor'])
core('let_parallel', '(FPCore f (x y) :precision (float 5 10) (let ([x (+ x y)] [y (- x y)]) (let* ([x (* x y)] [y (+ x y)]) (- x y))))', ['real', 'real'], ['let'])
core('while_parallel', '(FPCore f (x y) :precision (float 5 10) (while (< n 3) ([n 0 (+ n 1)] [a x b] [b y (+ a b)]) (- a b)))', ['real', 'real'], ['loop'])
core('for_inits_enclosing', '(FPCore f (x y) :precision (float 5 10) (let ([i x]) (for ([i 2]) ([a i (+ a i)] [b (+ i y) (* b a)]) (+ a b))))', ['real', 'real'], ['loop'])
core('literal_rounding', '(FPCore f (x) :precision (float 5 8) :round toPositive (+ (- 0.1 (! :round toNegative 0.1)) (+ (* 1/3 x) (! :precision (float 5 10) 1.3125))))', ['real'], ['constant', 'props'])
core('cast_rounds', '(FPCore f (x y) :precision (float 5 10) (let ([e (! :precision real (+ (* x y) x))]) (- (! :precision (float 5 8) :round toPositive (cast e)) (! :precision (float 5 8) :round toNegative (cast e)))))', ['real', 'real'], ['cast', 'props'])
core('tensor_arg', '(FPCore f ((xs 3) y) :precision (float 5 9) (for ([i (size xs 0)]) ([s y (+ s (ref xs i))]) s))', [('list', [3]), 'real'], ['tensor', 'loop'])
core('tensor_named_dim', '(FPCore f ((xs n) y) :precision (float 5 9) :round toZero (for ([i n]) ([s y (+ (* s y) (ref xs i))]) s))', [('list', [0, 1, 2]), 'real'], ['tensor', 'loop'])
core('array_of_arrays', '(FPCore f (x y) :precision (float 5 10) (let ([m (array (array x y) (array y (+ x y)))]) (+ (ref m 1 1) (+ (ref m 0 1) (size m 1)))))', ['real', 'real'], ['tensor'])
core('cmp_chains', '(FPCore f (x y z) :precision (float 5 10) (if (and (< x y z) (!= x y z)) (+ x z) (if (or (>= x y z) (== x y)) (- x z) (* y 2))))', ['real', 'real', 'real'], ['compare', 'branch'])
core('integer_round_inherits', '(FPCore f (x y) :round toPositive (+ (! :precision integer (+ x y)) (! :precision integer :round toNegative (+ x y))))', ['real', 'real'], ['props', 'integer'])
core('default_binary64', '(FPCore f (x y) (+ (! :precision (float 5 8) (* x y)) x))', ['real', 'real'], ['props', 'ambient'])
core('round_without_precision', '(FPCore f (x y) :round toZero (- (! :precision (float 5 8) (+ (* x y) x)) (! :precision (float 5 8) :round toPositive (+ (* x y) x))))', ['real', 'real'], ['props', 'ambient'])
core('round_without_precision_in_loop', '(FPCore f (x y) :round toNegative (for ([i 2]) ([s x (! :precision (float 5 8) (+ (* s y) x))]) s))', ['real', 'real'], ['props', 'ambient', 'loop'])
core('fixed_precision', '(FPCore f (x y) :precision (fixed -1 16) :round toZero (+ (* x y) (! :precision (fixed 0 12) :round toPositive (* x y))))', ['real', 'real'], ['props', 'fixed'])
core('round_without_precision_binary64', '(FPCore f (x y) :round toZero (+ (* x y) 0.1))', ['real', 'real'], ['props', 'ambient', 'constant'])
core('round_without_precision_literal', '(FPCore f (x) :round toPositive (- (+ x 0.1) (! :round toNegative (+ x 0.1))))', ['real'], ['props', 'ambient', 'constant'])
