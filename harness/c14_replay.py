"""Concrete judge for C14 part 1 on the unpatched code."""
import itertools
import math
from fractions import Fraction

INF = float('inf')


def _fmt(shape, inp, tag):
    from fpy2 import RealFloat
    from fpy2.analysis.format_infer.format import AbstractFormat
    prec = inp['p' + tag] if shape in ('fb', 'fu', 'mp') else INF
    exp = inp['x' + tag] if shape in ('fb', 'fu', 'xb', 'xu') else -INF
    if shape in ('fb', 'xb'):
        be = exp if not isinstance(exp, float) else 0
        pb = RealFloat(False, be, inp['pc' + tag]); nb = RealFloat(True, be, inp['nc' + tag])
    else:
        pb, nb = INF, -INF
    return AbstractFormat(prec, exp, pb, neg_bound=nb)


def _fr(b):
    if isinstance(b, float):
        return b
    return Fraction(-int(b.c) if b.s else int(b.c)) * Fraction(2) ** int(b.exp)


def member(v: Fraction, F) -> bool:
    """set definition of a finite member"""
    if v == 0:
        return True
    pb, nb = _fr(F.pos_bound), _fr(F.neg_bound)
    if v > 0 and not isinstance(pb, float) and v > pb:
        return False
    if v < 0 and not isinstance(nb, float) and v < nb:
        return False
    a = abs(v)
    if a.denominator & (a.denominator - 1):
        return False
    k = a.denominator.bit_length() - 1
    tz = (a.numerator & -a.numerator).bit_length() - 1
    lsb = tz - k
    msb = a.numerator.bit_length() - 1 - k
    if not isinstance(F.exp, float) and lsb < F.exp:
        return False
    if not isinstance(F.prec, float) and msb - lsb + 1 > F.prec:
        return False
    return True


def wellformed(F):
    pb, nb = _fr(F.pos_bound), _fr(F.neg_bound)
    if isinstance(pb, float):
        return True
    return member(pb, F) and member(nb, F)


def replay(case):
    t = case['task']; inp = case['inputs']; K = case.get('K', 0)
    kind = t['kind']
    if kind in ('flags', 'from_format'):
        return {'violates': True, 'observed': inp, 'key': kind + ':' + str(inp['row'][:3])}
    if kind == 'prog':
        from . import c14_prog, tv
        bad, args = c14_prog.concrete_violations(t, inp)
        if case.get('fact'):
            bad = [b for b in bad if b[0] == case['fact']] or bad
        return {'violates': bool(bad), 'observed': {'program': t['prog'], 'arguments': [tv._show(a) for a in args], 'outside inferred bound': [[k, {a: str(b)[:140] for a, b in i.items()}] for k, i in bad[:3]]},
                'key': 'prog:%s:%s' % (t['prog'], bad[0][0] if bad else 'ok')}
    problems = []
    sc = Fraction(1, 1 << K)
    F1 = _fmt(t['s1'], inp, '1')
    if not wellformed(F1):
        return {'violates': False, 'observed': 'ill-formed format (assumption)', 'key': 'pre'}
    try:
        if kind == 'binop':
            F2 = _fmt(t['s2'], inp, '2')
            if not wellformed(F2):
                return {'violates': False, 'observed': 'ill-formed format (assumption)', 'key': 'pre'}
            x = inp['mx'] * sc; y = inp['my'] * sc
            if not (member(x, F1) and member(y, F2)):
                return {'violates': False, 'observed': 'not members (assumption)', 'key': 'pre'}
            op = t['op']
            R = F1 + F2 if op == 'add' else F1 - F2 if op == 'sub' else F1 * F2
            ex = x + y if op == 'add' else x - y if op == 'sub' else x * y
            if not member(ex, R):
                problems.append(('%s: %s %s %s = %s not in %s' % (op, x, op, y, ex, R),))
            key = 'binop:' + op
        elif kind == 'lattice':
            F2 = _fmt(t['s2'], inp, '2')
            if not wellformed(F2):
                return {'violates': False, 'observed': 'ill-formed format (assumption)', 'key': 'pre'}
            x = inp['mx'] * sc
            op = t['op']
            if op == 'or' and (member(x, F1) or member(x, F2)) and not member(x, F1 | F2):
                problems.append(('union misses %s' % x,))
            if op == 'and' and (member(x, F1) and member(x, F2)) and not member(x, F1 & F2):
                problems.append(('intersection misses %s' % x,))
            if op == 'le' and (F1 <= F2) and member(x, F1) and not member(x, F2):
                problems.append(('%s <= %s but %s only in the first' % (F1, F2, x),))
            key = 'lattice:' + op
        elif kind == 'unop':
            op = t['op']
            if op in ('neg', 'abs', 'pos'):
                x = inp['mx'] * sc
                R = -F1 if op == 'neg' else abs(F1) if op == 'abs' else +F1
                ex = -x if op == 'neg' else abs(x) if op == 'abs' else x
                if member(x, F1) and not member(ex, R):
                    problems.append(('%s(%s) = %s not in %s' % (op, x, ex, R),))
            else:
                from fpy2 import Float
                fmt = F1.format()
                for s in (False, True):
                    v = Fraction(-inp['vc'] if s else inp['vc']) * Fraction(2) ** inp['ve']
                    if v != 0 and member(v, F1) and not fmt.representable_in(Float(s, inp['ve'], inp['vc'])):
                        problems.append(('%s in %s but not in format() = %r' % (v, F1, fmt),))
            key = 'unop:' + op
        elif kind == 'identity':
            from fpy2 import Float
            from fpy2.analysis.format_infer.analysis import round_is_identity
            from . import ctxgrid as G
            descs = [dict(fam='MPFloat', pmax=3), dict(fam='MPSFloat', pmax=2, emin=-1), dict(fam='IEEE', es=2, nbits=5), dict(fam='MPFixed', nmin=-2),
                     dict(fam='Fixed', signed=True, scale=-1, nbits=4, ov='SATURATE'), dict(fam='MPBFloat', pmax=2, emin=0, maxval=[0, 1, 3], enable_nan=False, enable_inf=False, ov='SATURATE')]
            ctx = G.build(dict(descs[t['ci']], rm='RNE'))
            if round_is_identity(F1, ctx):
                for s in (False, True):
                    v = Fraction(-inp['vc'] if s else inp['vc']) * Fraction(2) ** inp['ve']
                    if member(v, F1):
                        try:
                            r = ctx.round(Float(s, inp['ve'], inp['vc']))
                            if r.is_nar() or r.as_rational() != v or r.inexact or (v != 0 and bool(r.s) != s):
                                problems.append(('identity claimed but round(%s) = %s' % (v, r),))
                        except Exception as ex:  # noqa
                            problems.append(('identity claimed but round(%s) raised %r' % (v, ex),))
            key = 'identity'
    except Exception as ex:  # noqa
        problems.append(('raised', repr(ex)[:200]))
        key = kind + ':raised'
    return {'violates': bool(problems), 'observed': {'problems': [list(map(str, p)) for p in problems[:3]], 'F1': str(F1)}, 'key': key}


def table_flags(task):
    """special-value flags: for every flag combination of two formats, every pair of representative members
    (incl. +-inf, nan, +-0) must land in the result's flags / finite set"""
    from fpy2 import RealFloat
    from fpy2.analysis.format_infer.format import AbstractFormat
    n = 0; bad = []
    reps = ['+inf', '-inf', 'nan', '-0', '+0', '+1', '-1']
    val = {'+inf': math.inf, '-inf': -math.inf, 'nan': math.nan, '-0': -0.0, '+0': 0.0, '+1': 1.0, '-1': -1.0}

    def has(F, f):
        if math.isnan(f):
            return F.has_nan
        if math.isinf(f):
            return F.has_pos_inf if f > 0 else F.has_neg_inf
        if f == 0 and math.copysign(1, f) < 0:
            return F.has_neg_zero
        return member(Fraction(f), F)
    combos = list(itertools.product([False, True], repeat=4))
    base = dict(prec=3, exp=-2, bound=RealFloat(False, 0, 6))
    for fa in combos:
        A = AbstractFormat(base['prec'], base['exp'], base['bound'], has_pos_inf=fa[0], has_neg_inf=fa[1], has_nan=fa[2], has_neg_zero=fa[3])
        for op, fn in (('neg', lambda a: -a), ('abs', lambda a: abs(a)), ('pos', lambda a: +a)):
            R = {'neg': -A, 'abs': abs(A), 'pos': +A}[op]
            for ra in reps:
                if not has(A, val[ra]):
                    continue
                n += 1
                r = fn(val[ra])
                if r == 0 and not A.has_neg_zero:
                    r = 0.0         # documented in __neg__: a system without a signed zero has a single zero
                if not has(R, r):
                    bad.append([op, str(fa), ra])
        for fb in combos:
            B = AbstractFormat(4, -1, RealFloat(False, 1, 5), has_pos_inf=fb[0], has_neg_inf=fb[1], has_nan=fb[2], has_neg_zero=fb[3])
            for op in ('add', 'sub', 'mul', 'or', 'le'):
                if op == 'le':
                    n += 1
                    if A <= AbstractFormat(5, -3, RealFloat(False, 2, 7), has_pos_inf=fb[0], has_neg_inf=fb[1], has_nan=fb[2], has_neg_zero=fb[3]):
                        for ra in reps[:4]:
                            if has(A, val[ra]) and not dict(zip(reps[:4], fb))[ra]:
                                bad.append(['le', str(fa), str(fb), ra])
                    continue
                R = A + B if op == 'add' else A - B if op == 'sub' else A * B if op == 'mul' else A | B
                for ra in reps:
                    if not has(A, val[ra]):
                        continue
                    if op == 'or':
                        n += 1
                        if not has(R, val[ra]):
                            bad.append(['or', str(fa), str(fb), ra])
                        continue
                    for rb in reps:
                        if not has(B, val[rb]):
                            continue
                        n += 1
                        a, b = val[ra], val[rb]
                        r = a + b if op == 'add' else a - b if op == 'sub' else a * b
                        if op == 'mul' and r == 0 and not (A.has_neg_zero or B.has_neg_zero):
                            r = 0.0     # documented: number systems without a signed zero keep a single zero
                        if not has(R, r):
                            bad.append([op, str(fa), str(fb), ra + ',' + rb, str(r)])
    return n, bad, [{'flag_rows': n}]


def table_from_format(task):
    """from_format(fmt) contains every member of fmt (value sets enumerated for small encodable formats),
    and format() of the result contains them as well"""
    import fpy2 as fp
    from fpy2 import Float
    from fpy2.analysis.format_infer.format import AbstractFormat
    from . import ctxgrid as G
    n = 0; bad = []
    descs = [dict(fam='IEEE', es=2, nbits=5), dict(fam='IEEE', es=3, nbits=6), dict(fam='Fixed', signed=True, scale=-1, nbits=4), dict(fam='Fixed', signed=False, scale=1, nbits=3),
             dict(fam='SMFixed', scale=0, nbits=4), dict(fam='Exp', nbits=3, eoffset=1)]
    for nk in G.NAN_KINDS:
        for inf in (False, True):
            descs.append(dict(fam='EFloat', es=2, nbits=5, enable_inf=inf, nan_kind=nk, eoffset=-1))
    for d in descs:
        fmt = G.build(d).format()
        A = AbstractFormat.from_format(fmt)
        back = A.format()
        for b in range(1 << d['nbits']):
            x = fmt.decode(b)
            n += 1
            if x.isnan:
                ok = A.has_nan
            elif x.isinf:
                ok = A.has_neg_inf if x.s else A.has_pos_inf
            elif x.is_zero():
                ok = (not x.s) or A.has_neg_zero
            else:
                ok = member(x.as_rational(), A)
            if not ok:
                bad.append(['from_format misses', G.name_of(d), b])
            elif not back.representable_in(x):
                bad.append(['format(from_format) misses', G.name_of(d), b])
    return n, bad, [{'from_format_rows': n}]
