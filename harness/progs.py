"""Build real FPy `Function` objects from source text through the real front end (@fp.fpy: parser, syntax check,
reachability), without needing files on disk."""
import hashlib
import linecache


def load(src: str, extra_globals=None):
    """execute `src` (python text containing @fp.fpy functions) as a module; returns the module namespace"""
    import sys
    import types
    import fpy2 as fp
    h = hashlib.sha256(src.encode()).hexdigest()[:12]
    name = 'verif_prog_' + h
    filename = '/verif-generated/%s.py' % name
    linecache.cache[filename] = (len(src), None, src.splitlines(True), filename)
    mod = types.ModuleType(name)
    mod.__file__ = filename
    mod.__dict__['fp'] = fp
    if extra_globals:
        mod.__dict__.update(extra_globals)
    sys.modules[name] = mod
    exec(compile(src, filename, 'exec'), mod.__dict__)  # noqa: S102
    return mod.__dict__


def ctx_expr(desc):
    """FPy source text constructing the context of a descriptor (see ctxgrid)"""
    fam = desc['fam']
    rm = 'fp.RM.' + desc.get('rm', 'RNE')

    def val(v):
        if v is None:
            return None
        if v == 'nan':
            return 'fp.Float(isnan=True)'
        if v in ('+inf', '-inf'):
            return 'fp.Float(isinf=True, s=%s)' % (v == '-inf')
        s, e, c = v
        return 'fp.Float(%s, %d, %d)' % (bool(s), e, c)

    def rv(v):
        s, e, c = v
        return 'fp.RealFloat(%s, %d, %d)' % (bool(s), e, c)
    kw = []
    for k in ('enable_nan', 'enable_inf', 'enable_neg_zero'):
        if k in desc and fam not in ('IEEE', 'EFloat', 'Fixed', 'SMFixed'):
            kw.append('%s=%s' % (k, desc[k]))
    for k in ('nan_value', 'inf_value'):
        if desc.get(k) is not None and fam != 'IEEE':
            kw.append('%s=%s' % (k, val(desc[k])))
    ov = 'fp.OV.' + desc['ov'] if 'ov' in desc else None
    tail = (', ' + ', '.join(kw)) if kw else ''
    if fam == 'MPFloat':
        return 'fp.MPFloatContext(%d, %s%s)' % (desc['pmax'], rm, tail)
    if fam == 'MPSFloat':
        return 'fp.MPSFloatContext(%d, %d, %s%s)' % (desc['pmax'], desc['emin'], rm, tail)
    if fam == 'MPBFloat':
        nm = (', neg_maxval=' + rv(desc['neg_maxval'])) if desc.get('neg_maxval') else ''
        return 'fp.MPBFloatContext(%d, %d, %s, %s, %s%s%s)' % (desc['pmax'], desc['emin'], rv(desc['maxval']), rm, ov or 'fp.OV.OVERFLOW', nm, tail)
    if fam == 'IEEE':
        return 'fp.IEEEContext(%d, %d, %s, %s)' % (desc['es'], desc['nbits'], rm, ov or 'fp.OV.OVERFLOW')
    if fam == 'EFloat':
        return 'fp.EFloatContext(%d, %d, %s, fp.EFloatNanKind.%s, %d, %s, %s%s)' % (desc['es'], desc['nbits'], desc['enable_inf'], desc['nan_kind'], desc['eoffset'], rm, ov or 'fp.OV.OVERFLOW', tail)
    if fam == 'MPFixed':
        return 'fp.MPFixedContext(%d, %s%s)' % (desc['nmin'], rm, tail)
    if fam == 'MPBFixed':
        nm = (', neg_maxval=' + rv(desc['neg_maxval'])) if desc.get('neg_maxval') else ''
        return 'fp.MPBFixedContext(%d, %s, %s, %s%s%s)' % (desc['nmin'], rv(desc['maxval']), rm, ov or 'fp.OV.WRAP', nm, tail)
    if fam == 'Fixed':
        return 'fp.FixedContext(%s, %d, %d, %s, %s%s)' % (desc['signed'], desc['scale'], desc['nbits'], rm, ov or 'fp.OV.WRAP', tail)
    if fam == 'SMFixed':
        return 'fp.SMFixedContext(%d, %d, %s, %s%s)' % (desc['scale'], desc['nbits'], rm, ov or 'fp.OV.WRAP', tail)
    if fam == 'Real':
        return 'fp.REAL'
    raise ValueError(fam)
