"""
C15 — An accepted program never reads an unbound name or falls off its end.

Every program text of a bounded grammar (harness/c15_gen.py) is offered to the real `@fp.fpy` front end
(Parser, SyntaxCheck, Reachability).  Each ACCEPTED program is then run through the real bytecode compiler and
interpreter on symbolic arguments: every `if` has its own symbolic condition operand, every `while` its own symbolic
counter, every `range` its own enumerated trip count, the list its enumerated length, so the solver decides for every
combination of branch outcomes and trip counts whether some input takes it; on every feasible path the run must
neither raise for an unbound name (NameError / UnboundLocalError / a KeyError on an identifier out of the
compiler's analyses) nor return nothing.  Nothing is asserted about rejected programs.
"""
PROPERTY = 'C15'
LEVEL = 'model_checking'
BUDGET_S = {'quick': 3600, 'thorough': 14400}

CHUNK = 350
EXHAUSTIVE = {'quick': 3, 'thorough': 4}
RESTRICTED = {'quick': [4, 5], 'thorough': [4, 5, 6]}     # exhaustive over the smaller statement set R_ATOMS / R_COMPOUND
RANDOM = {'quick': [(4, 1500), (5, 1500), (6, 1000)], 'thorough': [(5, 20000), (6, 20000), (7, 10000), (8, 5000)]}


def tasks(tier, seed):
    from . import c15_gen as G
    ts = []
    for size in range(1, EXHAUSTIVE[tier] + 1):
        n = G.count(size)
        for start in range(0, n, CHUNK):
            ts.append(dict(kind='exh', name='all/size%d/%d' % (size, start), size=size, start=start, stop=min(n, start + CHUNK), cost=size))
    for size in RESTRICTED[tier]:
        n = G.count(size, restricted=True)
        for start in range(0, n, 4 * CHUNK):
            ts.append(dict(kind='exh', name='restricted/size%d/%d' % (size, start), size=size, start=start, stop=min(n, start + 4 * CHUNK), restricted=True, cost=size))
    for size, n in RANDOM[tier]:
        for k in range(0, n, CHUNK):
            ts.append(dict(kind='rnd', name='random/size%d/%d' % (size, k), size=size, count=min(CHUNK, n - k), seed=seed * 1000003 + size * 7919 + k, cost=size + 1))
    return ts


def required_witnesses(tier):
    return ['accepted', 'rejected', 'returns', 'zero-trip-for', 'zero-trip-while', 'if-not-taken', 'early-return']


def is_unbound_failure(ex):
    """does this exception say that a name had no value?"""
    if isinstance(ex, NameError):
        return True
    if isinstance(ex, KeyError) and ex.args and type(ex.args[0]).__name__ in ('NamedId', 'SourceId', 'UnderscoreId', 'Id'):
        return True
    s = str(ex).lower()
    return 'unbound' in s or 'not defined' in s or 'undefined variable' in s


def load(src):
    """the real front end on a program text; returns (Function | None, rejection reason)"""
    import sys
    import types
    import linecache
    import fpy2 as fp
    from . import corpus
    name = 'verif_c15_prog'
    filename = '/verif-generated/%s.py' % name
    linecache.cache[filename] = (len(src), None, src.splitlines(True), filename)
    mod = types.ModuleType(name)
    mod.__file__ = filename
    mod.__dict__['fp'] = fp
    mod.__dict__.update(corpus.namespace())
    sys.modules[name] = mod
    try:
        exec(compile(src, filename, 'exec'), mod.__dict__)  # noqa: S102
        return mod.__dict__['f'], None
    except Exception as ex:  # noqa
        return None, type(ex).__name__
    finally:
        sys.modules.pop(name, None)


def shapes_of(params, uses_xs, tier):
    import itertools
    ns = [p for p in params if p[0] == 'n']
    dims = [[0, 1, 2]] * len(ns) + ([[0, 1, 2]] if uses_xs else [])
    return [list(s) for s in itertools.product(*dims)]


def build_args(e_or_inputs, params, uses_xs, shape, symbolic):
    """argument tuple in parameter order: reals (x, c*, t*), ints (n*), list"""
    from fpy2 import Float
    from pysym import summaries
    out = []
    reals = [p for p in params if p[0] in 'xct']
    ns = [p for p in params if p[0] == 'n']
    for p in reals:
        if symbolic:
            m, s = e_or_inputs[p]
            out.append(summaries._mk_float(s.t != 0, -1, m.t, None, 4))
        else:
            out.append(Float(bool(e_or_inputs.get('s_' + p, 0)), -1, e_or_inputs.get('m_' + p, 0)))
    for j, p in enumerate(ns):
        out.append(Float.from_int(shape[j]))
    if uses_xs:
        L = shape[len(ns)]
        out.append([Float.from_int(k + 1) for k in range(L)])
    return tuple(out)


def explore_program(rt, fn, src, params, uses_xs, tier, stats, cexs, samples, task):
    from pysym.core import explore
    from . import tv
    ctx = tv.caller_ctx()
    for shape in shapes_of(params, uses_xs, tier):
        def setup(e):
            leaves = {}
            for p in params:
                if p[0] == 't':
                    leaves[p] = (e.fresh('m_' + p, 0, 5), e.fresh('s_' + p, 0, 0))
                elif p[0] in 'xc':
                    leaves[p] = (e.fresh('m_' + p, 0, 15), e.fresh('s_' + p, 0, 1))
            return (leaves,)

        def run(e, leaves):
            try:
                r = rt.eval(fn, build_args(leaves, params, uses_xs, shape, True), ctx, convert=False)
            except Exception as ex:  # noqa
                if is_unbound_failure(ex):
                    e.require(False, info={'raised': repr(ex)[:120]}, tag='unbound')
                else:
                    stats['other_exceptions'] = stats.get('other_exceptions', 0) + 1
                    if len(stats.setdefault('other_exception_examples', [])) < 3:
                        stats['other_exception_examples'].append(src + '# ' + repr(ex)[:100])
                return
            if r is None:
                e.require(False, info={'returned': 'None'}, tag='fallthrough')
                return
            e.cover('returns', True)
        eng = explore(run, setup, W=24, bl_max=16, max_paths=600)
        for k in ('paths', 'decisions', 'checks', 'unsat', 'sat', 'unknown', 'requires', 'aborted'):
            stats[k] = stats.get(k, 0) + getattr(eng, k)
        stats['solve_s'] = stats.get('solve_s', 0.0) + eng.solve_s
        for w, v in eng.witness.items():
            stats['w_' + w] = stats.get('w_' + w, 0) + v
        for cx in eng.cex[:1]:
            if cx.get('unknown') or cx.get('inputs') is None:
                cexs.append({'case': None})
            else:
                cexs.append({'case': {'task': {'kind': 'prog'}, 'src': src, 'params': params, 'uses_xs': uses_xs, 'shape': shape, 'inputs': cx['inputs'], 'tag': cx.get('tag')},
                             'failed_obligations': cx.get('failed_obligations')})
        if eng.cex:
            return


def run_task(task):
    import random
    from . import c15_gen as G, tv
    tier = task.get('tier', 'quick')
    if task['kind'] == 'exh':
        bodies = G.nth_programs(task['size'], task['start'], task['stop'], restricted=bool(task.get('restricted')))
    else:
        rng = random.Random(task['seed'])
        bodies = [G.random_body(rng, task['size']) for _ in range(task['count'])]
    rt = tv.install_runtime()
    stats = {}; cexs = []; samples = []
    witness = {'accepted': 0, 'rejected': 0, 'zero-trip-for': 0, 'zero-trip-while': 0, 'if-not-taken': 0, 'early-return': 0}
    reasons = {}
    for body in bodies:
        src, params, uses_xs = G.render(body)
        fn, why = load(src)
        if fn is None:
            witness['rejected'] += 1
            reasons[why] = reasons.get(why, 0) + 1
            continue
        witness['accepted'] += 1
        if 'for ' in src:
            witness['zero-trip-for'] += 1
        if 'while ' in src:
            witness['zero-trip-while'] += 1
        if 'if ' in src:
            witness['if-not-taken'] += 1
        if src.count('return') > 1:
            witness['early-return'] += 1
        if len(samples) < 2 and ('for ' in src or 'if ' in src):
            samples.append({'task': task['name'], 'accepted_program': src})
        explore_program(rt, fn, src, params, uses_xs, tier, stats, cexs, samples, task)
    witness['returns'] = stats.get('w_returns', 0)
    extra = {'programs_offered': witness['accepted'] + witness['rejected'], 'programs_accepted': witness['accepted'], 'other_exceptions': stats.get('other_exceptions', 0)}
    for k, v in reasons.items():
        extra['rejected_' + k] = v
    notes = list(stats.get('other_exception_examples', []))[:1]
    return dict(paths=stats.get('paths', 0), decisions=stats.get('decisions', 0), queries=stats.get('checks', 0), unsat=stats.get('unsat', 0), sat=stats.get('sat', 0),
                unknown=stats.get('unknown', 0), solve_s=stats.get('solve_s', 0.0), requires=stats.get('requires', 0), aborted=stats.get('aborted', 0),
                witness=witness, cex=cexs, samples=samples, extra=extra, notes=notes)


def describe(tier):
    from . import c15_gen as G
    R = '/repo/fpy2/'
    return dict(
        functions=['decorator._apply_fpy_decorator', 'frontend.parser.Parser', 'analysis.syntax_check.SyntaxCheck (_Env.merge, _visit_if/_visit_if1/_visit_while/_visit_for/_visit_context/_visit_list_comp)',
                   'analysis.reachability.Reachability.analyze', 'analysis.define_use / reaching_defs (run by the bytecode compiler)', 'interpret.byte.BytecodeCompiler / BytecodeInterpreter.eval on symbolic arguments'],
        files=[R + 'analysis/syntax_check.py', R + 'analysis/reachability.py', R + 'analysis/live_vars.py', R + 'decorator.py', R + 'analysis/define_use.py', R + 'analysis/reaching_defs.py', R + 'interpret/byte.py',
               R + 'frontend/parser.py'],
        bounds=dict(grammar='harness/c15_gen.py: 17 atoms, 8 compound forms, nesting depth <= 2; restricted family: 4 atoms, 5 compound forms', restricted_exhaustive_sizes=RESTRICTED[tier], restricted_programs=sum(G.count(s, restricted=True) for s in RESTRICTED[tier]), exhaustive_up_to_statements=EXHAUSTIVE[tier], exhaustive_programs=sum(G.count(s) for s in range(1, EXHAUSTIVE[tier] + 1)),
                    random_programs={str(s): n for s, n in RANDOM[tier]}, range_trip_counts=[0, 1, 2], list_lengths=[0, 1, 2], while_trip_counts='0..2 chosen by the solver through the symbolic counter',
                    condition_operands='symbolic half-integers, 4-bit significand, both signs; one per if'),
        outside=['programs outside the grammar or larger than the bound', 'rejected programs (rejecting more is not a violation)', 'failures other than unbound names / fall-through (counted in other_exceptions)'],
        stubs=['validated operation summaries for + and comparisons; number formatting'],
        assumptions=['while counters start in [0, 2.5]'],
        rule='one case = one feasible path of an accepted program under one vector of trip counts',
        explanation='all programs of the grammar up to the size bound are enumerated; acceptance is decided by the real front end; for accepted programs the solver decides which combinations of branch outcomes are feasible',
    )
