"""Context descriptors (JSON-able) <-> real repository context objects, and the grids used by the checks.
No pysym import here: the replay judge uses this module on the unpatched code."""
import itertools

MODES = ['RNE', 'RNA', 'RTP', 'RTN', 'RTZ', 'RAZ', 'RTO', 'RTE']
NAN_KINDS = ['IEEE_754', 'MAX_VAL', 'NEG_ZERO', 'NONE']


def fval(v):
    """descriptor value -> Float"""
    from fpy2 import Float
    if v is None:
        return None
    if v == 'nan':
        return Float(isnan=True)
    if v == '+inf':
        return Float(isinf=True)
    if v == '-inf':
        return Float(isinf=True, s=True)
    s, exp, c = v
    return Float(s=bool(s), exp=exp, c=c)


def rval(v):
    from fpy2 import RealFloat
    if v is None:
        return None
    s, exp, c = v
    return RealFloat(s=bool(s), exp=exp, c=c)


def build(desc, rng=None, num_randbits=0):
    import fpy2 as fp
    from fpy2.number.context.efloat import EFloatNanKind
    RM = fp.RM
    OV = fp.OV
    rm = RM[desc.get('rm', 'RNE')]
    fam = desc['fam']
    kw = {}
    for k in ('enable_nan', 'enable_inf', 'enable_neg_zero'):
        if k in desc:
            kw[k] = desc[k]
    for k in ('nan_value', 'inf_value'):
        if desc.get(k) is not None:
            kw[k] = fval(desc[k])
    if rng is not None:
        kw['rng'] = rng
    if fam == 'MPFloat':
        return fp.MPFloatContext(desc['pmax'], rm, num_randbits, **kw)
    if fam == 'MPSFloat':
        return fp.MPSFloatContext(desc['pmax'], desc['emin'], rm, num_randbits, **kw)
    if fam == 'MPBFloat':
        return fp.MPBFloatContext(desc['pmax'], desc['emin'], rval(desc['maxval']), rm, OV[desc.get('ov', 'OVERFLOW')],
                                  num_randbits, neg_maxval=rval(desc.get('neg_maxval')), **kw)
    if fam == 'IEEE':
        for k in ('nan_value', 'inf_value', 'enable_nan', 'enable_inf', 'enable_neg_zero'):
            kw.pop(k, None)
        return fp.IEEEContext(desc['es'], desc['nbits'], rm, OV[desc.get('ov', 'OVERFLOW')], num_randbits, **kw)
    if fam == 'EFloat':
        for k in ('enable_nan', 'enable_inf', 'enable_neg_zero'):
            kw.pop(k, None)
        return fp.EFloatContext(desc['es'], desc['nbits'], desc['enable_inf'], EFloatNanKind[desc['nan_kind']],
                                desc['eoffset'], rm, OV[desc.get('ov', 'OVERFLOW')], num_randbits, **kw)
    if fam == 'MPFixed':
        return fp.MPFixedContext(desc['nmin'], rm, num_randbits, **kw)
    if fam == 'MPBFixed':
        return fp.MPBFixedContext(desc['nmin'], rval(desc['maxval']), rm, OV[desc.get('ov', 'WRAP')], num_randbits,
                                  neg_maxval=rval(desc.get('neg_maxval')), **kw)
    if fam == 'Fixed':
        return fp.FixedContext(desc['signed'], desc['scale'], desc['nbits'], rm, OV[desc.get('ov', 'WRAP')], num_randbits, **kw)
    if fam == 'SMFixed':
        return fp.SMFixedContext(desc['scale'], desc['nbits'], rm, OV[desc.get('ov', 'WRAP')], num_randbits, **kw)
    if fam == 'Exp':
        return fp.ExpContext(desc['nbits'], desc.get('eoffset', 0), rm, OV[desc.get('ov', 'OVERFLOW')], **kw)
    if fam == 'Real':
        return fp.REAL
    raise ValueError(fam)


def valid_efloat(tier):
    """every valid (es, nbits, enable_inf, nan_kind) up to the tier's size"""
    from fpy2.number.context.efloat import EFloatFormat, EFloatNanKind
    maxbits = 5 if tier == 'quick' else 8
    out = []
    for nbits in range(1, maxbits + 1):
        for es in range(0, nbits):
            for inf in (False, True):
                for nk in NAN_KINDS:
                    try:
                        EFloatFormat(es, nbits, inf, EFloatNanKind[nk], 0)
                    except ValueError:
                        continue
                    out.append((es, nbits, inf, nk))
    return out


def name_of(desc):
    skip = ('fam',)
    return desc['fam'] + '(' + ','.join('%s=%s' % (k, desc[k]) for k in desc if k not in skip) + ')'
