"""Concrete judge for C10: original vs lowered program on one concrete operand, unpatched code."""
from fractions import Fraction
from . import ctxgrid as G


def _cls(r):
    from fpy2 import Float
    if isinstance(r, Fraction):
        return ('fin', r < 0, r)
    if r.isnan:
        return ('nan', None, None)
    if r.isinf:
        return ('inf', bool(r.s), None)
    return ('fin', bool(r.s), r.as_rational())


def replay(case):
    from fpy2 import Float
    from . import progs
    from .c10 import _src, lowerings
    t = case['task']; inp = case['inputs']
    if t['kind'] == 'lower_special':
        return {'violates': True, 'observed': inp, 'key': 'special:%s' % inp.get('rewrite')}
    if t['kind'] == 'lower':
        g = progs.load(_src() + '# ' + G.name_of(t['desc']), {'CTX': G.build(t['desc'])})
        q = g['q']
        lows, _ = lowerings(q)
    else:
        from fpy2 import strategies as st
        g = progs.load(_src(2, t['body']) + '# %s %s' % (G.name_of(t['c1']), G.name_of(t['c2'])), {'CTX1': G.build(t['c1']), 'CTX2': G.build(t['c2'])})
        q = g['q']
        lows = [('elim_round', st.elim_round(q))]
    x = Float(bool(t['s']), inp['exp'], inp['c'])
    args = (x,) if 'cy' not in inp else (x, Float(bool(inp['sy']), 0, inp['cy']))
    try:
        a = _cls(q(*args))
    except Exception as ex:  # noqa
        return {'violates': False, 'observed': 'original raises %r' % ex, 'key': 'pre'}
    problems = []
    for lab, h in lows:
        if case.get('rewrite') and lab != case['rewrite']:
            continue
        try:
            b = _cls(h(*args))
        except Exception as ex:  # noqa
            problems.append((lab, 'lowered raised %r' % ex)); continue
        if a[0] != b[0] or (a[0] == 'inf' and a[1] != b[1]) or (a[0] == 'fin' and (a[1] != b[1] or a[2] != b[2])):
            problems.append((lab, 'original %s lowered %s' % (a, b)))
    key = 'lower:' + (problems[0][0] if problems else 'ok')
    return {'violates': bool(problems), 'observed': {'operand': str(x.as_rational()), 'problems': [list(map(str, p)) for p in problems[:3]]}, 'key': key}
