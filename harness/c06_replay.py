"""Concrete judge for C06: real code, no shims."""
from fractions import Fraction


def _digits(v, n, base):
    s = ''
    for _ in range(n):
        s = '0123456789abcdef'[v % base] + s; v //= base
    return s


def replay(case):
    import fpy2 as fp
    import fpy2.ast.fpyast as A
    from fpy2 import Float
    from .c06_common import exact_decimal, exact_hex, show
    t = case['task']; inp = case['inputs']; kind = t['kind']
    if kind == 'sci':
        base = 10 if t['base'] == 'dec' else 16
        mant = (_digits(inp.get('I', 0), t['il'], base) if t['il'] else '') + (('.' + _digits(inp.get('F', 0), t['fl'], base)) if t['fl'] else '')
        text = t['sign'] + ('0x' if base == 16 else '') + mant + ((('e' if base == 10 else 'p') + t['ex']) if t['ex'] is not None else '')
        neg, want = (exact_decimal if base == 10 else exact_hex)(text)
        try:
            node = A.Decnum(text, None) if base == 10 else A.Hexnum(None, text, None)
            r = node.as_real(); q = node.as_rational()
        except Exception as ex:  # noqa
            return {'violates': True, 'observed': {'spelling': text, 'raised': repr(ex)}, 'key': 'sci:raises'}
        if isinstance(r, Float):
            ok = want == 0 and neg and r.s and r.c == 0 and q == 0
        else:
            ok = r == want and q == want and not (want == 0 and neg)
        return {'violates': not ok, 'observed': {'spelling': text, 'as_real': show(r), 'as_rational': str(q), 'denotes': str(want)}, 'key': 'sci:%s' % t['base']}
    if kind == 'digits':
        m = inp['m']; b = t['b']; ex = t['ex']
        want = Fraction(m * b ** ex) if ex >= 0 else Fraction(m, b ** (-ex))
        try:
            q = A.Digits(None, m, ex, b, None).as_rational()
        except Exception as exn:  # noqa
            return {'violates': True, 'observed': repr(exn), 'key': 'digits:raises'}
        return {'violates': q != want, 'observed': {'digits': [m, ex, b], 'got': str(q), 'denotes': str(want)}, 'key': 'digits'}
    if kind == 'rational':
        p, q = inp['p'], inp['q']
        try:
            v = A.Rational(None, p, q, None).as_rational()
        except ZeroDivisionError:
            return {'violates': q != 0, 'observed': 'ZeroDivisionError', 'key': 'rational'}
        return {'violates': q == 0 or v != Fraction(p, q), 'observed': str(v), 'key': 'rational'}
    if kind == 'spelling':
        from . import c06
        payload = inp['payload']
        if inp['kind'] == 'pair':
            problems = c06.check_pair(int(payload))
            return {'violates': bool(problems), 'observed': {'pair': c06.PAIRS[int(payload)], 'problems': problems[:3]}, 'key': 'spelling:pair'}
        if isinstance(payload, list):
            payload = tuple(payload)
        problems, want, negzero = c06.check_spelling(inp['expr'], inp['kind'], payload, inp['ctx'])
        key = 'spelling:' + inp['kind']
        if problems and inp['kind'] in ('dec', 'negzero'):
            key = 'spelling:dec:' + float_path_signature(inp['expr'], payload, inp['ctx'], problems)
        return {'violates': bool(problems), 'observed': {'spelling': inp['expr'], 'problems': problems[:3]}, 'key': key}
    raise ValueError(kind)


def float_path_signature(expr, payload, ci, problems):
    """is the failure exactly what `Parser._parse_constant` does with a float constant -- the value of the double CPython
    parsed (Integer(int(d)) or Decnum(str(d)))?  Then the signature is 'value-of-python-double'; anything else is 'other'."""
    from . import c06
    from .c06_common import exact_decimal
    text = payload if isinstance(payload, str) else str(payload)
    neg = text.startswith('-')
    lit = text.lstrip('-').replace('_', '')
    try:
        d = float(lit)
    except ValueError:
        return 'other'
    if d in (float('inf'),):
        return 'value-of-python-double' if all('invalid decimal number: inf' in p for p in problems) else 'other'
    pv = Fraction(int(d)) if d.is_integer() else exact_decimal(repr(d))[1]
    if neg:
        pv = -pv
    p2, _, _ = c06.check_spelling(expr, 'dec', payload, ci, want_override=(pv, neg and pv == 0))
    return 'value-of-python-double' if not p2 else 'other'
