"""C19 concrete corpus part (sites / where / refusals, real cursor forwarding). Filled in with the program corpus."""
WITNESSES = []


def tasks(tier, seed):
    return []


def run_task(task):
    raise NotImplementedError
