"""
C19, program-level part — CONCRETE support (no symbolic quantity: programs, strategies and indices are finite objects; the
deciding step here is enumeration of a bounded corpus, labelled as such in the evidence; the solver-decided part of C19 is
the forwarding arithmetic in c19.py).

For each corpus program and each aimable strategy configuration:
  listing     every candidate point (an independently enumerated loop / call) is listed as a site or explained as a refusal;
  index       for every j < k: strategy(f, where=j) equals strategy(f, where=sites[j]) (the j-th listed site is the one
              rewritten) and the program changed; every statement that is neither the site, nor above, nor beneath it
              forwards to a statement with the same text (only it);
  rejection   where = k, k + 3, -1 is rejected;
  all         where=None: every listed site forwards to a changed statement or a reference error, every statement unrelated to
              all sites forwards to the same text;
  cursor      a cursor to every statement, forwarded across sequences of 1..3 strategies, resolves to a statement that still
              carries one of the original statement's markers (every statement of the corpus carries a unique literal >= 100)
              or raises a reference error — never an unrelated statement, never another exception.
"""
WITNESSES = ['prog-sites-listed', 'prog-index-checked', 'prog-index-rejected', 'prog-cursor-forwarded', 'prog-cursor-reference-error']

PROGRAMS = {}


def P(name, src, entry='f'):
    PROGRAMS[name] = dict(name=name, src=src, entry=entry)


P('nests', '''
@fp.fpy
def f(xs: list[fp.Real], n: fp.Real) -> fp.Real:
    acc = 101
    for x in xs:
        acc = acc + x * 102
    for i in range(4):
        for j in range(2):
            for k in range(2):
                acc = acc + 103
            acc = acc * 104
    for i in range(6):
        for j in range(2):
            for k in range(2):
                acc = acc + 105
            acc = acc * 106
    return acc + 107
''')

P('guarded', '''
@fp.fpy
def f(xs: list[fp.Real], ys: list[fp.Real], n: fp.Real) -> fp.Real:
    a = 201
    if n > 0:
        for x in xs:
            a = a + x + 202
        a = a * 203
    for y in ys:
        a = a + y + 204
    b = a + 205
    return b + 206
''')

P('calls', '''
@fp.fpy
def sq(v: fp.Real) -> fp.Real:
    return v * v

@fp.fpy
def slot(i: fp.Real) -> fp.Real:
    return i + 0

@fp.fpy
def f(x: fp.Real) -> fp.Real:
    i = 0
    ys = [x + 301, x + 302]
    ys[slot(i)] = sq(x) + 303
    t = sq(x + 304) + slot(305)
    for k in range(2):
        t = t + sq(t + 306)
    return ys[0] + t + 307
''')

P('whiles', '''
@fp.fpy
def f(x: fp.Real) -> fp.Real:
    t = x + 401
    i = 0
    while i < 3:
        t = t + 402
        i = i + 1
    j = 0
    while j < 2:
        k = 0
        while k < 2:
            t = t * 403
            k = k + 1
        j = j + 1
    for m in range(4):
        t = t + 404
    return t + 405
''')

P('branches', '''
@fp.fpy
def f(xs: list[fp.Real], c: fp.Real) -> fp.Real:
    s = 501
    if c > 0:
        for x in xs:
            s = s + x * 502
    else:
        for x in xs:
            if x > c:
                s = s - x + 503
        s = s + 504
    with fp.REAL:
        for x in xs:
            s = s + 505
    return s + 506
''')


def configs():
    """name -> (strategy function for listings, listing kwargs, apply(f, where), candidate statement / expression class name)"""
    from fpy2 import strategies as st
    return {
        'unroll_for': (st.unroll_for, {}, lambda f, w: st.unroll_for(f, w, 1), 'ForStmt'),
        'unroll_for2': (st.unroll_for, {}, lambda f, w: st.unroll_for(f, w, 2), 'ForStmt'),
        'split': (st.split, {'factor': 2}, lambda f, w: st.split(f, 2, w), 'ForStmt'),
        'unroll_while': (st.unroll_while, {}, lambda f, w: st.unroll_while(f, w, 1), 'WhileStmt'),
        'inline': (st.inline, {}, lambda f, w: st.inline(f, w), 'Call'),
    }


SEQUENCES = [
    ['unroll_for:None'], ['unroll_for:0', 'unroll_for:0'], ['split:None', 'unroll_for:None'], ['unroll_while:None', 'unroll_for:None'], ['inline:None', 'unroll_for:None'],
    ['unroll_for:1', 'split:0', 'unroll_while:None'], ['split:1', 'inline:0'], ['unroll_for2:None', 'unroll_while:0'], ['inline:1', 'split:None', 'unroll_for:0'],
]


def tasks(tier, seed):
    ts = []
    for p in PROGRAMS:
        for c in configs_names():
            ts.append(dict(kind='prog', name='prog/sites/%s/%s' % (p, c), prog=p, part='sites', cfg=c, cost=2))
        for k, seq in enumerate(SEQUENCES):
            ts.append(dict(kind='prog', name='prog/cursor/%s/%d' % (p, k), prog=p, part='cursor', seq=seq, cost=2))
    return ts


def configs_names():
    return ['unroll_for', 'unroll_for2', 'split', 'unroll_while', 'inline']


# ---- helpers -------------------------------------------------------------------------------------------------------------------
def load(pname):
    from . import progs
    p = PROGRAMS[pname]
    g = progs.load(p['src'] + '# c19 ' + pname)
    return g[p['entry']]


def markers(text):
    import re
    return {int(m) for m in re.findall(r'(?<![\w.])(\d{3})(?![\w.])', text) if int(m) >= 100}


def stmt_text(s):
    try:
        return s.format()
    except Exception:  # noqa
        return repr(s)


def all_stmt_cursors(f):
    from fpy2.transform.cursor import StmtCursor
    from fpy2.transform.path import walk_stmts
    return [StmtCursor(f.ast, path) for path, _ in walk_stmts(f.ast)]


def _prefix(a, b):
    """is statement path a at or above statement path b?"""
    from fpy2.transform.path import StmtPath, SubBlock, FuncBody
    chain = []
    p = b
    while isinstance(p, StmtPath):
        chain.append(p)
        blk = p.parent
        p = blk.parent if isinstance(blk, SubBlock) else None
    return any(x == a for x in chain)


def related(a, b):
    return _prefix(a, b) or _prefix(b, a)


def site_stmt_path(cur):
    from fpy2.transform.cursor import ExprCursor
    return cur.stmt().path if isinstance(cur, ExprCursor) else cur.path


def candidates(f, clsname):
    """independent enumeration of the points a strategy considers: loops by statement class, calls of FPy functions"""
    from fpy2.transform.path import walk_stmts, walk_exprs
    import fpy2 as fp
    if clsname == 'Call':
        return [path for path, e in walk_exprs(f.ast) if type(e).__name__ == 'Call' and isinstance(getattr(e, 'fn', None), fp.Function)]
    return [path for path, s in walk_stmts(f.ast) if type(s).__name__ == clsname]


def check_sites(pname, cname):
    """returns (problems, witness counts); a problem = dict(key, detail)"""
    from fpy2 import strategies as st
    from fpy2.transform.error import TransformReferenceError
    f = load(pname)
    sfn, kw, apply, cls = configs()[cname]
    problems = []; wit = {w: 0 for w in WITNESSES}

    def bad(key, detail):
        problems.append(dict(key='%s:%s:%s' % (pname, cname, key), detail=str(detail)[:300]))
    try:
        sites = st.sites(sfn, f, **kw)
        refs = st.refusals(sfn, f, **kw)
    except Exception as ex:  # noqa
        bad('listing-raised', repr(ex)); return problems, wit
    k = len(sites)
    wit['prog-sites-listed'] += 1
    # listing: every candidate is a site or a refusal
    spaths = [c.path for c in sites]
    rpaths = [c.path for c, _ in refs]
    for cand in candidates(f, cls):
        if cand not in spaths and cand not in rpaths:
            bad('candidate-unaccounted', 'candidate %s is neither listed as a site nor explained as a refusal' % (cand,))
    base = f.format()
    cursors = all_stmt_cursors(f)
    texts = {id(c): stmt_text(c.resolve()) for c in cursors}
    results = {}
    for j in range(k):
        try:
            gj = apply(f, j)
            gc = apply(f, sites[j])
        except Exception as ex:  # noqa
            bad('listed-site-not-rewritten', 'where=%d of %d listed sites raised %r' % (j, k, ex)); continue
        wit['prog-index-checked'] += 1
        results[j] = gj
        # a statement cursor takes every site at or beneath it (documented), an index exactly one: they must agree when no other
        # listed site lies beneath the j-th one
        spj = site_stmt_path(sites[j])
        nested = any(i != j and _prefix(spj, site_stmt_path(sites[i])) and (type(sites[j]).__name__ != 'ExprCursor') for i in range(k))
        if not nested and gj.format() != gc.format():
            bad('index-vs-cursor', 'where=%d and where=sites[%d] rewrite different sites' % (j, j))
        if gj.format() == base:
            bad('site-not-rewritten', 'where=%d left the program unchanged' % j)
        sp = site_stmt_path(sites[j])
        for c in cursors:
            if related(c.path, sp):
                continue
            try:
                r = gj.forward(c).resolve()
            except TransformReferenceError:
                bad('untouched-statement-lost', 'where=%d: statement %r (unrelated to the site) no longer resolves' % (j, texts[id(c)][:50])); continue
            except Exception as ex:  # noqa
                bad('forward-raised', 'where=%d: %r' % (j, ex)); continue
            if stmt_text(r) != texts[id(c)]:
                bad('only-it', 'where=%d: unrelated statement %r became %r' % (j, texts[id(c)][:60], stmt_text(r)[:60]))
    for w in (k, k + 3, -1):
        try:
            g = apply(f, w)
        except Exception:  # noqa
            wit['prog-index-rejected'] += 1
            continue
        bad('index-not-rejected', 'where=%d with %d listed sites was accepted' % (w, k))
    if k:
        try:
            ga = apply(f, None)
        except Exception as ex:  # noqa
            bad('all-raised', repr(ex)); return problems, wit
        spl = [site_stmt_path(s) for s in sites]
        for j, s in enumerate(sites):
            c = s.stmt() if hasattr(s, 'stmt') and callable(getattr(s, 'stmt')) and type(s).__name__ == 'ExprCursor' else s
            try:
                r = ga.forward(c).resolve()
            except TransformReferenceError:
                continue
            except Exception as ex:  # noqa
                bad('forward-raised', 'where=None: %r' % ex); continue
            if stmt_text(r) == stmt_text(c.resolve()) and not any(related(spl[i], spl[j]) for i in range(k) if i != j):
                bad('all-missed-a-site', 'where=None left listed site %d unchanged' % j)
        for c in cursors:
            if any(related(c.path, sp) for sp in spl):
                continue
            try:
                r = ga.forward(c).resolve()
            except TransformReferenceError:
                bad('untouched-statement-lost', 'where=None: statement %r no longer resolves' % texts[id(c)][:50]); continue
            except Exception as ex:  # noqa
                bad('forward-raised', 'where=None: %r' % ex); continue
            if stmt_text(r) != texts[id(c)]:
                bad('only-it', 'where=None: unrelated statement %r became %r' % (texts[id(c)][:60], stmt_text(r)[:60]))
    return problems, wit


def check_cursor(pname, seq):
    from fpy2.transform.error import TransformReferenceError
    from fpy2.strategies import TransformDeclined, TransformError
    f = load(pname)
    problems = []; wit = {w: 0 for w in WITNESSES}
    cursors = all_stmt_cursors(f)
    marks = {id(c): markers(stmt_text(c.resolve())) for c in cursors}
    h = f
    cf = configs()
    for step in seq:
        nm, _, w = step.partition(':')
        w = None if w == 'None' else int(w)
        try:
            h = cf[nm][2](h, w)
        except (TransformDeclined, TransformError, ValueError, IndexError, TypeError):
            break             # the step does not apply to this program (no such site): the prefix applied so far is what is checked
    for c in cursors:
        if not marks[id(c)]:
            continue
        try:
            r = h.forward(c).resolve()
        except TransformReferenceError:
            wit['prog-cursor-reference-error'] += 1
            continue
        except Exception as ex:  # noqa
            problems.append(dict(key='%s:cursor:%s:raised' % (pname, '>'.join(seq)), detail='forwarding %r raised %r' % (stmt_text(c.resolve())[:50], ex))); continue
        wit['prog-cursor-forwarded'] += 1
        # inlining moves marker-carrying operands into the statements it splices ahead; what stays is the assignment to the same target
        same_target = any(st.startswith('inline') for st in seq) and stmt_text(r).split('=')[0].strip() == stmt_text(c.resolve()).split('=')[0].strip() and '=' in stmt_text(r)
        if not (markers(stmt_text(r)) & marks[id(c)]) and not same_target:
            problems.append(dict(key='%s:cursor:%s:unrelated' % (pname, '>'.join(seq)),
                                 detail='cursor to %r resolves to the unrelated statement %r' % (stmt_text(c.resolve())[:60], stmt_text(r)[:60])))
    return problems, wit


def run_case(task):
    if task['part'] == 'sites':
        return check_sites(task['prog'], task['cfg'])
    return check_cursor(task['prog'], task['seq'])


def run_task(task):
    problems, wit = run_case(task)
    tt = {k: v for k, v in task.items() if k not in ('name', 'cost')}
    seen = set(); cex = []
    for pr in problems:
        if pr['key'] in seen:
            continue
        seen.add(pr['key'])
        cex.append({'case': {'task': tt, 'inputs': {'key': pr['key']}, 'info': pr['detail']}})
    n = sum(wit.values())
    return dict(paths=0, requires=0, cex=cex, samples=[{'task': task['name'], 'concrete': True, 'checks': n}], witness=wit, extra={'diff_runs': n, 'concrete_site_and_cursor_checks': n})


def replay(case):
    problems, _ = run_case(case['task'])
    want = case['inputs'].get('key')
    mine = [p for p in problems if p['key'] == want]
    return {'violates': bool(mine), 'observed': mine[:3] or 'not reproduced', 'key': 'prog:' + str(want)}
