"""
C10 — Rounding-lowering rewrites leave the rounding function unchanged.

The original `with C: y = round(x)` and every lowering of it (unfold_special, unfold_overflow, unfold_neg_zero,
float_to_fixed, rescale_fixed — each alone where it has a site, and every prefix of the documented chain) run
side by side through the REAL interpreter on a symbolic operand x, with no summaries: the lowered text calls
isnan/isinf/signbit/logb/min/max, exact arithmetic and fp.round under run-time-computed fixed-point contexts, all
of which is unmodified repository code.  elim_round / insert_round are checked on two-stage programs.
The solver decides per joint path that both programs return the same value.
"""
import os

PROPERTY = 'C10'
LEVEL = 'translation_validation'
BUDGET_S = {'quick': 3600, 'thorough': 14400}

from . import ctxgrid as G

TIER = {'quick': dict(CW=5, E=5, W=32, WO=48), 'thorough': dict(CW=7, E=7, W=48, WO=64)}
CHAIN = ['unfold_special', 'unfold_overflow', 'unfold_neg_zero', 'float_to_fixed', 'rescale_fixed']


def source_ctxs(tier, seed):
    ds = [
        dict(fam='IEEE', es=3, nbits=6), dict(fam='IEEE', es=2, nbits=5),
        dict(fam='MPFloat', pmax=3), dict(fam='MPSFloat', pmax=3, emin=-2),
        dict(fam='MPBFloat', pmax=3, emin=-2, maxval=[0, 1, 5]), dict(fam='MPBFloat', pmax=2, emin=0, maxval=[0, 2, 3], enable_inf=False, inf_value=[0, 2, 3]),
        dict(fam='EFloat', es=2, nbits=5, enable_inf=False, nan_kind='MAX_VAL', eoffset=1), dict(fam='EFloat', es=2, nbits=5, enable_inf=True, nan_kind='NEG_ZERO', eoffset=0),
        dict(fam='EFloat', es=3, nbits=5, enable_inf=False, nan_kind='NONE', eoffset=-1),
        dict(fam='Fixed', signed=True, scale=-1, nbits=5), dict(fam='Fixed', signed=False, scale=0, nbits=4), dict(fam='SMFixed', scale=-2, nbits=5),
        dict(fam='MPFixed', nmin=-2), dict(fam='MPBFixed', nmin=-1, maxval=[0, 0, 9], neg_maxval=[1, 0, 4]),
        dict(fam='MPBFixed', nmin=-1, maxval=[0, 0, 4], neg_maxval=[1, 0, 9], enable_inf=True, always=True),
    ]
    if tier == 'thorough':
        ds += [dict(fam='IEEE', es=4, nbits=8), dict(fam='MPSFloat', pmax=1, emin=0), dict(fam='MPBFloat', pmax=3, emin=-1, maxval=[0, 0, 6], neg_maxval=[1, 2, 5]),
               dict(fam='EFloat', es=2, nbits=6, enable_inf=True, nan_kind='IEEE_754', eoffset=2), dict(fam='Fixed', signed=True, scale=2, nbits=4)]
    return ds


def tasks(tier, seed):
    ts = []
    modes = G.MODES
    ctxs = source_ctxs(tier, seed)
    k = 0
    for d in ctxs:
        ovs = ['OVERFLOW', 'SATURATE'] + (['WRAP'] if d['fam'] in ('Fixed', 'SMFixed', 'MPBFixed') else [])
        if d['fam'] in ('MPFloat', 'MPSFloat', 'MPFixed'):
            ovs = [None]
        for ov in ovs:
            for rm in modes:
                k += 1
                if tier == 'quick' and (k + seed) % 4 != 0 and not (d.get('always') and ov == 'OVERFLOW' and rm in ('RNE', 'RTZ')):
                    continue
                dd = {k_: v_ for k_, v_ in dict(d, rm=rm).items() if k_ != 'always'}
                if ov:
                    dd['ov'] = ov
                for s in (0, 1):
                    ts.append(dict(kind='lower', name='lower/%s/s%d' % (G.name_of(dd), s), desc=dd, s=s, cost=5))
                ts.append(dict(kind='lower_special', name='lower-specials/%s' % G.name_of(dd), desc=dd))
    # elim_round / insert_round on two-stage programs
    pairs = [(dict(fam='MPSFloat', pmax=3, emin=-2), dict(fam='IEEE', es=3, nbits=7)), (dict(fam='IEEE', es=2, nbits=5), dict(fam='MPFloat', pmax=3)),
             (dict(fam='Fixed', signed=True, scale=-1, nbits=4), dict(fam='MPSFloat', pmax=4, emin=-1)), (dict(fam='MPFloat', pmax=2), dict(fam='MPFloat', pmax=1)),
             (dict(fam='Fixed', signed=True, scale=0, nbits=4), dict(fam='Fixed', signed=True, scale=-1, nbits=6, ov='SATURATE')), (dict(fam='MPSFloat', pmax=3, emin=-2), dict(fam='MPSFloat', pmax=3, emin=-1)),
             (dict(fam='Fixed', signed=True, scale=0, nbits=3), dict(fam='Fixed', signed=True, scale=0, nbits=7))]
    for i, (c1, c2) in enumerate(pairs):
        for body in ('round', 'add', 'mul', 'neg', 'sub', 'mul2', 'add2', 'sub2'):
            if body.endswith('2') and not (c2['fam'] == 'Fixed' or i == 0):
                continue            # two-operand bodies: the scopes without a negative zero, and one float pair
            for s in (0, 1):
                ts.append(dict(kind='elim', name='elim_round/%d/%s/s%d' % (i, body, s), c1=dict(c1, rm='RNE'), c2=dict(c2, rm='RNE'), body=body, s=s, cost=3))
    return ts


def required_witnesses(tier):
    return ['lowered-differs-textually', 'chain-full', 'subnormal-branch', 'overflow-branch', 'fixed-context-computed', 'elim-applied', 'elim-unchanged', 'refused']


def describe(tier):
    t = TIER[tier]
    R = '/repo/fpy2/'
    return dict(
        functions=['strategies.unfold_special/unfold_overflow/unfold_neg_zero/float_to_fixed/rescale_fixed/elim_round (run concretely to produce the lowered program)',
                   'interpret.byte.BytecodeCompiler / BytecodeInterpreter.eval on original and lowered programs (symbolic operand)', 'ops.round/isnan/isinf/signbit/logb/pow/mul/neg', 'byte._construct_context/_cvt_context_arg/_eval_min/_eval_max/_eval_eq',
                   'RealEngine.mul/pow/neg', 'MPBFixedContext / MPFixedContext / MPSFloatContext .round', 'Float.compare', 'format_infer.round_is_identity (through elim_round)'],
        files=[R + 'strategies/special_unfold.py', R + 'strategies/overflow_unfold.py', R + 'strategies/neg_zero_unfold.py', R + 'strategies/float_lower.py', R + 'strategies/fixed_rescale.py', R + 'strategies/round_elim.py',
               R + 'transform/unfold_special.py', R + 'transform/unfold_overflow.py', R + 'transform/unfold_neg_zero.py', R + 'transform/float_to_fixed.py', R + 'transform/rescale_fixed.py', R + 'transform/round_elim.py',
               R + 'analysis/format_infer/analysis.py', R + 'interpret/byte.py', R + 'ops.py'],
        bounds=dict(operand_significand_bits=t['CW'], operand_exponent_abs=t['E'], engine_width=t['W'], source_contexts=len(source_ctxs(tier, 0))),
        outside=['source contexts outside the printed grid', 'operands wider than the bounds', 'insert_round (needs a target context per site; exercised only through elim_round\'s identity test)', 'stochastic contexts'],
        stubs=['module-level int -> pass-through / concretising versions in reals.py, floats.py, byte.py, engine/real.py, ops.py (run-time context parameters are concretised by enumerate-and-fork)',
               'Fraction proxy in reals.py/floats.py', 'number formatting', 'elim tasks: MPFR call replaced by its contract (harness/glue.py)'],
        assumptions=['a rewrite that declines (TransformDeclined / no site) is accepted; an approximation is not'],
        rule='one case = one feasible joint path of (original, lowered) through the real interpreter for a (source context, rewrite prefix, sign) configuration',
        explanation='translation validation per (program, rewrite): transforms run concretely, both programs run symbolically, equality decided by z3',
    )


def _src(nstage=1, body='round'):
    if nstage == 1:
        return "@fp.fpy\ndef q(x: fp.Real) -> fp.Real:\n    with CTX:\n        y = fp.round(x)\n    return y\n"
    if body.endswith('2'):
        # two operands, so that products / sums of operands of different sign and of zeros are inside the bound
        expr = {'mul2': 'a * d', 'add2': 'a + d', 'sub2': 'a - d'}[body]
        return ("@fp.fpy\ndef q(x: fp.Real, y: fp.Real) -> fp.Real:\n    with CTX1:\n        a = fp.round(x)\n        d = fp.round(y)\n"
                "    with CTX2:\n        b = %s\n    return b\n" % expr)
    expr = {'round': 'fp.round(a)', 'add': 'a + a', 'mul': 'a * a', 'neg': '-a', 'sub': 'a - a'}[body]
    return "@fp.fpy\ndef q(x: fp.Real) -> fp.Real:\n    with CTX1:\n        a = fp.round(x)\n    with CTX2:\n        b = %s\n    return b\n" % expr


def lowerings(q):
    """[(label, lowered function)] for each single rewrite with a site and every prefix of the chain; declined steps are skipped"""
    from fpy2 import strategies as st
    from fpy2.strategies import TransformDeclined, TransformError
    out = []
    refused = 0
    for name in CHAIN:
        try:
            if len(st.sites(getattr(st, name), q)) > 0:
                out.append((name, getattr(st, name)(q)))
            else:
                refused += len(st.refusals(getattr(st, name), q))
        except (TransformDeclined, TransformError):
            refused += 1
    # the early-check form of the overflow rewrite (a test on the operand ahead of the rounding), alone and followed by the rest of the chain
    try:
        if len(st.sites(st.unfold_overflow, q)) > 0:
            he = st.unfold_overflow(q, early_check=True)
            out.append(('unfold_overflow(early_check)', he))
            h3 = he
            for name in CHAIN[2:]:
                try:
                    if len(st.sites(getattr(st, name), h3)) > 0:
                        h3 = getattr(st, name)(h3)
                except (TransformDeclined, TransformError):
                    pass
            if h3 is not he:
                out.append(('unfold_overflow(early_check)>rest', h3))
    except (TransformDeclined, TransformError):
        refused += 1
    h = q
    applied = []
    for name in CHAIN:
        try:
            if len(st.sites(getattr(st, name), h)) == 0:
                continue
            h2 = getattr(st, name)(h)
        except (TransformDeclined, TransformError):
            refused += 1
            continue
        h = h2
        applied.append(name)
        if len(applied) > 1:
            out.append(('+'.join(applied), h))
    return out, refused


def run_task(task):
    import z3
    from pysym.core import explore, SymInt, bv
    from pysym import shims
    from pysym.values import denote_mag
    import spec.dsl as dsl
    import fpy2 as fp
    from fpy2 import Float, RealFloat
    from fpy2.interpret import byte, interpreter as interp_mod
    import fpy2.number.number.reals as reals
    import fpy2.number.number.floats as floats
    import fpy2.number.context.context as cctx
    import fpy2.number.engine.real as ereal
    import fpy2.ops as opsmod
    from fractions import Fraction
    from . import progs
    tier = task.get('tier', 'quick'); t = TIER[tier]
    CW, E, W = t['CW'], t['E'], t['W']
    dsl.WO = t['WO']; WO = dsl.WO
    kind = task['kind']
    samples = []

    if kind in ('lower', 'lower_special'):
        desc = task['desc']
        g = progs.load(_src() + '# ' + G.name_of(desc), {'CTX': G.build(desc)})
        q = g['q']
        lows, refused = lowerings(q)
    else:
        g = progs.load(_src(2, task['body']) + '# %s %s' % (G.name_of(task['c1']), G.name_of(task['c2'])), {'CTX1': G.build(task['c1']), 'CTX2': G.build(task['c2'])})
        q = g['q']
        from fpy2 import strategies as st
        from fpy2.strategies import TransformDeclined, TransformError
        lows = []; refused = 0
        crashed = 0
        try:
            h = st.elim_round(q)
            lows.append(('elim_round', h))
        except (TransformDeclined, TransformError):
            refused += 1
        except Exception:  # noqa - an internal error of the analysis produces no program: nothing to compare (recorded)
            crashed = 1
    base_w = {}
    if refused:
        base_w['refused'] = 1
    texts = {lab: h.format() for lab, h in lows}
    if any(tx != q.format() for tx in texts.values()):
        base_w['lowered-differs-textually'] = 1
    if kind == 'elim':
        base_w['elim-applied' if any(tx != q.format() for tx in texts.values()) else 'elim-unchanged'] = 1
    if any(lab.count('+') >= 3 for lab in texts):
        base_w['chain-full'] = 1
    if any('MPBFixedContext((' in tx or 'MPFixedContext((' in tx for tx in texts.values()):
        base_w['fixed-context-computed'] = 1
    if not lows:
        return dict(paths=0, requires=0, cex=[], samples=[{'task': task['name'], 'note': 'no rewrite has a site / all declined'}], witness=base_w, extra={'programs_without_rewrite': 1, 'transform_internal_errors': [task['name']] if (kind == 'elim' and crashed) else []})

    def classify(r):
        if isinstance(r, Fraction):
            r = Float.from_rational(r)
        if isinstance(r, (int,)) and not isinstance(r, bool):
            r = Float.from_int(r)
        if r.isnan:
            return ('nan', None, None)
        if r.isinf:
            return ('inf', bool(r.s), None)
        return ('fin', bool(r.s), r)

    if kind == 'lower_special':
        # NaN, infinities and zeros: no symbolic content
        rt = byte.BytecodeInterpreter()
        n = 0; cex = []
        for lab, h in lows:
            for x in (Float(isnan=True), Float(isinf=True), Float(isinf=True, s=True), Float(False, 0, 0), Float(True, 0, 0)):
                n += 1
                def ev(f):
                    try:
                        r = f(x)
                        c = classify(r)
                        return (c[0], c[1], c[2].as_rational() if c[2] is not None else None)
                    except Exception as ex:  # noqa
                        return ('raise', type(ex).__name__, None)
                a, b = ev(q), ev(h)
                if a[0] == 'raise':
                    continue        # the original does not return: nothing to preserve
                if a != b:
                    cex.append({'case': {'task': {k: v for k, v in task.items() if k not in ('name', 'cost')}, 'inputs': {'special': repr(x)[:60], 'rewrite': lab, 'orig': str(a), 'lowered': str(b)}}})
        return dict(paths=0, requires=0, cex=cex, samples=[{'task': task['name'], 'special_operand_rows': n}], witness=base_w, extra={'concrete_special_cases': n, 'programs': len(lows)})

    shims.install_int_pass(reals, floats, cctx)
    shims.install_frac_pass(reals, floats)
    shims.install_concretizing_int_methods()
    shims.stub_formatting()
    if kind == 'elim':
        from . import glue
        cur = {'calls': []}
        glue.install_exact_ops(cur)
    rt = byte.BytecodeInterpreter()
    shims.patch(interp_mod, '_default_interpreter', rt)
    s = bool(task['s'])
    K = 2 * E + CW + 4

    def D(r):
        d = denote_mag(r.c, r.exp, K, W=WO)
        return d if isinstance(d, z3.ExprRef) else z3.BitVecVal(d, WO)

    two = kind == 'elim' and task['body'].endswith('2')

    def setup(e):
        if two:
            return e.fresh('c', 0, (1 << CW) - 1), e.fresh('exp', -E, E), e.fresh('cy', 0, 3), e.fresh('sy', 0, 1)
        return e.fresh('c', 1, (1 << CW) - 1), e.fresh('exp', -E, E)

    wit = dict(base_w)

    def run(e, c, x, cy=None, sy=None):
        xo = Float(s, x, c)
        argv = (xo,) if not two else (xo, Float(bool(sy == 1), 0, cy))
        try:
            r0 = rt.eval(q, argv, None, convert=False)
            c0 = classify(r0)
        except Exception as ex:  # noqa
            return          # the original does not return on this path: nothing to preserve
        for lab, h in lows:
            try:
                r1 = rt.eval(h, argv if not two else (Float(s, x, c), Float(bool(sy == 1), 0, cy)), None, convert=False)
                c1 = classify(r1)
            except Exception as ex:  # noqa
                e.require(False, info={'rewrite': lab, 'lowered raised': repr(ex)[:150], 'original': c0[0]}, tag=lab)
                continue
            if c0[0] != c1[0] or (c0[0] == 'inf' and c0[1] != c1[1]):
                e.require(False, info={'rewrite': lab, 'original': c0[:2], 'lowered': c1[:2]}, tag=lab)
                continue
            if c0[0] == 'fin':
                D0, D1 = D(c0[2]), D(c1[2])
                post = z3.And(D0 == D1, z3.BoolVal(c0[1] == c1[1]))
                ok = e.require(post, info={'rewrite': lab}, tag=lab)
            if 'float_to_fixed' in lab:
                e.cover('subnormal-branch', True)
            if c0[0] == 'inf' or (c0[0] == 'fin' and False):
                e.cover('overflow-branch', True)
        if len(samples) < 2:
            samples.append({'task': task['name'], 'rewrites': [lab for lab, _ in lows], 'example_operand': e.model_inputs(), 'original_result_class': c0[0]})

    eng = explore(run, setup, W=W, bl_max=W - 6)
    for k_, v_ in base_w.items():
        eng.witness[k_] = eng.witness.get(k_, 0) + v_
    cexs = []
    for cx in eng.cex:
        if cx.get('unknown') or cx.get('inputs') is None:
            cexs.append({'case': None})
        else:
            tt = {k: v for k, v in task.items() if k not in ('name', 'cost')}
            cexs.append({'case': {'task': tt, 'inputs': cx['inputs'], 'rewrite': cx.get('tag'), 'info': str(cx.get('info'))}, 'failed_obligations': cx.get('failed_obligations')})
    return dict(paths=eng.paths, decisions=eng.decisions, queries=eng.checks, unsat=eng.unsat, sat=eng.sat, unknown=eng.unknown,
                solve_s=eng.solve_s, requires=eng.requires, aborted=eng.aborted, witness=eng.witness, notes=eng.notes, cex=cexs, samples=samples,
                extra={'programs': len(lows), 'rewrites_checked': [lab for lab, _ in lows]})
