"""C14 part 2 (whole-program format inference vs traced symbolic executions). Filled in with the tracing compiler."""


def tasks(tier, seed):
    return []


def run_task(task):
    raise NotImplementedError
