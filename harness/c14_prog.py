"""
C14 part 2 — whole-program format inference against traced symbolic executions.

`FormatInfer.analyze(func, fn_fmt=FunctionFormat(caller context, argument formats))` runs concretely with the argument
formats pinned to the exact domain of the symbolic arguments; the program is compiled by the tracing compiler
(harness/tracer.py) and run by the real interpreter code on those arguments.  For every traced expression with an inferred
bound, on every feasible path, the solver is asked for an argument vector *inside the analysed formats* whose value at that
expression lies OUTSIDE the inferred format (membership by the set definition, computed from the abstract view
prec / exp / bounds / special flags of the inferred format; value sets by equality with one of their members).
"""
from . import tv, corpus

WITNESSES = ['prog-format-fact', 'prog-set-fact', 'prog-narrow-float-format']


def _programs(tier):
    return [p for p in corpus.P if 'no_analysis' not in p['tags'] and 'no_format' not in p['tags'] and ('analysis' in p['tags'] or 'semantics' in p['tags'] or 'context' in p['tags'] or 'simplify' in p['tags'])]


def tasks(tier, seed):
    ts = []
    for p in _programs(tier):
        for shape in tv.arg_shapes(p, tier):
            if tier == 'quick' and sum(c[1] for c in shape if c[0] == 'list') > 2:
                continue
            ts.append(dict(kind='prog', name='prog/%s/%s' % (p['name'], '-'.join(str(c[-1]) if len(c) > 1 else 'r' for c in shape)), prog=p['name'], shape=[list(c) for c in shape],
                           cost=sum(c[1] if c[0] == 'list' else 1 for c in shape)))
    return ts


def arg_formats(shape, CW):
    """the exact domain of the symbolic arguments as formats: multiples of 2^-1 with |c| < 2^CW, both zeros"""
    from fpy2 import RealFloat
    from fpy2.analysis.format_infer.format import AbstractFormat
    from fpy2.analysis.format_infer.analysis import ListFormat, SetFormat
    from fractions import Fraction
    real = AbstractFormat(CW, tv.EXP0, RealFloat(False, tv.EXP0, (1 << CW) - 1), has_neg_zero=True).format()
    out = []
    for c in shape:
        if c[0] == 'real':
            out.append(real)
        elif c[0] == 'list':
            out.append(ListFormat(real))
        else:
            out.append(AbstractFormat(float('inf'), 0, RealFloat.from_int(abs(c[1])) if c[1] else RealFloat.from_int(0)).format() if False else _int_format(c[1]))
    return tuple(out)


def _int_format(n):
    from fpy2 import RealFloat
    from fpy2.analysis.format_infer.format import AbstractFormat
    b = RealFloat.from_int(max(abs(n), 1))
    return AbstractFormat(float('inf'), 0, b).format()


def analyse(f, shape, CW, C):
    from fpy2.analysis import FormatInfer
    from fpy2.analysis.format_infer.analysis import FunctionFormat
    return FormatInfer.analyze(f.ast, fn_fmt=FunctionFormat(C, arg_formats(shape, CW), None))


def abstract_view(fmt):
    """(prec, exp, pos_bound Fraction|None, neg_bound Fraction|None (magnitude), has_nan, has_pinf, has_ninf, has_negzero) or None for the top / unabstractable"""
    from fpy2.analysis.format_infer.format import AbstractFormat
    from fpy2.analysis.format_infer.analysis import REAL_FORMAT
    if fmt is REAL_FORMAT or fmt == REAL_FORMAT:
        return None
    try:
        A = AbstractFormat.from_format(fmt)
    except Exception:  # noqa
        return None
    def b(x):
        return None if isinstance(x, float) else abs(x.as_rational())
    return (None if isinstance(A.prec, float) else int(A.prec), None if isinstance(A.exp, float) else int(A.exp), b(A.pos_bound), b(A.neg_bound), A.has_nan, A.has_pos_inf, A.has_neg_inf, A.has_neg_zero)


def member_term(v, view, engineW):
    """z3 Bool / python bool: is the run-time number v (Float possibly with symbolic significand/sign, Fraction, int) in the format?"""
    import z3
    from fractions import Fraction
    from fpy2 import Float
    from pysym import summaries
    from pysym.core import SymInt
    from spec.rounding import is_member
    import spec.dsl as dsl
    prec, exp, pb, nb, hnan, hpinf, hninf, hnz = view
    if isinstance(v, (int, Fraction)):
        v = Float.from_rational(Fraction(v))
    if v.isnan:
        return bool(hnan)
    if v.isinf:
        return bool(hninf if v.s else hpinf)
    v = summaries._as_float(v)
    if type(v.exp) is SymInt:
        raise NotImplementedError('symbolic exponent')
    # scale: every quantity an integer multiple of 2^-K
    K = max(0, -v.exp, -(exp if exp is not None else 0)) + 1
    for q in (pb, nb):
        if q is not None:
            d = q.denominator
            K = max(K, d.bit_length())
    W = dsl.WO
    c = v._real._c
    ct = c.t if type(c) is SymInt else z3.BitVecVal(int(c), engineW)
    mag = z3.ZeroExt(W - engineW, ct) << (v.exp + K) if W > engineW else ct << (v.exp + K)
    neg = summaries._sbool(v)
    n = None if exp is None else exp - 1
    digits = z3.BoolVal(True) if (prec is None and n is None) else is_member(mag, prec, n, K)
    inb = z3.BoolVal(True)
    def sc(q):
        return z3.BitVecVal(int(q * (1 << K)), W)
    if pb is not None:
        inb = z3.And(inb, z3.Or(neg, z3.ULE(mag, sc(pb))))
    if nb is not None:
        inb = z3.And(inb, z3.Or(z3.Not(neg), z3.ULE(mag, sc(nb))))
    zero_ok = z3.Or(z3.Not(neg), z3.BoolVal(bool(hnz)))
    return z3.simplify(z3.If(mag == 0, zero_ok, z3.And(digits, inb)))


def _set_value(k):
    """a SetValue as a number the comparison understands: Fraction(0) is +0, NEG_ZERO is -0, Special is an infinity / NaN"""
    from fractions import Fraction
    from fpy2 import Float
    import fpy2.analysis.format_infer.analysis as FA
    if isinstance(k, Fraction):
        return k
    if isinstance(k, FA.Special):
        return {FA.Special.POS_INF: Float(isinf=True), FA.Special.NEG_INF: Float(isinf=True, s=True), FA.Special.NAN: Float(isnan=True)}[k]
    if k is FA.NEG_ZERO or type(k).__name__ == 'NegZero':
        return Float(s=True, exp=0, c=0)
    return k


class FormatChecker:
    def __init__(self, info, report, cover, engineW, symbolic=True):
        self.info = info; self.report = report; self.cover = cover; self.W = engineW; self.symbolic = symbolic

    def check(self, bound, v, where):
        from fpy2.analysis.format_infer.analysis import ListFormat, TupleFormat, SetFormat
        from fractions import Fraction
        from fpy2 import Float
        if bound is None:
            return
        if isinstance(bound, ListFormat):
            if isinstance(v, list):
                for x in v:
                    self.check(bound.elt, x, where + '[*]')
            return
        if isinstance(bound, TupleFormat):
            if isinstance(v, tuple) and len(v) == len(bound.elts):
                for b, x in zip(bound.elts, v):
                    self.check(b, x, where + '.*')
            return
        if isinstance(v, bool) or not isinstance(v, (Float, Fraction, int)):
            return
        if isinstance(bound, SetFormat):
            self.cover('prog-set-fact')
            ok = False
            import z3
            terms = []
            for k in bound.values:
                k = _set_value(k)
                try:
                    t = tv.eqv(k, v) if self.symbolic else tv.conc_eq(k, v)
                except Exception:  # noqa
                    return
                if t is True:
                    ok = True; break
                if t is not False:
                    terms.append(t)
            if ok is not True:
                ok = z3.Or(*terms) if terms else False
            self.report('set', ok, {'expr': where, 'inferred value set': [str(k) for k in list(bound.values)[:6]]})
            return
        view = abstract_view(bound)
        if view is None:
            return
        self.cover('prog-format-fact')
        if view[0] is not None:
            self.cover('prog-narrow-float-format')
        try:
            ok = member_term(v, view, self.W)
        except NotImplementedError:
            return
        import z3
        if isinstance(ok, z3.ExprRef):
            ok = True if z3.is_true(ok) else (False if z3.is_false(ok) else ok)
        self.report('format', ok, {'expr': where, 'inferred format': str(bound)[:140]})

    def __call__(self, e, v):
        b = self.info.by_expr.get(e)
        if b is not None:
            self.check(b, v, e.format()[:60])
        return v


def run_task(task):
    from pysym.core import explore
    from . import tracer
    import spec.dsl as dsl
    tier = task.get('tier', 'quick'); t = tv.TIER[tier]
    dsl.WO = 64
    p = next(q for q in corpus.P if q['name'] == task['prog'])
    f, _ = tv.load_program(p)
    shape = [tuple(c) for c in task['shape']]
    C = tv.caller_ctx()
    notes = []
    try:
        info = analyse(f, shape, t['CW'], C)
    except Exception as ex:  # noqa  the analysis does not accept the program / signature: it reports nothing
        return dict(paths=0, requires=0, cex=[], samples=[], witness={}, notes=['format inference rejected the program: %r' % ex][:1], extra={'programs_rejected_by_format_infer': 1})
    rt = tv.install_runtime()
    samples = []

    def setup(e):
        return (tv.SymArgs(e, shape, t['CW'], C),)

    def run(e, sa):
        pending = []
        ck = FormatChecker(info, lambda kind, ok, inf: pending.append((kind, ok, inf)), lambda w: e.cover(w, True), e.W)
        try:
            tracer.run_traced(rt, f, sa.build(), C, ck)
        except Exception:  # noqa  the analysis describes executions in which every operation has a result
            return
        for kind, ok, inf in pending:
            if ok is True:
                continue
            e.require(ok if ok is not False else False, info=dict(inf, fact=kind), tag=kind)
        if len(samples) < 2:
            samples.append({'task': task['name'], 'facts_decided_on_this_path': len(pending), 'example_arguments': e.model_inputs()})
    eng = explore(run, setup, W=t['W'], bl_max=t['W'] - 6, max_paths=3000)
    cexs = []
    for cx in eng.cex:
        if cx.get('unknown') or cx.get('inputs') is None:
            cexs.append({'case': None})
        else:
            tt = {k: v for k, v in task.items() if k not in ('name', 'cost')}
            cexs.append({'case': {'task': tt, 'inputs': cx['inputs'], 'fact': cx.get('tag'), 'info': str(cx.get('info'))[:300]}, 'failed_obligations': cx.get('failed_obligations')})
    return dict(paths=eng.paths, decisions=eng.decisions, queries=eng.checks, unsat=eng.unsat, sat=eng.sat, unknown=eng.unknown, solve_s=eng.solve_s, requires=eng.requires,
                aborted=eng.aborted, witness=eng.witness, notes=eng.notes + notes, cex=cexs, samples=samples, extra={'programs_traced': 1})


def concrete_violations(task, inputs):
    """replay: traced run with the real operations on concrete arguments"""
    from fpy2.interpret import byte
    from . import tracer
    import spec.dsl as dsl
    import z3
    dsl.WO = 64
    tier = task.get('tier', 'quick'); t = tv.TIER[tier]
    p = next(q for q in corpus.P if q['name'] == task['prog'])
    f, _ = tv.load_program(p)
    shape = [tuple(c) for c in task['shape']]
    C = tv.caller_ctx()
    info = analyse(f, shape, t['CW'], C)
    bad = []

    def report(kind, ok, inf):
        if isinstance(ok, z3.ExprRef):
            ok = z3.is_true(z3.simplify(ok))
        if ok is not True:
            bad.append((kind, inf))
    ck = FormatChecker(info, report, lambda w: None, 64, symbolic=False)
    args = tv.concrete_args(shape, inputs)
    try:
        tracer.run_traced(byte.BytecodeInterpreter(), f, args, C, ck)
    except Exception:  # noqa
        return [], args
    return bad, args
