"""Concrete judge for C19: the splice model on explicit lists."""


def _splice_image(L, edits, i):
    """apply the edits to the list [0..L) of old identities (new statements are ('new', k, j)); returns (new list, position info)"""
    old = list(range(L))
    out = []
    pos = 0
    es = sorted(range(len(edits)), key=lambda k: (edits[k][0], edits[k][1] != 0))
    # build by walking old indices; pure insertions at index x go before old[x]
    j = 0
    while j <= L:
        for k in es:
            ie, re_, ne_ = edits[k]
            if ie == j and re_ == 0:
                out += [('new', k, t) for t in range(ne_)]
        if j == L:
            break
        hit = [k for k in es if edits[k][1] > 0 and edits[k][0] == j]
        if hit:
            k = hit[0]
            out += [('new', k, t) for t in range(edits[k][2])]
            j += edits[k][1]
            continue
        out.append(j)
        j += 1
    return out


def replay(case):
    from fpy2.transform import cursor as C
    from fpy2.transform.path import FuncBody, SubBlock, StmtPath
    from fpy2.transform.error import TransformReferenceError
    t = case['task']; inp = case['inputs']; kind = t['kind']
    problems = []
    if kind == 'prog':
        from . import c19_prog
        return c19_prog.replay(case)
    try:
        if kind in ('flat', 'order'):
            ne = t['ne']; L = inp['len']
            evs = [(inp['i%d' % k], inp['r%d' % k], inp['n%d' % k]) for k in range(ne)]
            edits = tuple(C.Edit(FuncBody(), *ev) for ev in evs)
            for a in range(ne):
                if evs[a][0] + evs[a][1] > L:
                    return {'violates': False, 'observed': 'precondition', 'key': 'pre'}
                for b in range(a):
                    if C._overlaps(edits[a], edits[b]) or C._overlaps(edits[b], edits[a]):
                        return {'violates': False, 'observed': 'precondition (overlap)', 'key': 'pre'}
            new = _splice_image(L, evs, None)
            for cur in ([inp['c']] if kind == 'flat' else [inp['c'], inp['d']]):
                if cur >= L:
                    return {'violates': False, 'observed': 'precondition', 'key': 'pre'}
                p = StmtPath(FuncBody(), cur)
                block, idx, edit = C._forward_stmt(p, edits, p)
                if edit is None:
                    if cur not in new or new.index(cur) != idx:
                        problems.append(('survivor %d forwarded to %d, splice model %s' % (cur, idx, new),))
                else:
                    k = edits.index(edit)
                    if not (evs[k][0] <= cur < evs[k][0] + evs[k][1]):
                        problems.append(('statement %d reported as consumed by an edit that does not cover it' % cur,))
                    elif evs[k][2] > 0 and (idx >= len(new) or new[idx] != ('new', k, 0)):
                        problems.append(('replaced statement %d forwarded to %d, splice model %s' % (cur, idx, new),))
            key = kind
        elif kind == 'nested':
            shape = t['shape']
            ea = (inp['ia'], inp['ra'], inp['na']); eb = (inp['ib'], inp['rb'], inp['nb']); es = (inp['is'], inp['rs'], inp['ns'])
            p, q, c = inp['p'], inp['q'], inp['c']
            sb = {'same-sub': SubBlock(StmtPath(FuncBody(), p), 'body'), 'other-parent': SubBlock(StmtPath(FuncBody(), q), 'body'),
                  'other-field': SubBlock(StmtPath(FuncBody(), p), 'iff'), 'parent-consumed': SubBlock(StmtPath(FuncBody(), p), 'body')}[shape]
            edits = (C.Edit(FuncBody(), *ea), C.Edit(FuncBody(), *eb), C.Edit(sb, *es))
            if C._overlaps(edits[0], edits[1]) or C._overlaps(edits[1], edits[0]) or (shape == 'other-parent' and q == p):
                return {'violates': False, 'observed': 'precondition', 'key': 'pre'}
            cons = any(e[0] <= p < e[0] + e[1] for e in (ea, eb))
            if (shape == 'parent-consumed') != cons:
                return {'violates': False, 'observed': 'precondition', 'key': 'pre'}
            path = StmtPath(SubBlock(StmtPath(FuncBody(), p), 'body'), c)
            try:
                block, idx, edit = C._forward_stmt(path, edits, path)
                raised = False
            except TransformReferenceError:
                raised = True
            if cons != raised:
                problems.append(('parent consumed=%s but raised=%s' % (cons, raised),))
            elif not raised:
                newp = p + sum(e[2] - e[1] for e in (ea, eb) if e[0] + e[1] <= p)
                own = [es] if shape == 'same-sub' else []
                inside = any(e[0] <= c < e[0] + e[1] for e in own)
                exp_idx = es[0] if inside else c + sum(e[2] - e[1] for e in own if e[0] + e[1] <= c)
                if block.parent.index != newp or idx != exp_idx or (edit is not None) != inside:
                    problems.append(('nested forward gave parent %s index %s, expected parent %s index %s' % (block.parent.index, idx, newp, exp_idx),))
            key = 'nested:' + shape
        elif kind == 'overlaps':
            ea = (inp['ia'], inp['ra'], inp['na']); eb = (inp['ib'], inp['rb'], inp['nb'])
            got = C._overlaps(C.Edit(FuncBody(), *ea), C.Edit(FuncBody(), *eb))
            exp = (ea[0] <= eb[0] < ea[0] + ea[1]) or (eb[0] <= ea[0] < eb[0] + eb[1])
            if bool(got) != exp:
                problems.append(('_overlaps = %s, expected %s' % (got, exp),))
            key = 'overlaps'
        else:
            ea = (inp['ia'], inp['ra'], inp['na']); eb = (inp['ib'], inp['rb'], inp['nb']); p = inp['p']
            a = C.Edit(FuncBody(), *ea); b = C.Edit(SubBlock(StmtPath(FuncBody(), p), 'body'), *eb)
            if bool(C._overlaps(a, b)) != (ea[0] <= p < ea[0] + ea[1]) or C._overlaps(b, a):
                problems.append(('nested _overlaps wrong',))
            key = 'overlaps-nested'
    except Exception as ex:  # noqa
        problems.append(('raised', repr(ex)[:200])); key = kind + ':raised'
    return {'violates': bool(problems), 'observed': {'problems': [list(map(str, q)) for q in problems[:3]]}, 'key': key}
