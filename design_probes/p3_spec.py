import z3
from fpy2.number.round import RoundingMode as RM
W = 64
def bitlen(a):
    r = z3.BitVecVal(0, W)
    for i in range(W - 1):
        r = z3.If(z3.Extract(i, i, a) == 1, z3.BitVecVal(i + 1, W), r)
    return r
def spec_round(X, neg, p, n, rm, K):
    one = z3.BitVecVal(1, W)
    eX = bitlen(X) - 1
    if p is None: q = z3.BitVecVal(n + 1 + K, W)
    elif n is None: q = eX - p + 1
    else: q = z3.If(eX - p + 1 > n + 1 + K, eX - p + 1, z3.BitVecVal(n + 1 + K, W))
    q = z3.If(q < 0, z3.BitVecVal(0, W), q)
    mask = (one << q) - 1
    lo = X & ~mask; rem = X & mask; hi = lo + (one << q); half = one << (q - 1)
    exact = rem == 0
    lo_even = ((lo >> q) & 1) == 0
    near_up = z3.If(q == 0, z3.BoolVal(False), z3.UGT(rem, half)); tie = z3.If(q == 0, z3.BoolVal(False), rem == half)
    up = {RM.RNE: z3.Or(near_up, z3.And(tie, z3.Not(lo_even))), RM.RNA: z3.Or(near_up, tie), RM.RTP: z3.BoolVal(not neg), RM.RTN: z3.BoolVal(neg),
          RM.RTZ: z3.BoolVal(False), RM.RAZ: z3.BoolVal(True), RM.RTO: lo_even, RM.RTE: z3.Not(lo_even)}[rm]
    return z3.If(exact, X, z3.If(up, hi, lo)), z3.Not(exact)
