"""C16 probe: EFloatFormat decode/encode round trip on a symbolic bit pattern, every small format."""
import sys, time, z3, warnings, itertools
warnings.simplefilter('ignore')
sys.path.insert(0, '/tmp/probe')
import symex0 as S0, symex1 as S
from symex0 import SymInt, _bv
W = S0.W
import fpy2 as fp
from fpy2.number.context.efloat import EFloatFormat, EFloatNanKind as NK
NB = int(sys.argv[1])
t0 = time.time(); nf = 0; paths = 0; viol = []
for nbits in range(1, NB + 1):
  for es in range(0, nbits):
    for inf in (False, True):
      for nk in NK:
        for eoff in (-1, 0, 2):
            try: fmt = EFloatFormat(es, nbits, inf, nk, eoff)
            except ValueError: continue
            nf += 1
            def setup(eng):
                b = z3.BitVec('b', W); eng.solver.add(b >= 0, b < (1 << nbits)); return (SymInt(b),)
            def run(eng, b):
                x = fmt.decode(b)
                if not fmt.representable_in(x):
                    if eng.check() == z3.sat: viol.append((fmt, 'decoded value not representable', eng.solver.model()))
                    return
                b2 = fmt.encode(x)
                if x.isnan: return   # NaN payloads may differ
                eng.solver.push(); eng.solver.add(_bv(b2) != b.t)
                if eng.check() == z3.sat: viol.append((fmt, 'encode(decode(b)) != b', eng.solver.model()))
                eng.solver.pop()
            p, a, e = S.explore(run, setup); paths += p
print('formats', nf, 'paths', paths, 'viol', len(viol), 'time', round(time.time() - t0, 1))
for v in viol[:5]: print(v)
