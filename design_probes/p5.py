"""Run the REAL bytecode interpreter on library functions with symbolic Floats; ops summarised by the rounding spec."""
import sys, time, z3
sys.path.insert(0, '/tmp/probe')
import symex0 as S
from symex0 import SymInt
S.W = W = 32
import fpy2 as fp
from fpy2 import Float
from fpy2.number import RealFloat
from fpy2.interpret import byte
from fpy2.ast.fpyast import Add, Sub, Mul
from fpy2.libraries import eft

P = int(sys.argv[1]); NB = int(sys.argv[2])
def bitlen(a):
    r = z3.BitVecVal(0, W)
    for i in range(W - 1):
        r = z3.If(z3.Extract(i, i, a) == 1, z3.BitVecVal(i + 1, W), r)
    return r
def rnd(m):
    neg = m < 0
    X = z3.If(neg, -m, m)
    e = bitlen(X) - 1
    q = z3.If(e - P + 1 > 0, e - P + 1, z3.BitVecVal(0, W))
    one = z3.BitVecVal(1, W)
    mask = (one << q) - 1
    lo = X & ~mask; rem = X & mask; half = one << (q - 1)
    lo_even = ((lo >> q) & 1) == 0
    up = z3.And(q != 0, z3.Or(z3.UGT(rem, half), z3.And(rem == half, z3.Not(lo_even))))
    R = z3.If(up, lo + (one << q), lo)
    return z3.If(neg, -R, R)
def member(m):
    X = z3.If(m < 0, -m, m)
    e = bitlen(X) - 1
    q = z3.If(e - P + 1 > 0, e - P + 1, z3.BitVecVal(0, W))
    return z3.And((X & ((z3.BitVecVal(1, W) << q) - 1)) == 0, z3.ULT(X, z3.BitVecVal(1 << (P + NB), W)))

class SFloat(Float):
    """Float whose value is a symbolic signed integer m in units of 2^expmin (sign of zero ignored in this probe)."""
    __slots__ = ('m_',)
def mk(m):
    x = object.__new__(SFloat); x.m_ = m
    x._isinf = False; x._isnan = False; x._ctx = None
    x._real = RealFloat(False, 0, 0)
    return x
def s_add(a, b, ctx=None): return mk(rnd(a.m_ + b.m_))
def s_sub(a, b, ctx=None): return mk(rnd(a.m_ - b.m_))
def s_mul(a, b, ctx=None): return mk(rnd(a.m_ * b.m_))
byte._BINARY_TABLE[Add] = s_add; byte._BINARY_TABLE[Sub] = s_sub

ctx = fp.MPSFloatContext(P, 0)   # placeholder context object (ops are summarised)
rt = byte.BytecodeInterpreter()
a = z3.BitVec('a', W); b = z3.BitVec('b', W)
t0 = time.time()
s, t = rt.eval(eft.classic_2sum, (mk(a), mk(b)), ctx, convert=False)
print('interpreter ran symbolically:', type(s).__name__, 'term size', len(str(t.m_)) )
sol = z3.Solver(); sol.add(member(a), member(b)); sol.add(a + b != s.m_ + t.m_)
r = sol.check(); print('classic_2sum exact?', 'unsat=holds' if r == z3.unsat else r, round(time.time() - t0, 2), 's')
if r == z3.sat:
    m = sol.model(); av = m[a].as_signed_long(); bv = m[b].as_signed_long()
    print('model a,b (units of 2^expmin):', av, bv)
    # replay on the REAL code with real ops
    import importlib
    from fractions import Fraction
    byte._BINARY_TABLE[Add] = fp.ops.add; byte._BINARY_TABLE[Sub] = fp.ops.sub
    rt2 = byte.BytecodeInterpreter()
    ctxr = fp.MPSFloatContext(P, P - 1)   # emin s.t. expmin = 0
    fa = Float.from_int(av); fb = Float.from_int(bv)
    s2, t2 = eft.classic_2sum(fa, fb, ctx=ctxr)
    print('real: s=', s2.as_rational(), 't=', t2.as_rational(), 'a+b=', av + bv, 's+t=', s2.as_rational() + t2.as_rational())
