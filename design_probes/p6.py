"""C10 probe: original `with C: y = round(x)` vs lowered chain, both through the REAL interpreter, symbolic x, no summaries."""
import sys, time, z3, warnings
warnings.simplefilter('ignore')
sys.path.insert(0, '/tmp/probe')
import symex0 as S0
import symex1 as S
S._bv = S0._bv
from symex0 import SymInt
W = S.W
import fpy2 as fp
from fpy2 import Float, RealFloat, strategies as st
from fpy2.number.engine import ENGINES, RealEngine, MPFREngine
from fpy2.interpret import byte

# exact engine first
ENGINES._items = [(2, RealEngine.instance()), (1, MPFREngine.instance())]
ENGINES._cached_engines = [e for _, e in ENGINES._items]

# enumerate-and-fork concretisation for int()
def concretize(v, cap=64):
    if not isinstance(v, SymInt):
        return v
    return S0.ENG.choose(v.t)
_ri = RealFloat.__int__
def rf_int(self): return concretize(_ri(self))
RealFloat.__int__ = rf_int

from fractions import Fraction as _Fr
from fpy2.utils import is_dyadic
_rc = RealFloat.compare
def rf_compare(self, other):
    if isinstance(other, _Fr) and is_dyadic(other):
        other = RealFloat.from_rational(other)
    return _rc(self, other)
RealFloat.compare = rf_compare
_fc = Float.compare
def f_compare(self, other):
    if isinstance(other, _Fr) and is_dyadic(other):
        other = RealFloat.from_rational(other)
    return _fc(self, other)
Float.compare = f_compare
CW, E = 6, 6
@fp.fpy
def q(x: fp.Real) -> fp.Real:
    with fp.IEEEContext(3, 6):
        y = fp.round(x)
    return y
g = st.unfold_special(q); g = st.unfold_overflow(g); g = st.unfold_neg_zero(g); g = st.float_to_fixed(g)
which = sys.argv[1] if len(sys.argv) > 1 else 'chain'
if which == 'rescale': g = st.rescale_fixed(g)
rt = byte.BytecodeInterpreter()
K = E + CW + 2
viol = []; stats = {'paths': 0}
def setup(eng):
    c = z3.BitVec('c', W); e = z3.BitVec('exp', W)
    eng.solver.add(c >= 1, c < (1 << CW), e >= -E, e <= E)
    return SymInt(c), SymInt(e)
def run_factory(s):
    def run(eng, c, e):
        x = Float(s, e, c)
        r1 = rt.eval(q, (x,), None, convert=False)
        r2 = rt.eval(g, (x,), None, convert=False)
        def den(r):
            from fractions import Fraction
            if isinstance(r, Fraction):
                r = Float.from_rational(r)
            if r.isnan: return ('nan',)
            if r.isinf: return ('inf', r.s)
            return ('fin', bool(r.s), S._bv(r.c) << (S._bv(r.exp) + K))
        d1, d2 = den(r1), den(r2)
        stats['paths'] += 1
        if d1[:2] != d2[:2] if d1[0] != 'fin' or d2[0] != 'fin' else d1[1] != d2[1]:
            # class or sign mismatch on a feasible path
            m = eng.solver.model() if eng.check() == z3.sat else None
            viol.append(('class', d1[:2], d2[:2], m)); return
        if d1[0] == 'fin':
            eng.solver.push(); eng.solver.add(d1[2] != d2[2])
            if eng.check() == z3.sat: viol.append(('value', eng.solver.model()))
            eng.solver.pop()
    return run
t0 = time.time()
for s in (False, True):
    paths, ab, eng = S.explore(run_factory(s), setup)
    print('sign', s, 'paths', paths, 'aborted', ab, 'checks', eng.checks, 'solve_s', round(eng.solve_s, 1), 't', round(time.time() - t0, 1), flush=True)
print('viol', len(viol), viol[:2])
