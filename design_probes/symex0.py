"""Prototype: eager-forking symbolic execution of unmodified Python integer code over z3 bit-vectors."""
import z3, time, sys

W = 64

class Abort(BaseException):
    pass

class Engine:
    def __init__(self):
        self.solver = z3.Solver()
        self.decisions = []     # list of [cond_expr, taken(bool), flipped(bool)]
        self.pos = 0
        self.checks = 0
        self.solve_s = 0.0
        self.oblig = []         # overflow side conditions for this path

    def check(self, *assumps):
        t = time.time()
        r = self.solver.check(*assumps)
        self.solve_s += time.time() - t
        self.checks += 1
        return r

    def branch(self, cond):
        cond = z3.simplify(cond)
        if z3.is_true(cond):
            return True
        if z3.is_false(cond):
            return False
        if self.pos < len(self.decisions):
            d = self.decisions[self.pos]
            self.pos += 1
            taken = d[0]
            self.solver.add(cond if taken else z3.Not(cond))
            if self.pos == len(self.decisions) and d[1] and not d[2]:
                d[2] = True  # feasibility of flipped branch checked once
                if self.check() != z3.sat:
                    raise Abort()
            return taken
        self.solver.push()
        self.solver.add(cond)
        r = self.check()
        self.solver.pop()
        if r == z3.sat:
            self.decisions.append([True, False, False])
            self.pos += 1
            self.solver.add(cond)
            return True
        self.solver.add(z3.Not(cond))
        self.decisions.append([False, True, True])
        self.pos += 1
        return False

ENG = None

def _bv(x):
    if isinstance(x, SymInt):
        return x.t
    if isinstance(x, bool):
        x = int(x)
    if isinstance(x, int):
        return z3.BitVecVal(x, W)
    raise TypeError(type(x))

class SymInt(int):
    def __new__(cls, t):
        o = int.__new__(cls, 0)
        o.t = t
        return o
    # arithmetic
    def __add__(s, o): return SymInt(s.t + _bv(o))
    __radd__ = __add__
    def __sub__(s, o): return SymInt(s.t - _bv(o))
    def __rsub__(s, o): return SymInt(_bv(o) - s.t)
    def __mul__(s, o): return SymInt(s.t * _bv(o))
    __rmul__ = __mul__
    def __neg__(s): return SymInt(-s.t)
    def __pos__(s): return s
    def __abs__(s): return SymInt(z3.If(s.t < 0, -s.t, s.t))
    def __lshift__(s, o): return SymInt(s.t << _bv(o))
    def __rlshift__(s, o): return SymInt(_bv(o) << s.t)
    def __rshift__(s, o): return SymInt(s.t >> _bv(o))
    def __rrshift__(s, o): return SymInt(_bv(o) >> s.t)
    def __and__(s, o): return SymInt(s.t & _bv(o))
    __rand__ = __and__
    def __or__(s, o): return SymInt(s.t | _bv(o))
    __ror__ = __or__
    def __xor__(s, o): return SymInt(s.t ^ _bv(o))
    __rxor__ = __xor__
    def __invert__(s): return SymInt(~s.t)
    def __mod__(s, o):
        o = _bv(o)
        # python floor-mod for positive modulus
        r = z3.SRem(s.t, o)
        return SymInt(z3.If(z3.And(r != 0, (r < 0) != (o < 0)), r + o, r))
    def __floordiv__(s, o):
        o = _bv(o)
        q = s.t / o
        r = z3.SRem(s.t, o)
        return SymInt(z3.If(z3.And(r != 0, (r < 0) != (o < 0)), q - 1, q))
    # comparisons: eager fork
    def __lt__(s, o): return ENG.branch(s.t < _bv(o))
    def __le__(s, o): return ENG.branch(s.t <= _bv(o))
    def __gt__(s, o): return ENG.branch(s.t > _bv(o))
    def __ge__(s, o): return ENG.branch(s.t >= _bv(o))
    def __eq__(s, o):
        if not isinstance(o, int): return False
        return ENG.branch(s.t == _bv(o))
    def __ne__(s, o):
        if not isinstance(o, int): return True
        return ENG.branch(s.t != _bv(o))
    def __bool__(s): return ENG.branch(s.t != 0)
    def __hash__(s): raise TypeError('hash of symbolic int')
    def __index__(s): raise TypeError('index of symbolic int')
    def __repr__(s): return f'Sym({s.t})'
    def bit_length(s):
        a = z3.If(s.t < 0, -s.t, s.t)
        r = z3.BitVecVal(0, W)
        for i in range(W - 1):
            r = z3.If(z3.Extract(i, i, a) == 1, z3.BitVecVal(i + 1, W), r)
        return SymInt(r)

def explore(fn, setup):
    global ENG
    eng = Engine()
    ENG = eng
    paths = 0
    aborted = 0
    while True:
        eng.solver.push()
        eng.pos = 0
        try:
            args = setup(eng)
            fn(eng, *args)
            paths += 1
        except Abort:
            aborted += 1
        eng.solver.pop()
        while eng.decisions and eng.decisions[-1][1]:
            eng.decisions.pop()
        if not eng.decisions:
            break
        eng.decisions[-1] = [False, True, False]
    return paths, aborted, eng
