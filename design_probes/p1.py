from fractions import Fraction
from fpy2.number.number.reals import RealFloat
from fpy2.number.round import RoundingMode

def round_rtz_p3(s: bool, exp: int, c: int) -> int:
    """
    pre: 0 <= c < 256
    pre: -8 <= exp <= 8
    post: True
    """
    x = RealFloat(s, exp, c)
    r = x.round(max_p=3, min_n=-5, rm=RoundingMode.RTZ)
    # check: |r| <= |x|
    assert abs(r.as_rational()) <= abs(x.as_rational())
    return r.c

def round_buggy(s: bool, exp: int, c: int) -> int:
    """
    pre: 0 <= c < 256
    pre: -8 <= exp <= 8
    post: True
    """
    x = RealFloat(s, exp, c)
    r = x.round(max_p=3, min_n=-5, rm=RoundingMode.RAZ)
    assert abs(r.as_rational()) <= abs(x.as_rational())
    return r.c
