"""C02/C03 glue lemma probe: gmputils.mpfr_call with the C call replaced by its contract; exact result y = (Y + eps) * 2^(-K)."""
import sys, time, z3, warnings
warnings.simplefilter('ignore')
sys.path.insert(0, '/tmp/probe')
import symex0 as S0, symex1 as S
from symex0 import SymInt, _bv
W = S0.W
import fpy2 as fp
from fpy2 import Float, RealFloat
from fpy2.number import gmputils
from fpy2.number.round import RoundingMode as RM
import p3_spec as SP

YW = int(sys.argv[1]); MODE = sys.argv[2]   # bits of Y; 'float'|'fixed'
MUT = sys.argv[3] if len(sys.argv) > 3 else None
K = YW + 4

class FakeMpfr:
    """what gmpy2 returns for a finite non-zero result under RoundToZero at precision q"""
    def __init__(self, neg, mant, exp, inexact):
        self.neg, self.mant, self.exp_, self.rc = neg, mant, exp, (1 if inexact else 0)
    def is_signed(self): return self.neg
    def is_nan(self): return False
    def is_infinite(self): return False
    def is_zero(self): return False
    def as_mantissa_exp(self): return (-self.mant if self.neg else self.mant), self.exp_
CUR = {}
def stub_call_with_prec(prec, fn, args):
    Y, sticky, neg = CUR['Y'], CUR['sticky'], CUR['neg']
    # truncate Y (a SymInt, scaled by 2^-K) to `prec` bits toward zero
    bl = Y.bit_length()
    drop = bl - prec
    if drop > 0:
        mant = Y >> drop
        lost = (Y & ((1 << drop) - 1)) != 0
        exp = drop - K
    else:
        mant = Y; lost = False; exp = -K
    return FakeMpfr(neg, mant, exp, lost or sticky)
gmputils._mpfr_call_with_prec = stub_call_with_prec
class _G:  # gmp.get_exp(result): MPFR exponent = e + 1
    @staticmethod
    def get_exp(r): return r.mant.bit_length() + r.exp_
    get_emin_min = staticmethod(gmputils.gmp.get_emin_min)
gmputils.gmp = _G
import builtins
class _IntMeta(type):
    def __instancecheck__(cls, obj): return isinstance(obj, builtins.int)
    def __call__(cls, x=0, *a): return x if isinstance(x, SymInt) else builtins.int(x, *a)
class _int_pass(metaclass=_IntMeta): pass
gmputils.int = _int_pass
if MUT == 'guard':   # one guard digit too few
    src = open(gmputils.__file__).read().replace("result = _mpfr_call_with_prec(prec + 2, fn, args)\n        return _round_odd(result, result.rc != 0)\n", "result = _mpfr_call_with_prec(prec + 1, fn, args)\n        return _round_odd(result, result.rc != 0)\n")
    ns = gmputils.__dict__; exec(compile(src, gmputils.__file__, 'exec'), ns); ns['_mpfr_call_with_prec'] = stub_call_with_prec; ns['gmp'] = _G; ns['int'] = _int_pass
if MUT == 'sticky':
    src = open(gmputils.__file__).read().replace("if c % 2 == 0 and inexact:", "if c % 2 == 0 and inexact and False:")
    ns = gmputils.__dict__; exec(compile(src, gmputils.__file__, 'exec'), ns); ns['_mpfr_call_with_prec'] = stub_call_with_prec; ns['gmp'] = _G; ns['int'] = _int_pass

viol = []; npaths = [0]
def mk(ctx, neg, sticky, rm):
    def setup(eng):
        Y = z3.BitVec('Y', W); lo = (1 << (ctx.round_params()[0] + 1)) if MODE == 'float' else 1
        eng.solver.add(Y >= lo, Y < (1 << YW)); return (SymInt(Y),)
    def run(eng, Y):
        CUR.update(Y=Y, sticky=sticky, neg=neg)
        p, n = ctx.round_params()
        r_odd = gmputils.mpfr_call(None, (), prec=p, n=n)
        out = ctx.round(r_odd)
        npaths[0] += 1
        # oracle: correct rounding of y = (Y + eps) 2^-K, eps in (0,1) iff sticky: round 2Y+sticky' at finer scale
        X = (Y.t << 1) | (1 if sticky else 0)          # odd-extended: exact for every rounding position coarser than 2^-K
        spec, inexact = SP.spec_round(X, neg, p if MODE == 'float' else None, (ctx.nmin if hasattr(ctx, 'nmin') else None), rm, K + 1)
        R = _bv(out.c) << (_bv(out.exp) + K + 1)
        eng.solver.push(); eng.solver.add(z3.Or(R != spec, z3.BoolVal(bool(out.inexact)) != inexact))
        if eng.check() == z3.sat: viol.append((repr(ctx)[:60], neg, sticky, eng.solver.model()))
        eng.solver.pop()
    return setup, run
t0 = time.time()
for rm in RM:
    ctxs = [fp.MPFloatContext(3, rm), fp.MPSFloatContext(3, -1, rm)] if MODE == 'float' else [fp.MPFixedContext(-2, rm), fp.MPFixedContext(1, rm)]
    for ctx in ctxs:
        for neg in (False, True):
            for sticky in (False, True):
                setup, run = mk(ctx, neg, sticky, rm)
                S.explore(run, setup)
    print(rm, 'paths', npaths[0], 'viol', len(viol), round(time.time() - t0, 1), flush=True)
print('TOTAL paths', npaths[0], 'viol', len(viol), viol[:2])
# debug one violation concretely
if viol:
    name, neg, sticky, m = viol[0]
    Yv = m[m.decls()[0]].as_signed_long()
    ctx = fp.MPFloatContext(3, RM.RNE)
    CUR.update(Y=Yv, sticky=sticky, neg=neg)
    S0.ENG = None
    r_odd = gmputils.mpfr_call(None, (), prec=3, n=None)
    out = ctx.round(r_odd)
    print('Y', Yv, 'r_odd', r_odd.c, r_odd.exp, 'out', out.c, out.exp, out.inexact, 'K', K)
