import z3, time, sys
W = int(sys.argv[3]) if len(sys.argv) > 3 else 32
P = int(sys.argv[1]); NB = int(sys.argv[2])   # precision, number of binades above subnormal
def bitlen(a):
    r = z3.BitVecVal(0, W)
    for i in range(W - 1):
        r = z3.If(z3.Extract(i, i, a) == 1, z3.BitVecVal(i + 1, W), r)
    return r
def rnd(m):
    """round signed integer m (units of 2^expmin) to P bits RNE with gradual underflow at unit 1; no overflow handling"""
    neg = m < 0
    X = z3.If(neg, -m, m)
    e = bitlen(X) - 1
    q = z3.If(e - P + 1 > 0, e - P + 1, z3.BitVecVal(0, W))
    one = z3.BitVecVal(1, W)
    mask = (one << q) - 1
    lo = X & ~mask; rem = X & mask; half = one << (q - 1)
    lo_even = ((lo >> q) & 1) == 0
    up = z3.And(q != 0, z3.Or(z3.UGT(rem, half), z3.And(rem == half, z3.Not(lo_even))))
    R = z3.If(up, lo + (one << q), lo)
    return z3.If(neg, -R, R)
def member(m):
    X = z3.If(m < 0, -m, m)
    e = bitlen(X) - 1
    q = z3.If(e - P + 1 > 0, e - P + 1, z3.BitVecVal(0, W))
    return z3.And((X & ((z3.BitVecVal(1, W) << q) - 1)) == 0, z3.ULT(X, z3.BitVecVal(1 << (P + NB), W)))
a = z3.BitVec('a', W); b = z3.BitVec('b', W)
s = rnd(a + b); ap = rnd(s - b); bp = rnd(s - ap); da = rnd(a - ap); db = rnd(b - bp); t = rnd(da + db)
sol = z3.Solver()
sol.add(member(a), member(b))
which = sys.argv[4] if len(sys.argv) > 4 else 'knuth'
if which == 'knuth':
    sol.add(a + b != s + t)
else:  # fast2sum without |a|>=|b| precondition: should be SAT
    z = rnd(s - a); t2 = rnd(b - z)
    sol.add(a + b != s + t2)
t0 = time.time(); r = sol.check(); print(which, 'P', P, 'NB', NB, 'W', W, r, round(time.time() - t0, 2), 's')
if r == z3.sat:
    m = sol.model(); print(m[a].as_signed_long(), m[b].as_signed_long())
