import fpy2 as fp
from fpy2 import strategies as st
C = fp.IEEEContext(3, 6)
@fp.fpy
def q(x: fp.Real) -> fp.Real:
    with fp.IEEEContext(3, 6):
        y = fp.round(x)
    return y
print(q.format())
for name in ['unfold_special','unfold_overflow','unfold_neg_zero','float_to_fixed','rescale_fixed']:
    try:
        g = getattr(st, name)(q)
        print('=====', name); print(g.format())
    except Exception as e:
        print('=====', name, 'ERR', type(e).__name__, e)
g = st.unfold_special(q); g = st.unfold_overflow(g); g=st.unfold_neg_zero(g); g = st.float_to_fixed(g); 
print('===== chain'); print(g.format())
g2 = st.rescale_fixed(g); print('===== +rescale'); print(g2.format())
print(g2(fp.Float.from_float(3.3)), q(fp.Float.from_float(3.3)))
