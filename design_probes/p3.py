import sys, time, z3, importlib
sys.path.insert(0, '/tmp/probe')
import symex0 as S
from symex0 import SymInt, W
import fpy2.number.number.reals as reals
from fpy2.number.number.reals import RealFloat
from fpy2.number.round import RoundingMode as RM

CW = int(sys.argv[1]); E = int(sys.argv[2]); SYMP = sys.argv[3] == 'symp'
MUT = sys.argv[4] if len(sys.argv) > 4 else None
K = E + CW + 2  # scale so every value is an integer

def bitlen(a):
    r = z3.BitVecVal(0, W)
    for i in range(W - 1):
        r = z3.If(z3.Extract(i, i, a) == 1, z3.BitVecVal(i + 1, W), r)
    return r

def spec_round(X, neg, p, n, rm):
    """X: scaled magnitude (BV, integer = |x| * 2^K). p: BV or None, n: BV or None (position in unscaled terms).
    returns scaled magnitude of the correctly rounded result; independent of implementation structure."""
    one = z3.BitVecVal(1, W)
    eX = bitlen(X) - 1                      # scaled normalized exponent
    # ulp exponent (scaled): quantum q such that representable values near X are multiples of 2^q
    if p is None:
        q = n + 1 + K
    elif n is None:
        q = eX - p + 1
    else:
        q = z3.If(eX - p + 1 > n + 1 + K, eX - p + 1, n + 1 + K)
    q = z3.If(q < 0, z3.BitVecVal(0, W), q)  # never finer than the scale (K chosen so this doesn't bind)
    mask = (one << q) - 1
    lo = X & ~mask
    rem = X & mask
    hi = lo + (one << q)
    half = one << (q - 1)
    exact = rem == 0
    lo_even = ((lo >> q) & 1) == 0
    near_up = z3.If(q == 0, z3.BoolVal(False), z3.UGT(rem, half))
    tie = z3.If(q == 0, z3.BoolVal(False), rem == half)
    if rm == RM.RNE: up = z3.Or(near_up, z3.And(tie, z3.Not(lo_even)))
    elif rm == RM.RNA: up = z3.Or(near_up, tie)
    elif rm == RM.RTP: up = z3.BoolVal(not neg)
    elif rm == RM.RTN: up = z3.BoolVal(neg)
    elif rm == RM.RTZ: up = z3.BoolVal(False)
    elif rm == RM.RAZ: up = z3.BoolVal(True)
    elif rm == RM.RTO: up = lo_even
    elif rm == RM.RTE: up = z3.Not(lo_even)
    return z3.If(exact, X, z3.If(up, hi, lo)), z3.Not(exact)

viol = []
def setup_factory(rm, s):
    def setup(eng):
        c = z3.BitVec('c', W); e = z3.BitVec('exp', W)
        eng.solver.add(c >= 0, c < (1 << CW), e >= -E, e <= E)
        if SYMP:
            p = z3.BitVec('p', W); n = z3.BitVec('n', W)
            eng.solver.add(p >= 1, p <= CW + 1, n >= -E - 2, n <= E)
            return SymInt(c), SymInt(e), SymInt(p), SymInt(n)
        return SymInt(c), SymInt(e)
    return setup

def mk(rm, s, pc=None, nc=None):
    def run(eng, c, e, p=pc, n=nc):
        x = RealFloat(s, e, c)
        r = x.round(max_p=p, min_n=n, rm=rm)
        X = c.t << (e.t + K)
        R = S._bv(r._c) << (S._bv(r._exp) + K)
        spec, inexact = spec_round(X, s, S._bv(p) if p is not None else None, S._bv(n) if n is not None else None, rm)
        post = z3.And(R == spec, z3.BoolVal(bool(r.inexact)) == inexact, z3.BoolVal(bool(r._s)) == z3.BoolVal(s))
        eng.solver.push(); eng.solver.add(z3.Not(post))
        res = eng.check()
        if res == z3.sat:
            m = eng.solver.model()
            viol.append((rm, s, {str(d): m[d].as_signed_long() for d in m.decls()}))
        elif res != z3.unsat:
            viol.append(('unknown',))
        eng.solver.pop()
    return run

if MUT == 'tie':
    # mutate: RTE parity flipped
    orig = RealFloat._round_increment_direction
    def bad(self, direction):
        from fpy2.number.round import RoundingDirection as RD
        if direction == RD.RTE: return (self._c & 1) == 0
        return orig(self, direction)
    RealFloat._round_increment_direction = bad
if MUT == 'carry':
    src = open(reals.__file__).read().replace("if p is not None and kept._c.bit_length() > p:", "if p is not None and kept._c.bit_length() > p + 1:")
    exec(compile(src, reals.__file__, 'exec'), reals.__dict__)
    RealFloat = reals.RealFloat

t0 = time.time(); tot = 0; checks = 0; ss = 0
for rm in RM:
    for s in (False, True):
        if SYMP:
            paths, ab, eng = S.explore(mk(rm, s), setup_factory(rm, s))
        else:
            paths = 0
            for p in (1, 2, 4):
                pa, ab, eng = S.explore(mk(rm, s, p, -4), setup_factory(rm, s)); paths += pa
        tot += paths; checks += eng.checks; ss += eng.solve_s
    print(rm, 'paths so far', tot, 'viol', len(viol), 't', round(time.time() - t0, 1), flush=True)
print('total paths', tot, 'time', round(time.time() - t0, 1), 'viol', len(viol))
for v in viol[:3]: print(v)
