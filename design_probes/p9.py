"""C17 probe: stochastic rounding threshold property on the real RealFloat._round_at_stochastic, rng stubbed."""
import sys, time, z3, warnings
warnings.simplefilter('ignore')
sys.path.insert(0, '/tmp/probe')
import symex0 as S0, symex1 as S
from symex0 import SymInt, _bv
W = S0.W
from fpy2.number.number.reals import RealFloat
from fpy2.number.round import RoundingMode as RM
import p3_spec as SP
CW, E = 6, 5; K = E + CW + 6
P, N = 3, -4
calls = [0]
MUT = sys.argv[1] if len(sys.argv) > 1 else None
class StubRng:  # duck-typed: _generate_randbits goes to the numpy branch -> int(rng.integers(0, 1<<k))
    def __init__(self, r): self.r = r
    def integers(self, lo, hi): calls[0] += 1; return self.r
import fpy2.number.number.reals as reals
import builtins
class _IntMeta(type):
    def __instancecheck__(cls, obj): return isinstance(obj, builtins.int)
    def __call__(cls, x=0, *a): return x if isinstance(x, SymInt) else builtins.int(x, *a)
class _int_pass(metaclass=_IntMeta): pass
reals.int = _int_pass
if MUT == 'flip':
    src = open(reals.__file__).read().replace("rand_rm = RoundingMode.RAZ if round_up else RoundingMode.RTZ", "rand_rm = RoundingMode.RTZ if round_up else RoundingMode.RAZ")
    exec(compile(src, reals.__file__, 'exec'), reals.__dict__); reals.int = _int_pass; RealFloat = reals.RealFloat
if MUT == 'bits':
    src = open(reals.__file__).read().replace("n_rand = n - num_randbits", "n_rand = n - num_randbits + 1")
    exec(compile(src, reals.__file__, 'exec'), reals.__dict__); reals.int = _int_pass; RealFloat = reals.RealFloat
viol = []; paths = 0; t0 = time.time()
for k in (1, 2, 3):
  for rm in (RM.RTZ, RM.RNE, RM.RAZ):
    for s in (False, True):
        def setup(eng):
            c = z3.BitVec('c', W); e = z3.BitVec('exp', W); r = z3.BitVec('r', W)
            eng.solver.add(c >= 1, c < (1 << CW), e >= -E, e <= E, r >= 0, r < (1 << k))
            return SymInt(c), SymInt(e), SymInt(r)
        def run(eng, c, e, r):
            calls[0] = 0
            x = RealFloat(s, e, c)
            y = x.round(max_p=P, min_n=N, rm=rm, num_randbits=k, rng=StubRng(r))
            X = c.t << (e.t + K); R = _bv(y.c) << (_bv(y.exp) + K)
            lo, _ = SP.spec_round(X, s, P, N, RM.RTZ, K); hi, _ = SP.spec_round(X, s, P, N, RM.RAZ, K)
            # T = distance past lo in units of gap/2^k, rounded by base mode rm at that resolution
            gap = hi - lo
            # position of x at resolution 2^-k of the gap: round x at the finer grid (quantum gap>>k) with mode rm
            q = gap >> k   # power of two (or 0 when exact)
            rem = X - lo
            fl = z3.If(q == 0, rem, z3.UDiv(rem, z3.If(q == 0, z3.BitVecVal(1, W), q))); frac = z3.If(q == 0, z3.BitVecVal(0, W), z3.URem(rem, z3.If(q == 0, z3.BitVecVal(1, W), q)))
            half = q >> 1
            up = {RM.RTZ: z3.BoolVal(False), RM.RAZ: frac != 0, RM.RNE: z3.Or(z3.UGT(frac, half), z3.And(frac == half, frac != 0, (fl & 1) == 1))}[rm]
            T = z3.If(up, fl + 1, fl)
            away = R == hi
            post = z3.And(z3.Or(R == lo, R == hi), z3.Implies(lo == hi, R == X),
                          z3.Implies(lo != hi, away == z3.UGE(r.t + T, z3.BitVecVal(1 << k, W))), z3.BoolVal(calls[0] == 1))
            eng.solver.push(); eng.solver.add(z3.Not(post))
            if eng.check() == z3.sat: viol.append((k, rm, s, eng.solver.model()))
            eng.solver.pop()
        p, a, en = S.explore(run, setup); paths += p
print('paths', paths, 'viol', len(viol), 'time', round(time.time() - t0, 1)); print(viol[:2])
