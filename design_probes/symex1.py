"""Prototype v2: adds deterministic enumerate-and-fork choices."""
import z3, time
from symex0 import SymInt, _bv, Abort
import symex0 as S0
W = S0.W

class Engine:
    def __init__(self):
        self.solver = z3.Solver()
        self.dec = []   # ['b', taken, exhausted, checked] | ['c', chosen, excluded(list), exhausted]
        self.pos = 0; self.checks = 0; self.solve_s = 0.0
    def check(self):
        t = time.time(); r = self.solver.check(); self.solve_s += time.time() - t; self.checks += 1
        return r
    def branch(self, cond):
        cond = z3.simplify(cond)
        if z3.is_true(cond): return True
        if z3.is_false(cond): return False
        if self.pos < len(self.dec):
            d = self.dec[self.pos]; self.pos += 1
            assert d[0] == 'b', 'replay divergence'
            self.solver.add(cond if d[1] else z3.Not(cond))
            if self.pos == len(self.dec) and not d[3]:
                d[3] = True
                if self.check() != z3.sat: raise Abort()
            return d[1]
        self.solver.push(); self.solver.add(cond); r = self.check(); self.solver.pop()
        if r == z3.sat:
            self.dec.append(['b', True, False, True]); self.pos += 1; self.solver.add(cond); return True
        self.solver.add(z3.Not(cond)); self.dec.append(['b', False, True, True]); self.pos += 1; return False
    def choose(self, term):
        """concretise a BV term: deterministic enumerate-and-fork"""
        term = z3.simplify(term)
        if z3.is_bv_value(term): return term.as_signed_long()
        if self.pos < len(self.dec):
            d = self.dec[self.pos]; self.pos += 1
            assert d[0] == 'c', 'replay divergence'
            for v in d[2]: self.solver.add(term != z3.BitVecVal(v, W))
            if d[1] is None:
                if self.check() != z3.sat:
                    d[3] = True; raise Abort()
                d[1] = self.solver.model().eval(term, model_completion=True).as_signed_long()
            self.solver.add(term == z3.BitVecVal(d[1], W)); return d[1]
        assert self.check() == z3.sat
        v = self.solver.model().eval(term, model_completion=True).as_signed_long()
        self.dec.append(['c', v, [], False]); self.pos += 1
        self.solver.add(term == z3.BitVecVal(v, W)); return v

def explore(fn, setup, maxpaths=100000):
    eng = Engine(); S0.ENG = eng
    paths = aborted = 0
    while paths + aborted < maxpaths:
        eng.solver.push(); eng.pos = 0
        try:
            args = setup(eng); fn(eng, *args); paths += 1
        except Abort:
            aborted += 1
        eng.solver.pop()
        # backtrack
        while eng.dec:
            d = eng.dec[-1]
            if d[0] == 'b':
                if d[2]: eng.dec.pop(); continue
                eng.dec[-1] = ['b', False, True, False]; break
            else:
                if d[3]: eng.dec.pop(); continue
                eng.dec[-1] = ['c', None, d[2] + [d[1]], False]; break
        if not eng.dec: break
    return paths, aborted, eng
