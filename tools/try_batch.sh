#!/bin/bash
# usage: tools/try_batch.sh <property-id> <seed out dir>   — tries m1..m3 one after another in scratch worktrees, logs to /tmp/try_<pid>_<m>.log
pid="$1"; d="$2"
for m in m1 m2 m3; do
  [ -f "$d/$m/patch.diff" ] || continue
  /verif/tools/try_mutant_wt.sh "$d/$m/patch.diff" "$pid" > /tmp/try_${pid}_${m}.log 2>&1
done
