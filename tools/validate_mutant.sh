#!/bin/bash
# usage: tools/validate_mutant.sh <mutant dir (patch.diff, demo.py, meta.json)> <out json>
# confirms in a scratch worktree: patch applies; demo exits 0 without / 1 with the change; existing test suite passes with it
set -u
d="$1"; out="$2"
wt=/tmp/wt_validate_$$
git -C /repo worktree add -q --detach "$wt" HEAD || exit 9
res_clean=$(cd "$wt" && PYTHONPATH="$wt" timeout 300 /venv/bin/python "$d/demo.py" >/dev/null 2>&1; echo $?)
applies=0
( cd "$wt" && git apply "$d/patch.diff" ) && applies=1
res_mut=$(cd "$wt" && PYTHONPATH="$wt" timeout 300 /venv/bin/python "$d/demo.py" >/dev/null 2>&1; echo $?)
log=/tmp/wt_validate_$$.log
(cd "$wt" && PYTHONPATH="$wt" timeout 3000 /venv/bin/python -m pytest -q -ra -p no:cacheprovider --timeout=900 -n 6 tests > "$log" 2>&1)
tests=$(tail -1 "$log")
# timing-only failures under load (Hypothesis deadlines / health checks): the failed tests are re-run alone, serially
failed=$(grep -E "^(FAILED|ERROR) " "$log" | awk '{print $2}' | sort -u | tr '\n' ' ')
if [ -n "$failed" ]; then
  rerun=$(cd "$wt" && PYTHONPATH="$wt" timeout 1800 /venv/bin/python -m pytest -q -p no:cacheprovider --timeout=900 $failed 2>&1 | tail -1)
  tests="$tests || failed tests re-run alone: $rerun"
fi
rm -f "$log"
git -C /repo worktree remove --force "$wt"
python3 - "$d" "$out" "$applies" "$res_clean" "$res_mut" "$tests" <<'PY'
import json,sys
d,out,applies,rc,rm,tests=sys.argv[1:7]
json.dump({'mutant':d,'applies':applies=='1','demo_exit_clean':int(rc),'demo_exit_mutated':int(rm),'tests_tail':tests},open(out,'w'),indent=1)
print(open(out).read())
PY
