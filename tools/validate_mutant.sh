#!/bin/bash
# usage: tools/validate_mutant.sh <mutant dir (patch.diff, demo.py, meta.json)> <out json>
# confirms in a scratch worktree: patch applies; demo exits 0 without / 1 with the change; existing test suite passes with it
set -u
d="$1"; out="$2"
wt=/tmp/wt_validate_$$
git -C /repo worktree add -q --detach "$wt" HEAD || exit 9
res_clean=$(cd "$wt" && PYTHONPATH="$wt" timeout 300 /venv/bin/python "$d/demo.py" >/dev/null 2>&1; echo $?)
applies=0
( cd "$wt" && git apply "$d/patch.diff" ) && applies=1
res_mut=$(cd "$wt" && PYTHONPATH="$wt" timeout 300 /venv/bin/python "$d/demo.py" >/dev/null 2>&1; echo $?)
tests=$(cd "$wt" && PYTHONPATH="$wt" timeout 2400 /venv/bin/python -m pytest -q -p no:cacheprovider --timeout=900 -n 6 tests 2>&1 | tail -3 | tr '\n' ' ')
git -C /repo worktree remove --force "$wt"
python3 - "$d" "$out" "$applies" "$res_clean" "$res_mut" "$tests" <<'PY'
import json,sys
d,out,applies,rc,rm,tests=sys.argv[1:7]
json.dump({'mutant':d,'applies':applies=='1','demo_exit_clean':int(rc),'demo_exit_mutated':int(rm),'tests_tail':tests},open(out,'w'),indent=1)
print(open(out).read())
PY
