#!/bin/bash
# for every seeded change whose recorded suite run had failures: re-run the failing test files alone with the change applied (they are
# hypothesis health checks that fail under machine load, also on the unmodified tree) and record the outcome in meta.json
cd /verif/seeded
for d in */; do
  d=${d%/}
  grep -q '"existing_test_suite_with_change": ".* failed' $d/meta.json || continue
  grep -q 'flaky_tests_rerun_alone' $d/meta.json && continue
  wt=/tmp/wt_flaky_$$
  git -C /repo worktree add -q --detach $wt HEAD || continue
  res="patch does not apply to the current HEAD"
  if (cd $wt && git apply /verif/seeded/$d/patch.diff 2>/dev/null); then
    res=$(cd $wt && PYTHONPATH=$wt timeout 900 /venv/bin/python -m pytest -q -p no:cacheprovider tests/unit/generators/test_fpy_program.py tests/unit/number/test_real_float.py tests/unit/analysis/test_type_infer.py 2>&1 | tail -1)
  fi
  git -C /repo worktree remove --force $wt
  python3 - "$d" "$res" <<'PY'
import json,sys
p='/verif/seeded/%s/meta.json'%sys.argv[1]
m=json.load(open(p)); m['confirmed']['flaky_tests_rerun_alone']=sys.argv[2]; json.dump(m,open(p,'w'),indent=1)
PY
done
echo RECHECKDONE
