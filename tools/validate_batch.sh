#!/bin/bash
# usage: tools/validate_batch.sh <seed out dir>...   — validates m1..m3 of each dir sequentially (validation.json next to the patch)
for d in "$@"; do
  for m in m1 m2 m3; do
    [ -f "$d/$m/patch.diff" ] || continue
    [ -f "$d/$m/validation.json" ] && continue
    /verif/tools/validate_mutant.sh "$d/$m" "$d/$m/validation.json" > /dev/null 2>&1
  done
done
