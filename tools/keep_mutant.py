#!/usr/bin/env python3
"""usage: tools/keep_mutant.py <mutant dir> <seeded name> <caught-by text>   — copies patch, demo, meta (+ validation) into /verif/seeded/<name>/"""
import json, os, shutil, sys
src, name, caught = sys.argv[1], sys.argv[2], sys.argv[3]
dst = os.path.join('/verif/seeded', name)
os.makedirs(dst, exist_ok=True)
for f in ('patch.diff', 'demo.py'):
    shutil.copy(os.path.join(src, f), os.path.join(dst, f))
meta = json.load(open(os.path.join(src, 'meta.json')))
val = json.load(open(os.path.join(src, 'validation.json'))) if os.path.exists(os.path.join(src, 'validation.json')) else {}
out = {'property': meta.get('property'), 'summary': meta.get('summary'), 'needs_to_manifest': meta.get('needs_to_manifest'), 'files_changed': meta.get('files_changed'),
       'confirmed': {'patch_applies_to_repo_head': val.get('applies'), 'demo_exit_without_change': val.get('demo_exit_clean'), 'demo_exit_with_change': val.get('demo_exit_mutated'),
                     'existing_test_suite_with_change': val.get('tests_tail'), 'how': 'tools/validate_mutant.sh in a scratch worktree of /repo (removed afterwards)'},
       'detected_by': caught, 'origin': 'independent sub-agent given only the property text and its own worktree'}
json.dump(out, open(os.path.join(dst, 'meta.json'), 'w'), indent=1)
print('kept', dst)
