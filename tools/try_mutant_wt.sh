#!/bin/bash
# usage: tools/try_mutant_wt.sh <patch.diff> <property-id> [more check args]
# like try_mutant.sh but in a scratch worktree of /repo (so /repo stays untouched and several trials can run at once)
set -u
patch="$(readlink -f "$1")"; shift
pid="$1"; shift
wt=/tmp/mutwt_$$
out=/tmp/mutout_$$
git -C /repo worktree add -q --detach "$wt" HEAD || exit 9
( cd "$wt" && git apply "$patch" ) || { echo "patch does not apply"; git -C /repo worktree remove --force "$wt"; exit 9; }
cd /verif
VERIF_REPO="$wt" VERIF_OUT_DIR="$out" nice -n -10 ./check "$pid" "$@" > "$out.log" 2>&1
rc=$?
git -C /repo worktree remove --force "$wt"
grep -E "^violation class|^VIOLATION|^$pid tier|^KNOWN" "$out.log" | cut -c1-260 | head -12
echo "exit=$rc"
rm -rf "$out" "$out.log"
