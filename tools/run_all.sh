#!/bin/bash
# usage: tools/run_all.sh <tier> <id>...   — runs the checks one after another, logs to /tmp/run_<id>.log, summary to /tmp/run_all.summary
tier="$1"; shift
cd /verif
for id in "$@"; do
  VERIF_VERBOSE=1 nice -n -5 ./check "$id" --tier "$tier" > /tmp/run_$id.log 2>&1
  echo "$id exit=$? $(grep -E "^$id tier" /tmp/run_$id.log | cut -c1-200)" >> /tmp/run_all.summary
done
echo ALLDONE >> /tmp/run_all.summary
