#!/bin/bash
# usage: tools/bg_check.sh <log> <check args...>   — runs ./check in the background at raised priority, log to <log>
log="$1"; shift
cd /verif
( VERIF_VERBOSE=1 nice -n -15 timeout 3500 ./check "$@" > "$log" 2>&1; echo "exit=$? done" >> "$log" ) > /dev/null 2>&1 &
