#!/bin/bash
# usage: tools/try_mutant.sh <patch.diff> <property-id> [more check args]
# applies the patch to /repo, runs the quick check, restores /repo. Prints the status line and violation classes.
set -u
patch="$1"; shift
pid="$1"; shift
cd /repo || exit 9
if ! git diff --quiet; then echo "repo dirty"; exit 9; fi
git apply "$patch" || { echo "patch does not apply"; exit 9; }
cd /verif
./check "$pid" "$@" > /tmp/mut_$$.log 2>&1
rc=$?
git -C /repo checkout -- .
grep -E "^violation class|^VIOLATION|^$pid tier|^KNOWN" /tmp/mut_$$.log | cut -c1-260 | head -12
echo "exit=$rc"
rm -f /tmp/mut_$$.log
